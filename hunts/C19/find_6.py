"""C19: attributes that stone_cfg.Route inherits from a parent struct are real route attributes
(routes may set them, -f can test them) but -a cannot select them, :all skips them, and they stay
in the route schema (all_fields) even when not selected."""
import sys
from _c19_common import run
CFG = '''namespace stone_cfg
import common
struct Route extends common.Base
    n Int32 = 0
'''
C = '''namespace common
struct Base
    hide Boolean = false
    owner String?
'''
A = '''namespace a
route r1(Void, Void, Void)
    attrs
        hide = true
        n = 1
        owner = "me"
route r2(Void, Void, Void)
'''
S = {'cfg': CFG, 'common': C, 'a': A}
bad = []
rc, d, err = run(S, ['-f', 'hide=true', '-a', ':all'])
print('-f hide=true -a :all -> rc', rc, 'routes', d and d['ns']['a']['routes'], 'schema.fields', d and d['schema_fields'])
if d and sorted(d['ns']['a']['routes'][0][2]) != ['hide', 'n', 'owner']:
    bad.append(':all exposes %s on routes, expected all of hide, n, owner' % sorted(d['ns']['a']['routes'][0][2]))
rc, d, err = run(S, ['-a', 'hide'])
print('-a hide -> rc', rc, err.strip())
if rc != 0:
    bad.append('-a hide rejected as unknown although hide is a route attribute: %s' % err.strip())
rc, d, err = run(S, ['-a', 'n'])
print('-a n -> rc', rc, 'schema.fields', d and d['schema_fields'], 'schema.all_fields', d and d['schema_all_fields'])
if d and d['schema_all_fields'] != ['n']:
    bad.append('with -a n the route schema still shows %s (all_fields), expected only n' % d['schema_all_fields'])
for b in bad:
    print('VIOLATION:', b)
sys.exit(1 if bad else 0)
