"""C19: a Bytes attribute never equals a quoted literal although --help says
"Use quotes for strings and bytes"; `=` drops every route and `!=` keeps every route."""
import sys
from _c19_common import run, survivors
CFG = '''namespace stone_cfg
struct Route
    key Bytes?
'''
A = '''namespace a
route with_key(Void, Void, Void)
    attrs
        key = "xyz"
route other_key(Void, Void, Void)
    attrs
        key = "abc"
route no_key(Void, Void, Void)
'''
CASES = [
    ('key="xyz"',  ['a.with_key:1']),
    ('key!="xyz"', ['a.no_key:1', 'a.other_key:1']),
    ('key=null',   ['a.no_key:1']),
]
bad = 0
for expr, expected in CASES:
    rc, d, err = run({'cfg': CFG, 'a': A}, ['-f', expr])
    got = survivors(d) if d else 'rc=%d %s' % (rc, err.strip())
    if got != expected:
        bad += 1
    print('%s -f %-12s observed %s ; expected %s' % ('ok ' if got == expected else 'BAD', expr, got, expected))
if bad:
    print("VIOLATION: Bytes attribute values are stored as bytes (b'xyz') and compared with a str literal")
    sys.exit(1)
