"""C19: `=`/`!=` are not typed: Boolean attrs match integer literals and Int attrs match boolean literals."""
import sys
from _c19_common import run, survivors
CFG = '''namespace stone_cfg
struct Route
    hide Boolean = false
    n Int32 = 0
'''
A = '''namespace a
route hidden(Void, Void, Void)
    attrs
        hide = true
route one(Void, Void, Void)
    attrs
        n = 1
route plain(Void, Void, Void)
'''
# expected under typed semantics: a boolean never equals an integer literal and vice versa
CASES = [
    ('hide=1',  []),
    ('hide=0',  []),
    ('hide!=1', ['a.hidden:1', 'a.one:1', 'a.plain:1']),
    ('n=true',  []),
    ('n=false', []),
    ('n!=false', ['a.hidden:1', 'a.one:1', 'a.plain:1']),
]
bad = 0
for expr, expected in CASES:
    rc, d, err = run({'cfg': CFG, 'a': A}, ['-f', expr])
    got = survivors(d) if d else 'rc=%d %s' % (rc, err.strip())
    flag = 'ok ' if got == expected else 'BAD'
    if got != expected:
        bad += 1
    print('%s -f %-10r observed %s ; typed comparison demands %s' % (flag, expr, got, expected))
if bad:
    print('VIOLATION: %d expressions compared a Boolean attribute with an integer literal '
          '(or an Int attribute with a boolean literal) as equal' % bad)
    sys.exit(1)
