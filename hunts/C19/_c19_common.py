"""Shared helper for the find_N.py scripts: runs `python -m stone.cli` with a
tiny dump backend and returns (returncode, dump-dict-or-None, stderr)."""
import json, os, shutil, subprocess, tempfile

ROOT = os.path.dirname(os.path.abspath(__file__))

BACKEND_SRC = r'''
import json
from stone.backend import CodeBackend

def _v(x):
    if x is None or isinstance(x, (bool, int, float, str)):
        return x
    return repr(x)

def _attrs(r):
    return {k: _v(v) for k, v in sorted(r.attrs.items())}

class DumpBackend(CodeBackend):
    def generate(self, api):
        out = {'schema_fields': [f.name for f in api.route_schema.fields],
               'schema_all_fields': [f.name for f in api.route_schema.all_fields],
               'ns': {}}
        for ns in api.namespaces.values():
            out['ns'][ns.name] = {
                'routes': [[r.name, r.version, _attrs(r)] for r in ns.routes],
                'route_by_name': sorted(ns.route_by_name),
                'routes_by_name': {n: sorted(rv.at_version)
                                   for n, rv in sorted(ns.routes_by_name.items())},
                'types': sorted(t.name for t in ns.data_types),
                'deprecated_by': [[r.name, r.version, r.deprecated.by.name,
                                   r.deprecated.by.version, _attrs(r.deprecated.by)]
                                  for r in ns.routes
                                  if r.deprecated and r.deprecated.by],
            }
        with self.output_to_relative_path('dump.json'):
            self.emit(json.dumps(out))
'''

def run(specs, args):
    d = tempfile.mkdtemp()
    try:
        backend = os.path.join(d, 'dump.stoneg.py')
        with open(backend, 'w') as f:
            f.write(BACKEND_SRC)
        paths = []
        for n, t in specs.items():
            p = os.path.join(d, n + '.stone')
            with open(p, 'w') as f:
                f.write(t)
            paths.append(p)
        out = os.path.join(d, 'out')
        env = dict(os.environ, PYTHONPATH=ROOT)
        p = subprocess.run(['/venv/bin/python', '-m', 'stone.cli', backend, out]
                           + paths + list(args),
                           capture_output=True, text=True, env=env, cwd=d)
        dump = None
        f = os.path.join(out, 'dump.json')
        if os.path.exists(f):
            with open(f) as fh:
                dump = json.load(fh)
        return p.returncode, dump, p.stderr
    finally:
        shutil.rmtree(d)

def survivors(dump):
    return sorted('%s.%s:%d' % (n, r[0], r[1])
                  for n, v in dump['ns'].items() for r in v['routes'])
