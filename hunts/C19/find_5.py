"""C19: a route removed by -f is still reachable through route.deprecated.by of a surviving
route, and it still carries every attribute, including those not selected with -a."""
import sys
from _c19_common import run, survivors
CFG = '''namespace stone_cfg
struct Route
    n Int32 = 0
    secret String = "none"
'''
A = '''namespace a
route new_route(Void, Void, Void)
    attrs
        n = 3
        secret = "internal"
route old_route(Void, Void, Void) deprecated by new_route
'''
rc, d, err = run({'cfg': CFG, 'a': A}, ['-f', 'n=0', '-a', 'n'])
assert rc == 0 and d, err
ns = d['ns']['a']
print('routes:', ns['routes'])
print('routes_by_name:', ns['routes_by_name'], ' route schema:', d['schema_fields'])
print('old_route.deprecated.by ->', ns['deprecated_by'])
bad = []
for name, ver, by, by_ver, by_attrs in ns['deprecated_by']:
    if by not in ns['routes_by_name'] or by_ver not in ns['routes_by_name'][by]:
        bad.append('backend reaches filtered-out route %s:%d via %s.deprecated.by' % (by, by_ver, name))
    extra = sorted(set(by_attrs) - set(d['schema_fields']))
    if extra:
        bad.append('that route still exposes attributes not selected by -a: %s = %s' % (
            extra, [by_attrs[k] for k in extra]))
for b in bad:
    print('VIOLATION:', b)
print('expected: only routes with n=0 visible and only attribute "n" visible on any route')
sys.exit(1 if bad else 0)
