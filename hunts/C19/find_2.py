"""C19: string literals in the filter keep their backslashes, so a string attribute
containing a quote, backslash or escape cannot be selected with the literal that denotes it."""
import sys
from _c19_common import run, survivors
CFG = '''namespace stone_cfg
struct Route
    s String = ""
'''
# Stone spec string literals: \" -> ", \\ -> \, \t -> TAB
A = '''namespace a
route quote(Void, Void, Void)
    attrs
        s = "say \\"hi\\""
route backslash(Void, Void, Void)
    attrs
        s = "a\\\\b"
route tab(Void, Void, Void)
    attrs
        s = "x\\ty"
route plain(Void, Void, Void)
    attrs
        s = "plain"
'''
CASES = [
    ('s="plain"',         ['a.plain:1']),
    ('s="say \\"hi\\""',  ['a.quote:1']),      # s="say \"hi\""
    ('s="a\\\\b"',        ['a.backslash:1']),  # s="a\\b"
    ('s="a\\b"',          []),                 # s="a\b"  (should not denote a<backslash>b)
    ('s="x\\ty"',         ['a.tab:1']),        # s="x\ty"
    ('s!="say \\"hi\\""', ['a.backslash:1', 'a.plain:1', 'a.tab:1']),
]
rc, d, err = run({'cfg': CFG, 'a': A}, ['-a', ':all'])
print('attribute values seen by the backend:', [(r[0], r[2]['s']) for r in d['ns']['a']['routes']])
bad = 0
for expr, expected in CASES:
    rc, d, err = run({'cfg': CFG, 'a': A}, ['-f', expr])
    got = survivors(d) if d else 'rc=%d %s' % (rc, err.strip())
    if got != expected:
        bad += 1
    print('%s -f %-22s observed %s ; expected %s' % ('ok ' if got == expected else 'BAD', expr, got, expected))
if bad:
    print('VIOLATION: string literal escapes are not decoded (cli_helpers.t_STRING strips only the quotes)')
    sys.exit(1)
