"""C19: an empty filter expression is malformed but is silently ignored (no filtering, exit 0)."""
import sys
from _c19_common import run, survivors
CFG = '''namespace stone_cfg
struct Route
    n Int32 = 0
'''
A = '''namespace a
route r1(Void, Void, Void)
    attrs
        n = 1
route r2(Void, Void, Void)
'''
bad = 0
for args in (['-f', ''], ['--filter-by-route-attr='], ['-f', ' ']):
    rc, d, err = run({'cfg': CFG, 'a': A}, args)
    ok = rc != 0
    if not ok:
        bad += 1
    print('%s %r -> rc=%d routes=%s stderr=%r ; expected: reported as an error' % (
        'ok ' if ok else 'BAD', args, rc, survivors(d) if d else None, err.strip()[-60:]))
if bad:
    print('VIOLATION: the empty expression is accepted (cli.py tests `if args.filter_by_route_attr:`), '
          'while the blank expression " " is rejected with "Unexpected end of expression."')
    sys.exit(1)
