#!/usr/bin/env python
"""
C12 finding 3: python_types output depends on PYTHONHASHSEED when an Omitted
caller is spelled "None".

python_types orders the per-caller tables with
    sorted(child_omitted_callers | parent_omitted_callers, key=str)      (python_types.py:438)
    sorted(all_omitted_callers | {None}, key=str)                        (python_types.py:890)
where the public tables are represented by the Python value None.  str(None) ==
'None', so the caller string "None" ties with the public entry and the (stable)
sort keeps the iteration order of the set, which follows the hash seed.

Run:  PYTHONPATH=/repo /venv/bin/python find_3.py
Exits 1 when the violation is observed.
"""
import hashlib, os, subprocess, sys, tempfile, textwrap

ROOT = os.path.dirname(os.path.abspath(__file__))
PY = sys.executable

SPEC = textwrap.dedent('''\
    namespace aaa

    annotation NoneOnly = Omitted("None")

    struct S
        a String
        b String
            @NoneOnly

    union U
        x String
        y String
            @NoneOnly
''')


def main():
    tmp = tempfile.mkdtemp(prefix='c12f3')
    spec = os.path.join(tmp, 'a.stone')
    with open(spec, 'w') as f:
        f.write(SPEC)
    seen = {}
    for seed in range(8):
        out = os.path.join(tmp, 'out%d' % seed)
        env = dict(os.environ, PYTHONPATH=ROOT, PYTHONHASHSEED=str(seed))
        r = subprocess.run([PY, '-m', 'stone.cli', 'python_types', out, spec, '--', '-p', 'pkg'],
                           env=env, capture_output=True, text=True)
        if r.returncode != 0:
            print(r.stderr)
            raise SystemExit('unexpected compiler failure')
        data = open(os.path.join(out, 'aaa.py'), 'rb').read()
        seen.setdefault(hashlib.md5(data).hexdigest(), []).append((seed, data))
    if len(seen) == 1:
        print('OK: identical aaa.py for hash seeds 0..7')
        return 0
    print('VIOLATION of C12 (python_types, aaa.py): %d different outputs over hash seeds 0..7' % len(seen))
    for digest, runs in seen.items():
        seeds = [s for s, _ in runs]
        lines = [l for l in runs[0][1].decode().splitlines()
                 if l.startswith(('S._all_', 'U._tagmap', 'U._None_tagmap'))]
        print('  seeds %s -> md5 %s' % (seeds, digest))
        for l in lines:
            print('      ' + l)
    print('  expected: byte-identical aaa.py for every PYTHONHASHSEED')
    return 1


if __name__ == '__main__':
    sys.exit(main())
