#!/usr/bin/env python
"""
C12 finding 2: obj_c_client crashes (KeyError, partial output) in a fresh process
but generates everything when an unrelated spec was compiled earlier in the same
process.

ObjCBackend.obj_name_to_namespace is a CLASS-level dict that is only ever added
to (stone/backends/obj_c_client.py:91, :105); _docf() indexes it with the type
name of a `:field:`Name.field`` doc reference (:604).  For a name that is not a
user-defined type of the current (alias-stripped) spec -- e.g. an alias -- a fresh
process raises KeyError, while a process that earlier compiled any spec with a
type of that name finds the stale entry and succeeds.

Run:  PYTHONPATH=/repo /venv/bin/python find_2.py
Exits 1 when the violation is observed.
"""
import json, os, subprocess, sys, tempfile, textwrap

ROOT = os.path.dirname(os.path.abspath(__file__))
PY = sys.executable

CFG = textwrap.dedent('''\
    namespace stone_cfg

    struct Route
        auth String = "user"
        style String = "rpc"
''')
SPEC = textwrap.dedent('''\
    namespace aaa

    struct Bar
        x String

    alias Foo = Bar

    struct Arg
        b Foo
            "Same as :field:`Foo.x`."

    route r(Arg, Void, Void)
        "Uses :field:`Foo.x`."
''')
UNRELATED = textwrap.dedent('''\
    namespace ppp

    struct Foo
        x String
''')
BACKEND_ARGS = ['-m', 'DBBase', '-c', 'DBBase', '-t', 'DBTransportClient', '-w', 'user',
                '-y', '{}', '-z', json.dumps({'rpc': 'DBRpcTask'})]

CHILD = textwrap.dedent('''\
    import sys, json
    sys.path.insert(0, %r)
    import stone.cli as cli
    for argv in json.loads(sys.argv[1]):
        sys.argv = ['stone'] + argv
        cli.main()
''') % ROOT


def run(jobs):
    env = dict(os.environ, PYTHONPATH=ROOT, PYTHONHASHSEED='0')
    return subprocess.run([PY, '-c', CHILD, json.dumps(jobs)], env=env,
                          capture_output=True, text=True)


def listing(d):
    out = {}
    for dp, _, fs in os.walk(d):
        for f in fs:
            p = os.path.join(dp, f)
            out[os.path.relpath(p, d)] = open(p, 'rb').read()
    return out


def main():
    tmp = tempfile.mkdtemp(prefix='c12f2')
    paths = {}
    for name, text in (('cfg', CFG), ('spec', SPEC), ('unrelated', UNRELATED)):
        paths[name] = os.path.join(tmp, name + '.stone')
        with open(paths[name], 'w') as f:
            f.write(text)

    def job(out, spec):
        return (['obj_c_client', os.path.join(tmp, out), paths['cfg'], paths[spec], '-a', ':all', '--']
                + BACKEND_ARGS)

    r1 = run([job('fresh', 'spec')])
    r2 = run([job('pre', 'unrelated'), job('after', 'spec')])
    fresh, after = listing(os.path.join(tmp, 'fresh')), listing(os.path.join(tmp, 'after'))
    if fresh == after and r1.returncode == r2.returncode:
        print('OK: identical behaviour')
        return 0
    print('VIOLATION of C12 (obj_c_client)')
    print('  fresh process: exit %d, %s; files: %s' % (
        r1.returncode, (r1.stderr.strip().splitlines() or ['-'])[-1], sorted(fresh)))
    print('  same process after unrelated spec: exit %d; files: %s' % (r2.returncode, sorted(after)))
    print('  expected: the same files with the same bytes (or the same failure) in both cases')
    return 1


if __name__ == '__main__':
    sys.exit(main())
