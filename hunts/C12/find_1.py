#!/usr/bin/env python
"""
C12 finding 1: obj_c_types output depends on which spec was compiled earlier in
the same process.

ObjCTypesBackend.obj_name_to_namespace is a CLASS-level dict that is only ever
added to (stone/backends/obj_c_types.py:84, :160).  _docf() looks doc references
`:field:`Name.field`` up in it with .get(cls_name, cls_name) (:1624).  A name that
is not a user-defined type of the current spec (e.g. an alias name, since aliases
are stripped for this backend) therefore resolves to whatever an EARLIER run in
the same process left behind.

Run:  PYTHONPATH=/repo /venv/bin/python find_1.py
Exits 1 when the violation is observed.
"""
import os, subprocess, sys, tempfile, textwrap

ROOT = os.path.dirname(os.path.abspath(__file__))
PY = sys.executable

CFG = textwrap.dedent('''\
    namespace stone_cfg

    struct Route
        auth String = "user"
''')
SPEC = textwrap.dedent('''\
    namespace aaa

    struct Bar
        "See :field:`Foo.x` here."
        x String

    alias Foo = Bar
''')
# An unrelated spec that happens to define a struct called Foo.
UNRELATED = textwrap.dedent('''\
    namespace ppp

    struct Foo
        x String
''')

CHILD = textwrap.dedent('''\
    import sys, json
    sys.path.insert(0, %r)
    import stone.cli as cli
    for argv in json.loads(sys.argv[1]):
        sys.argv = ['stone'] + argv
        cli.main()
''') % ROOT


def run(jobs):
    import json
    env = dict(os.environ, PYTHONPATH=ROOT, PYTHONHASHSEED='0')
    r = subprocess.run([PY, '-c', CHILD, json.dumps(jobs)], env=env,
                       capture_output=True, text=True)
    if r.returncode != 0:
        print(r.stderr)
        raise SystemExit('unexpected failure of the compiler')


def main():
    tmp = tempfile.mkdtemp(prefix='c12f1')
    paths = {}
    for name, text in (('cfg', CFG), ('spec', SPEC), ('unrelated', UNRELATED)):
        paths[name] = os.path.join(tmp, name + '.stone')
        with open(paths[name], 'w') as f:
            f.write(text)

    def job(out, spec):
        return ['obj_c_types', os.path.join(tmp, out), paths['cfg'], paths[spec], '-a', ':all', '--']

    run([job('fresh', 'spec')])
    run([job('pre', 'unrelated'), job('after', 'spec')])

    rel = 'ApiObjects/Aaa/Headers/DBAAABar.h'
    a = open(os.path.join(tmp, 'fresh', rel), 'rb').read()
    b = open(os.path.join(tmp, 'after', rel), 'rb').read()
    if a == b:
        print('OK: identical output')
        return 0
    la = [l for l in a.decode().splitlines() if 'See `x`' in l]
    lb = [l for l in b.decode().splitlines() if 'See `x`' in l]
    print('VIOLATION of C12 (obj_c_types, file %s)' % rel)
    print('  fresh process                      :', la)
    print('  same process, after unrelated spec :', lb)
    print('  expected: byte-identical files regardless of what was compiled earlier in the process')
    return 1


if __name__ == '__main__':
    sys.exit(main())
