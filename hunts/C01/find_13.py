#!/usr/bin/env python
"""INVALID spec accepted: an import cycle through three namespaces.

Run: PYTHONPATH=/repo /venv/bin/python find_13.py
Exits 1 when the violation of property C01 is observed, 0 otherwise.
"""
import sys
import textwrap
from stone.frontend.frontend import specs_to_ir
from stone.frontend.exception import InvalidSpec


def compile_specs(*texts):
    """Returns ('accepted', api) | ('invalid', exc) | ('crash', exc)."""
    specs = [('f%d.stone' % i, textwrap.dedent(t).lstrip('\n'))
             for i, t in enumerate(texts)]
    try:
        return 'accepted', specs_to_ir(specs)
    except InvalidSpec as e:
        return 'invalid', e
    except BaseException as e:  # noqa
        return 'crash', e


def show(label, res):
    kind, val = res
    if kind == 'accepted':
        print('  %-55s -> ACCEPTED' % label)
    elif kind == 'invalid':
        print('  %-55s -> InvalidSpec: %s' % (label, val.msg))
    else:
        print('  %-55s -> CRASH %s: %s' % (label, type(val).__name__, str(val)[:100]))


bad = 0
show('control: na <-> nb', compile_specs("""
namespace na
import nb
""", """
namespace nb
import na
"""))
res = compile_specs("""
namespace na
import nb
struct A
    f nb.B
""", """
namespace nb
import nc
struct B
    f nc.C
""", """
namespace nc
import na
struct C
    f na.A?
""")
show('na -> nb -> nc -> na', res)
if res[0] == 'accepted':
    bad += 1

if bad:
    print('VIOLATION: circular imports are prohibited (\'to make generating languages like Python possible\'); only 2-cycles are detected - the python_types output of this spec fails to import.')
    sys.exit(1)
print('no violation observed')
sys.exit(0)
