#!/usr/bin/env python
"""INVALID spec accepted: illegal type arguments / ill-typed literals for numeric types (min > max, booleans where numbers are required, Timestamp format never checked).

Run: PYTHONPATH=/repo /venv/bin/python find_16.py
Exits 1 when the violation of property C01 is observed, 0 otherwise.
"""
import sys
import textwrap
from stone.frontend.frontend import specs_to_ir
from stone.frontend.exception import InvalidSpec


def compile_specs(*texts):
    """Returns ('accepted', api) | ('invalid', exc) | ('crash', exc)."""
    specs = [('f%d.stone' % i, textwrap.dedent(t).lstrip('\n'))
             for i, t in enumerate(texts)]
    try:
        return 'accepted', specs_to_ir(specs)
    except InvalidSpec as e:
        return 'invalid', e
    except BaseException as e:  # noqa
        return 'crash', e


def show(label, res):
    kind, val = res
    if kind == 'accepted':
        print('  %-55s -> ACCEPTED' % label)
    elif kind == 'invalid':
        print('  %-55s -> InvalidSpec: %s' % (label, val.msg))
    else:
        print('  %-55s -> CRASH %s: %s' % (label, type(val).__name__, str(val)[:100]))


bad = 0
show('control: String(min_length=5, max_length=2)', compile_specs("""
namespace n
struct S
    f String(min_length=5, max_length=2)
"""))
show('control: Boolean example given 1', compile_specs("""
namespace n
struct S
    f Boolean
    example default
        f = 1
"""))
cases = {
 'Int32(min_value=5, max_value=2)': """
namespace n
struct S
    f Int32(min_value=5, max_value=2)
""",
 'Float64(min_value=5.0, max_value=2.0)': """
namespace n
struct S
    f Float64(min_value=5.0, max_value=2.0)
""",
 'Int32 = true (default) / UInt64(min_value=true)': """
namespace n
struct S
    f Int32 = true
    g UInt64(min_value=true)
    h String(min_length=false)
""",
 'example: Int32 field = true, Float64 field = false': """
namespace n
struct S
    f Int32
    g Float64
    example default
        f = true
        g = false
""",
 'Timestamp("%Q") (unknown strptime directive)': """
namespace n
struct S
    f Timestamp("%Q")
""",
}
for label, text in cases.items():
    res = compile_specs(text)
    show(label, res)
    if res[0] == 'accepted':
        bad += 1

if bad:
    print('VIOLATION: type arguments, defaults and examples must fit their types; observed empty ranges, booleans-as-integers and an unusable timestamp format accepted.')
    sys.exit(1)
print('no violation observed')
sys.exit(0)
