#!/usr/bin/env python
"""INVALID syntax accepted: inside a struct/union ANY generic keyword (namespace, alias, error, doc) is taken for the 'example' keyword.

Run: PYTHONPATH=/repo /venv/bin/python find_8.py
Exits 1 when the violation of property C01 is observed, 0 otherwise.
"""
import sys
import textwrap
from stone.frontend.frontend import specs_to_ir
from stone.frontend.exception import InvalidSpec


def compile_specs(*texts):
    """Returns ('accepted', api) | ('invalid', exc) | ('crash', exc)."""
    specs = [('f%d.stone' % i, textwrap.dedent(t).lstrip('\n'))
             for i, t in enumerate(texts)]
    try:
        return 'accepted', specs_to_ir(specs)
    except InvalidSpec as e:
        return 'invalid', e
    except BaseException as e:  # noqa
        return 'crash', e


def show(label, res):
    kind, val = res
    if kind == 'accepted':
        print('  %-55s -> ACCEPTED' % label)
    elif kind == 'invalid':
        print('  %-55s -> InvalidSpec: %s' % (label, val.msg))
    else:
        print('  %-55s -> CRASH %s: %s' % (label, type(val).__name__, str(val)[:100]))


bad = 0
for kw in ('namespace', 'alias', 'error', 'doc'):
    res = compile_specs("""
namespace n
struct S
    f String
    %s default
        f = "x"
""" % kw)
    show('struct with "%s default / f = ..." block' % kw, res)
    if res[0] == 'accepted':
        print('    examples recorded:', list(res[1].namespaces['n'].data_type_by_name['S'].get_examples()))
        bad += 1

if bad:
    print('VIOLATION: only \'example <label>\' introduces an example; a stray \'namespace x\' / \'alias x\' line inside a type body is a syntax error; observed acceptance.')
    sys.exit(1)
print('no violation observed')
sys.exit(0)
