#!/usr/bin/env python
"""INVALID spec accepted: arguments of built-in annotations are not type-checked.

Run: PYTHONPATH=/repo /venv/bin/python find_14.py
Exits 1 when the violation of property C01 is observed, 0 otherwise.
"""
import sys
import textwrap
from stone.frontend.frontend import specs_to_ir
from stone.frontend.exception import InvalidSpec


def compile_specs(*texts):
    """Returns ('accepted', api) | ('invalid', exc) | ('crash', exc)."""
    specs = [('f%d.stone' % i, textwrap.dedent(t).lstrip('\n'))
             for i, t in enumerate(texts)]
    try:
        return 'accepted', specs_to_ir(specs)
    except InvalidSpec as e:
        return 'invalid', e
    except BaseException as e:  # noqa
        return 'crash', e


def show(label, res):
    kind, val = res
    if kind == 'accepted':
        print('  %-55s -> ACCEPTED' % label)
    elif kind == 'invalid':
        print('  %-55s -> InvalidSpec: %s' % (label, val.msg))
    else:
        print('  %-55s -> CRASH %s: %s' % (label, type(val).__name__, str(val)[:100]))


bad = 0
res = compile_specs("""
namespace n
annotation O = Omitted(5)
annotation R = RedactedBlot(true)
annotation H = RedactedHash("(unbalanced")
struct S
    f String
        @O
    g String
        @R
    h String
        @H
""")
show('Omitted(5), RedactedBlot(true), RedactedHash("(unbalanced")', res)
show('control: String(pattern="(unbalanced")', compile_specs("""
namespace n
struct S
    f String(pattern="(unbalanced")
"""))
if res[0] == 'accepted':
    bad += 1

if bad:
    print('VIOLATION: Omitted takes a caller-permission string, Redacted* an optional regular-expression string; observed integers, booleans and uncompilable regexes accepted.')
    sys.exit(1)
print('no violation observed')
sys.exit(0)
