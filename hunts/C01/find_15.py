#!/usr/bin/env python
"""INVALID spec accepted: the redactor placement rules are bypassed by nesting in Nullable/List/alias.

Run: PYTHONPATH=/repo /venv/bin/python find_15.py
Exits 1 when the violation of property C01 is observed, 0 otherwise.
"""
import sys
import textwrap
from stone.frontend.frontend import specs_to_ir
from stone.frontend.exception import InvalidSpec


def compile_specs(*texts):
    """Returns ('accepted', api) | ('invalid', exc) | ('crash', exc)."""
    specs = [('f%d.stone' % i, textwrap.dedent(t).lstrip('\n'))
             for i, t in enumerate(texts)]
    try:
        return 'accepted', specs_to_ir(specs)
    except InvalidSpec as e:
        return 'invalid', e
    except BaseException as e:  # noqa
        return 'crash', e


def show(label, res):
    kind, val = res
    if kind == 'accepted':
        print('  %-55s -> ACCEPTED' % label)
    elif kind == 'invalid':
        print('  %-55s -> InvalidSpec: %s' % (label, val.msg))
    else:
        print('  %-55s -> CRASH %s: %s' % (label, type(val).__name__, str(val)[:100]))


bad = 0
show('control: redactor on field typed by alias', compile_specs("""
namespace n
annotation R = RedactedBlot("x")
alias AS = String
struct T
    g AS
        @R
"""))
res = compile_specs("""
namespace n
annotation R = RedactedBlot("x")
alias AS = String
struct T
    g AS?
        @R
""")
show('redactor on field typed by NULLABLE alias reference', res)
if res[0] == 'accepted':
    bad += 1
show('control: redactor on List(struct)', compile_specs("""
namespace n
annotation R = RedactedBlot("x")
struct S
    f String
struct T
    g List(S)
        @R
"""))
res = compile_specs("""
namespace n
annotation R = RedactedBlot("x")
struct S
    f String
alias AS = S
struct T
    g List(AS)
        @R
""")
show('redactor on List(alias of struct)', res)
if res[0] == 'accepted':
    bad += 1
res = compile_specs("""
namespace n
annotation R = RedactedBlot("x")
alias AS = String
    @R
struct T
    g List(AS)
        @R
""")
show('redactor on List(alias that already has a redactor)', res)
if res[0] == 'accepted':
    bad += 1

if bad:
    print('VIOLATION: \'Redactors can only be applied to alias definitions, not to alias references\', "can\'t be applied to user-defined types" and \'already defined\' must hold in every position; observed acceptance.')
    sys.exit(1)
print('no violation observed')
sys.exit(0)
