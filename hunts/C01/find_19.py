#!/usr/bin/env python
"""INVALID spec accepted (?): a subtype's field has the same name as the type tag of its parent's enumeration.

Run: PYTHONPATH=/repo /venv/bin/python find_19.py
Exits 1 when the violation of property C01 is observed, 0 otherwise.
"""
import sys
import textwrap
from stone.frontend.frontend import specs_to_ir
from stone.frontend.exception import InvalidSpec


def compile_specs(*texts):
    """Returns ('accepted', api) | ('invalid', exc) | ('crash', exc)."""
    specs = [('f%d.stone' % i, textwrap.dedent(t).lstrip('\n'))
             for i, t in enumerate(texts)]
    try:
        return 'accepted', specs_to_ir(specs)
    except InvalidSpec as e:
        return 'invalid', e
    except BaseException as e:  # noqa
        return 'crash', e


def show(label, res):
    kind, val = res
    if kind == 'accepted':
        print('  %-55s -> ACCEPTED' % label)
    elif kind == 'invalid':
        print('  %-55s -> InvalidSpec: %s' % (label, val.msg))
    else:
        print('  %-55s -> CRASH %s: %s' % (label, type(val).__name__, str(val)[:100]))


bad = 0
show('control: tag equals a field of the enumerating struct itself', compile_specs("""
namespace n
struct Base
    union
        file File
    file String
struct File extends Base
    x String
"""))
res = compile_specs("""
namespace n
struct Base
    union
        file File
    path String
struct File extends Base
    file String
""")
show('tag "file" of Base vs field "file" of subtype File', res)
if res[0] == 'accepted':
    bad += 1

if bad:
    print('VIOLATION: lang_ref: \'type tags cannot match any field names\' and C01: no clashing fields or tags along an inheritance chain; observed acceptance (tags join Base._fields_by_name only after File was checked).')
    sys.exit(1)
print('no violation observed')
sys.exit(0)
