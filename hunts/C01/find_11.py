#!/usr/bin/env python
"""INVALID spec not reported as a spec error: example references that form a cycle crash with RecursionError.

Run: PYTHONPATH=/repo /venv/bin/python find_11.py
Exits 1 when the violation of property C01 is observed, 0 otherwise.
"""
import sys
import textwrap
from stone.frontend.frontend import specs_to_ir
from stone.frontend.exception import InvalidSpec


def compile_specs(*texts):
    """Returns ('accepted', api) | ('invalid', exc) | ('crash', exc)."""
    specs = [('f%d.stone' % i, textwrap.dedent(t).lstrip('\n'))
             for i, t in enumerate(texts)]
    try:
        return 'accepted', specs_to_ir(specs)
    except InvalidSpec as e:
        return 'invalid', e
    except BaseException as e:  # noqa
        return 'crash', e


def show(label, res):
    kind, val = res
    if kind == 'accepted':
        print('  %-55s -> ACCEPTED' % label)
    elif kind == 'invalid':
        print('  %-55s -> InvalidSpec: %s' % (label, val.msg))
    else:
        print('  %-55s -> CRASH %s: %s' % (label, type(val).__name__, str(val)[:100]))


bad = 0
res = compile_specs("""
namespace n
struct Node
    next Node?
    example default
        next = default
""")
show('self-referential example', res)
if res[0] == 'crash':
    bad += 1
res = compile_specs("""
namespace n
struct A
    b B?
    example default
        b = default
struct B
    a A?
    example default
        a = default
""")
show('mutually referential examples', res)
if res[0] == 'crash':
    bad += 1

if bad:
    print('VIOLATION: an example that can never be expanded must be reported as InvalidSpec; observed an uncaught RecursionError (stone.cli dies with a traceback).')
    sys.exit(1)
print('no violation observed')
sys.exit(0)
