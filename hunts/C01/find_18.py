#!/usr/bin/env python
"""VALID spec refused: :link: doc reference whose title is a single character.

Run: PYTHONPATH=/repo /venv/bin/python find_18.py
Exits 1 when the violation of property C01 is observed, 0 otherwise.
"""
import sys
import textwrap
from stone.frontend.frontend import specs_to_ir
from stone.frontend.exception import InvalidSpec


def compile_specs(*texts):
    """Returns ('accepted', api) | ('invalid', exc) | ('crash', exc)."""
    specs = [('f%d.stone' % i, textwrap.dedent(t).lstrip('\n'))
             for i, t in enumerate(texts)]
    try:
        return 'accepted', specs_to_ir(specs)
    except InvalidSpec as e:
        return 'invalid', e
    except BaseException as e:  # noqa
        return 'crash', e


def show(label, res):
    kind, val = res
    if kind == 'accepted':
        print('  %-55s -> ACCEPTED' % label)
    elif kind == 'invalid':
        print('  %-55s -> InvalidSpec: %s' % (label, val.msg))
    else:
        print('  %-55s -> CRASH %s: %s' % (label, type(val).__name__, str(val)[:100]))


bad = 0
show('control: :link:`ab http://x.y`', compile_specs("""
namespace n
struct S
    "see :link:`ab http://x.y`"
    f String
"""))
res = compile_specs("""
namespace n
struct S
    "see :link:`a http://x.y`"
    f String
""")
show(':link:`a http://x.y`', res)
if res[0] == 'invalid':
    bad += 1

if bad:
    print('VIOLATION: lang_ref: value is \'<title...> <uri>\', everything after the last space is the URI - \'a http://x.y\' has both; observed \'Bad doc reference to link\'.')
    sys.exit(1)
print('no violation observed')
sys.exit(0)
