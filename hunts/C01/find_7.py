#!/usr/bin/env python
"""INVALID spec accepted: a union member with a default value (the default is silently discarded).

Run: PYTHONPATH=/repo /venv/bin/python find_7.py
Exits 1 when the violation of property C01 is observed, 0 otherwise.
"""
import sys
import textwrap
from stone.frontend.frontend import specs_to_ir
from stone.frontend.exception import InvalidSpec


def compile_specs(*texts):
    """Returns ('accepted', api) | ('invalid', exc) | ('crash', exc)."""
    specs = [('f%d.stone' % i, textwrap.dedent(t).lstrip('\n'))
             for i, t in enumerate(texts)]
    try:
        return 'accepted', specs_to_ir(specs)
    except InvalidSpec as e:
        return 'invalid', e
    except BaseException as e:  # noqa
        return 'crash', e


def show(label, res):
    kind, val = res
    if kind == 'accepted':
        print('  %-55s -> ACCEPTED' % label)
    elif kind == 'invalid':
        print('  %-55s -> InvalidSpec: %s' % (label, val.msg))
    else:
        print('  %-55s -> CRASH %s: %s' % (label, type(val).__name__, str(val)[:100]))


bad = 0
res = compile_specs("""
namespace n
union U
    a String = "x"
    b Int32 = "not even an int"
    c
""")
show('union U: a String = "x"; b Int32 = "not even an int"', res)
if res[0] == 'accepted':
    bad += 1

if bad:
    print('VIOLATION: defaults exist only for struct fields (grammar: Tag ::= Identifier TypeRef ...); observed the union is accepted and the (ill-typed) default ignored.')
    sys.exit(1)
print('no violation observed')
sys.exit(0)
