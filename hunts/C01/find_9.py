#!/usr/bin/env python
"""INVALID indentation accepted: the indentation of the first line of a file is never checked (and tabs are skipped).

Run: PYTHONPATH=/repo /venv/bin/python find_9.py
Exits 1 when the violation of property C01 is observed, 0 otherwise.
"""
import sys
import textwrap
from stone.frontend.frontend import specs_to_ir
from stone.frontend.exception import InvalidSpec


def compile_specs(*texts):
    """Returns ('accepted', api) | ('invalid', exc) | ('crash', exc)."""
    specs = [('f%d.stone' % i, textwrap.dedent(t).lstrip('\n'))
             for i, t in enumerate(texts)]
    try:
        return 'accepted', specs_to_ir(specs)
    except InvalidSpec as e:
        return 'invalid', e
    except BaseException as e:  # noqa
        return 'crash', e


def show(label, res):
    kind, val = res
    if kind == 'accepted':
        print('  %-55s -> ACCEPTED' % label)
    elif kind == 'invalid':
        print('  %-55s -> InvalidSpec: %s' % (label, val.msg))
    else:
        print('  %-55s -> CRASH %s: %s' % (label, type(val).__name__, str(val)[:100]))


bad = 0
def raw(text):
    try:
        return 'accepted', specs_to_ir([('f.stone', text)])
    except InvalidSpec as e:
        return 'invalid', e
show('control: second definition indented by 2', raw("namespace n\n  struct S\n    f String\n"))
for label, text in [
    ('first line indented by 2 spaces', "  namespace n\nstruct S\n    f String\n"),
    ('first line indented by 4 spaces', "    namespace n\nstruct S\n    f String\n"),
    ('comment line, then namespace indented by 3', "# c\n   namespace n\nstruct S\n    f String\n"),
    ('field indented with 4 tab characters', "namespace n\nstruct S\n\t\t\t\tf String\n"),
]:
    res = raw(text)
    show(label, res)
    if res[0] == 'accepted':
        bad += 1

if bad:
    print('VIOLATION: top-level declarations must sit at column 0 and indents are multiples of 4 spaces; observed these files compile.')
    sys.exit(1)
print('no violation observed')
sys.exit(0)
