#!/usr/bin/env python
"""INVALID spec accepted: a struct field / union member typed by an ALIAS of Void.

Run: PYTHONPATH=/repo /venv/bin/python find_5.py
Exits 1 when the violation of property C01 is observed, 0 otherwise.
"""
import sys
import textwrap
from stone.frontend.frontend import specs_to_ir
from stone.frontend.exception import InvalidSpec


def compile_specs(*texts):
    """Returns ('accepted', api) | ('invalid', exc) | ('crash', exc)."""
    specs = [('f%d.stone' % i, textwrap.dedent(t).lstrip('\n'))
             for i, t in enumerate(texts)]
    try:
        return 'accepted', specs_to_ir(specs)
    except InvalidSpec as e:
        return 'invalid', e
    except BaseException as e:  # noqa
        return 'crash', e


def show(label, res):
    kind, val = res
    if kind == 'accepted':
        print('  %-55s -> ACCEPTED' % label)
    elif kind == 'invalid':
        print('  %-55s -> InvalidSpec: %s' % (label, val.msg))
    else:
        print('  %-55s -> CRASH %s: %s' % (label, type(val).__name__, str(val)[:100]))


bad = 0
show('control: struct field "f Void"', compile_specs("""
namespace n
struct S
    f Void
"""))
show('control: union member "a Void"', compile_specs("""
namespace n
union U
    a Void
"""))
res = compile_specs("""
namespace n
alias V = Void
struct S
    f V
""")
show('alias V = Void; struct field "f V"', res)
if res[0] == 'accepted':
    bad += 1
res = compile_specs("""
namespace n
import m
struct S
    f m.V2
union U
    a m.V2
""", """
namespace m
alias V = Void
alias V2 = V
""")
show('alias chain in other namespace, struct field + union member', res)
if res[0] == 'accepted':
    bad += 1

if bad:
    print('VIOLATION: \'Struct field cannot have a Void type\' / \'Union member cannot have Void type explicit\' must also hold through aliases; observed acceptance.')
    sys.exit(1)
print('no violation observed')
sys.exit(0)
