#!/usr/bin/env python
"""VALID spec refused (?): a Map whose key type is an alias of String.

Run: PYTHONPATH=/repo /venv/bin/python find_20.py
Exits 1 when the violation of property C01 is observed, 0 otherwise.
"""
import sys
import textwrap
from stone.frontend.frontend import specs_to_ir
from stone.frontend.exception import InvalidSpec


def compile_specs(*texts):
    """Returns ('accepted', api) | ('invalid', exc) | ('crash', exc)."""
    specs = [('f%d.stone' % i, textwrap.dedent(t).lstrip('\n'))
             for i, t in enumerate(texts)]
    try:
        return 'accepted', specs_to_ir(specs)
    except InvalidSpec as e:
        return 'invalid', e
    except BaseException as e:  # noqa
        return 'crash', e


def show(label, res):
    kind, val = res
    if kind == 'accepted':
        print('  %-55s -> ACCEPTED' % label)
    elif kind == 'invalid':
        print('  %-55s -> InvalidSpec: %s' % (label, val.msg))
    else:
        print('  %-55s -> CRASH %s: %s' % (label, type(val).__name__, str(val)[:100]))


bad = 0
show('control: Map(String(min_length=1), Int32)', compile_specs("""
namespace n
struct S
    m Map(String(min_length=1), Int32)
"""))
res = compile_specs("""
namespace n
alias Key = String(min_length=1)
struct S
    m Map(Key, Int32)
""")
show('alias Key = String(min_length=1); Map(Key, Int32)', res)
if res[0] == 'invalid':
    bad += 1

if bad:
    print('VIOLATION: an alias is just a name for a parameterized type, so Map(Key, ...) has a String key; observed \'Only String primitives are supported as key types\'.')
    sys.exit(1)
print('no violation observed')
sys.exit(0)
