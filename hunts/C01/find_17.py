#!/usr/bin/env python
"""INVALID spec accepted: two different routes whose names clash canonically (get_x / getX).

Run: PYTHONPATH=/repo /venv/bin/python find_17.py
Exits 1 when the violation of property C01 is observed, 0 otherwise.
"""
import sys
import textwrap
from stone.frontend.frontend import specs_to_ir
from stone.frontend.exception import InvalidSpec


def compile_specs(*texts):
    """Returns ('accepted', api) | ('invalid', exc) | ('crash', exc)."""
    specs = [('f%d.stone' % i, textwrap.dedent(t).lstrip('\n'))
             for i, t in enumerate(texts)]
    try:
        return 'accepted', specs_to_ir(specs)
    except InvalidSpec as e:
        return 'invalid', e
    except BaseException as e:  # noqa
        return 'crash', e


def show(label, res):
    kind, val = res
    if kind == 'accepted':
        print('  %-55s -> ACCEPTED' % label)
    elif kind == 'invalid':
        print('  %-55s -> InvalidSpec: %s' % (label, val.msg))
    else:
        print('  %-55s -> CRASH %s: %s' % (label, type(val).__name__, str(val)[:100]))


bad = 0
show('control: struct get_x + route getX', compile_specs("""
namespace n
struct get_x
    f String
route getX(Void, Void, Void)
"""))
res = compile_specs("""
namespace n
route get_x(Void, Void, Void)
route getX(Void, Void, Void)
""")
show('route get_x + route getX', res)
if res[0] == 'accepted':
    bad += 1

if bad:
    print('VIOLATION: the compiler rejects definitions whose names differ only by case/underscores (they map to one identifier in the backends); the check is skipped for every route/route pair, not just for versions of one route.')
    sys.exit(1)
print('no violation observed')
sys.exit(0)
