#!/usr/bin/env python
"""INVALID spec accepted: a patch of a type that does not exist is applied to a different type with the same 'canonical' name, even one in another namespace.

Run: PYTHONPATH=/repo /venv/bin/python find_3.py
Exits 1 when the violation of property C01 is observed, 0 otherwise.
"""
import sys
import textwrap
from stone.frontend.frontend import specs_to_ir
from stone.frontend.exception import InvalidSpec


def compile_specs(*texts):
    """Returns ('accepted', api) | ('invalid', exc) | ('crash', exc)."""
    specs = [('f%d.stone' % i, textwrap.dedent(t).lstrip('\n'))
             for i, t in enumerate(texts)]
    try:
        return 'accepted', specs_to_ir(specs)
    except InvalidSpec as e:
        return 'invalid', e
    except BaseException as e:  # noqa
        return 'crash', e


def show(label, res):
    kind, val = res
    if kind == 'accepted':
        print('  %-55s -> ACCEPTED' % label)
    elif kind == 'invalid':
        print('  %-55s -> InvalidSpec: %s' % (label, val.msg))
    else:
        print('  %-55s -> CRASH %s: %s' % (label, type(val).__name__, str(val)[:100]))


bad = 0
res = compile_specs("""
namespace n
struct S_T
    a String
""", """
namespace n
patch struct ST
    injected Int32?
""")
show("patch struct ST (no such type; only S_T exists)", res)
if res[0] == 'accepted':
    print('  S_T fields now:', [f.name for f in res[1].namespaces['n'].data_type_by_name['S_T'].fields])
    bad += 1
res = compile_specs("""
namespace bc
struct A
    a String
""", """
namespace c
patch struct Ab
    injected Int32?
""")
show("namespace c: patch struct Ab (c has no types at all)", res)
if res[0] == 'accepted':
    print('  bc.A fields now:', [f.name for f in res[1].namespaces['bc'].data_type_by_name['A'].fields])
    bad += 1

if bad:
    print('VIOLATION: lang_ref: \'Only data types that have been fully-defined elsewhere can be patched\' -> must be a spec error; observed the patch silently lands on another type.')
    sys.exit(1)
print('no violation observed')
sys.exit(0)
