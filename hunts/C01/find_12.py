#!/usr/bin/env python
"""VALID spec refused: bogus 'circular import' when the imported namespace defines a symbol named like the importing namespace.

Run: PYTHONPATH=/repo /venv/bin/python find_12.py
Exits 1 when the violation of property C01 is observed, 0 otherwise.
"""
import sys
import textwrap
from stone.frontend.frontend import specs_to_ir
from stone.frontend.exception import InvalidSpec


def compile_specs(*texts):
    """Returns ('accepted', api) | ('invalid', exc) | ('crash', exc)."""
    specs = [('f%d.stone' % i, textwrap.dedent(t).lstrip('\n'))
             for i, t in enumerate(texts)]
    try:
        return 'accepted', specs_to_ir(specs)
    except InvalidSpec as e:
        return 'invalid', e
    except BaseException as e:  # noqa
        return 'crash', e


def show(label, res):
    kind, val = res
    if kind == 'accepted':
        print('  %-55s -> ACCEPTED' % label)
    elif kind == 'invalid':
        print('  %-55s -> InvalidSpec: %s' % (label, val.msg))
    else:
        print('  %-55s -> CRASH %s: %s' % (label, type(val).__name__, str(val)[:100]))


bad = 0
res = compile_specs("""
namespace users
import common
struct U
    f common.users
""", """
namespace common
alias users = List(String)
""")
show('namespace users imports common; common has alias "users"', res)
if res[0] == 'invalid' and 'Circular import' in res[1].msg:
    bad += 1
res = compile_specs("""
namespace users
import common
struct U
    f String
""", """
namespace common
route users(Void, Void, Void)
""")
show('namespace users imports common; common has route "users"', res)
if res[0] == 'invalid' and 'Circular import' in res[1].msg:
    bad += 1

if bad:
    print('VIOLATION: there is a single import (users -> common), nothing circular, no name is declared twice in one namespace -> must be accepted.')
    sys.exit(1)
print('no violation observed')
sys.exit(0)
