#!/usr/bin/env python
"""INVALID spec accepted: doc references are not validated in alias docs, namespace docs, annotation_type docs / parameter docs and example docs.

Run: PYTHONPATH=/repo /venv/bin/python find_4.py
Exits 1 when the violation of property C01 is observed, 0 otherwise.
"""
import sys
import textwrap
from stone.frontend.frontend import specs_to_ir
from stone.frontend.exception import InvalidSpec


def compile_specs(*texts):
    """Returns ('accepted', api) | ('invalid', exc) | ('crash', exc)."""
    specs = [('f%d.stone' % i, textwrap.dedent(t).lstrip('\n'))
             for i, t in enumerate(texts)]
    try:
        return 'accepted', specs_to_ir(specs)
    except InvalidSpec as e:
        return 'invalid', e
    except BaseException as e:  # noqa
        return 'crash', e


def show(label, res):
    kind, val = res
    if kind == 'accepted':
        print('  %-55s -> ACCEPTED' % label)
    elif kind == 'invalid':
        print('  %-55s -> InvalidSpec: %s' % (label, val.msg))
    else:
        print('  %-55s -> CRASH %s: %s' % (label, type(val).__name__, str(val)[:100]))


bad = 0
ctl = compile_specs("""
namespace n
struct S
    "see :type:`Nope`"
    a String
""")
show('control: struct doc with :type:`Nope`', ctl)
cases = {
 'alias doc': """
namespace n
alias A = String
    "see :type:`Nope`, :bogus:`x`, :field:`Nope.f`, :route:`nope:x`"
""",
 'namespace doc': """
namespace n
    "see :type:`Nope` and :val:`not-a-value`"
struct S
    a String
""",
 'annotation_type doc + param doc': """
namespace n
annotation_type T
    "see :type:`Nope`"
    p String
        "see :field:`Nope.x`"
""",
 'example doc': """
namespace n
struct S
    a String
    example default
        "see :route:`nope`"
        a = "x"
""",
}
for label, text in cases.items():
    res = compile_specs(text)
    show(label, res)
    if res[0] == 'accepted' and ctl[0] == 'invalid':
        bad += 1

if bad:
    print('VIOLATION: a malformed / unresolvable doc reference anywhere must be a spec error; observed it is only checked in docs of structs, unions, their fields and routes.')
    sys.exit(1)
print('no violation observed')
sys.exit(0)
