#!/usr/bin/env python
"""VALID spec refused: an example may not omit a field whose type is an alias of a nullable type.

Run: PYTHONPATH=/repo /venv/bin/python find_10.py
Exits 1 when the violation of property C01 is observed, 0 otherwise.
"""
import sys
import textwrap
from stone.frontend.frontend import specs_to_ir
from stone.frontend.exception import InvalidSpec


def compile_specs(*texts):
    """Returns ('accepted', api) | ('invalid', exc) | ('crash', exc)."""
    specs = [('f%d.stone' % i, textwrap.dedent(t).lstrip('\n'))
             for i, t in enumerate(texts)]
    try:
        return 'accepted', specs_to_ir(specs)
    except InvalidSpec as e:
        return 'invalid', e
    except BaseException as e:  # noqa
        return 'crash', e


def show(label, res):
    kind, val = res
    if kind == 'accepted':
        print('  %-55s -> ACCEPTED' % label)
    elif kind == 'invalid':
        print('  %-55s -> InvalidSpec: %s' % (label, val.msg))
    else:
        print('  %-55s -> CRASH %s: %s' % (label, type(val).__name__, str(val)[:100]))


bad = 0
show('control: "f String?" omitted from example', compile_specs("""
namespace n
struct S
    f String?
    example default
"""))
res = compile_specs("""
namespace n
alias A = String?
struct S
    f A
    example default
""")
show('alias A = String?; "f A" omitted from example', res)
if res[0] == 'invalid':
    bad += 1

if bad:
    print('VIOLATION: lang_ref: only required fields (not nullable, no default) must be given in an example; observed \'Missing field\' for a nullable field reached through an alias.')
    sys.exit(1)
print('no violation observed')
sys.exit(0)
