#!/usr/bin/env python
"""VALID spec refused: canonical names of types in DIFFERENT namespaces collide.

Run: PYTHONPATH=/repo /venv/bin/python find_1.py
Exits 1 when the violation of property C01 is observed, 0 otherwise.
"""
import sys
import textwrap
from stone.frontend.frontend import specs_to_ir
from stone.frontend.exception import InvalidSpec


def compile_specs(*texts):
    """Returns ('accepted', api) | ('invalid', exc) | ('crash', exc)."""
    specs = [('f%d.stone' % i, textwrap.dedent(t).lstrip('\n'))
             for i, t in enumerate(texts)]
    try:
        return 'accepted', specs_to_ir(specs)
    except InvalidSpec as e:
        return 'invalid', e
    except BaseException as e:  # noqa
        return 'crash', e


def show(label, res):
    kind, val = res
    if kind == 'accepted':
        print('  %-55s -> ACCEPTED' % label)
    elif kind == 'invalid':
        print('  %-55s -> InvalidSpec: %s' % (label, val.msg))
    else:
        print('  %-55s -> CRASH %s: %s' % (label, type(val).__name__, str(val)[:100]))


bad = 0
print('Two namespaces, no shared names: struct X in namespace team_log, struct XTeam in namespace log.')
res = compile_specs("""
namespace team_log
struct X
    f String
""", """
namespace log
struct XTeam
    g String
""")
show('team_log.X + log.XTeam', res)
if res[0] != 'accepted':
    bad += 1
res = compile_specs("""
namespace bc
struct A
    f String
""", """
namespace c
struct Ab
    g String
""")
show('bc.A + c.Ab', res)
if res[0] != 'accepted':
    bad += 1

if bad:
    print('VIOLATION: the spec breaks no rule (names live in different namespaces) so it must be accepted; observed a bogus name conflict.')
    sys.exit(1)
print('no violation observed')
sys.exit(0)
