#!/usr/bin/env python
"""INVALID spec accepted: when a type is patched twice, every patch but the last is silently dropped.

Run: PYTHONPATH=/repo /venv/bin/python find_2.py
Exits 1 when the violation of property C01 is observed, 0 otherwise.
"""
import sys
import textwrap
from stone.frontend.frontend import specs_to_ir
from stone.frontend.exception import InvalidSpec


def compile_specs(*texts):
    """Returns ('accepted', api) | ('invalid', exc) | ('crash', exc)."""
    specs = [('f%d.stone' % i, textwrap.dedent(t).lstrip('\n'))
             for i, t in enumerate(texts)]
    try:
        return 'accepted', specs_to_ir(specs)
    except InvalidSpec as e:
        return 'invalid', e
    except BaseException as e:  # noqa
        return 'crash', e


def show(label, res):
    kind, val = res
    if kind == 'accepted':
        print('  %-55s -> ACCEPTED' % label)
    elif kind == 'invalid':
        print('  %-55s -> InvalidSpec: %s' % (label, val.msg))
    else:
        print('  %-55s -> CRASH %s: %s' % (label, type(val).__name__, str(val)[:100]))


bad = 0
BASE = """
namespace n
struct S
    a String
"""
P_BAD = """
namespace n
patch struct S
    b ThisTypeDoesNotExist
    a Int32
"""
P_OK = """
namespace n
patch struct S
    c String?
"""
print('Patch 1 references an undefined type and re-declares existing field a; patch 2 is fine.')
res = compile_specs(BASE, P_BAD, P_OK)
show('base + bad patch + good patch', res)
ctl = compile_specs(BASE, P_BAD)
show('control: base + bad patch only', ctl)
if res[0] == 'accepted' and ctl[0] == 'invalid':
    bad += 1
res2 = compile_specs(BASE, """
namespace n
patch struct S
    b String?
""", P_OK)
show('base + two good patches', res2)
if res2[0] == 'accepted':
    names = [f.name for f in res2[1].namespaces['n'].data_type_by_name['S'].fields]
    print('  fields of S after two valid patches:', names, "(expected ['a', 'b', 'c'])")
    if names != ['a', 'b', 'c']:
        bad += 1

if bad:
    print('VIOLATION: a violation inside any patch must be reported (and a valid patch must not vanish); observed that only the last patch of a type is looked at.')
    sys.exit(1)
print('no violation observed')
sys.exit(0)
