"""C15 finding 3: every python_types module defines a public module attribute
ROUTES (dict: 'name[:version]' -> bb.Route object); the stub never declares it."""
import ast, importlib, os, sys, tempfile, textwrap
from stone.frontend.frontend import specs_to_ir
from stone.backends.python_types import PythonTypesBackend
from stone.backends.python_type_stubs import PythonTypeStubsBackend

SPECS = [('na.stone', """
    namespace na
    struct Arg
        f String
    route get_thing(Arg, Void, Void)
    route get_thing:2(Arg, Void, Void)
""")]
specs = [(n, textwrap.dedent(t)) for n, t in SPECS]
root = tempfile.mkdtemp(); pkg = 'f3pkg'; out = os.path.join(root, pkg); os.makedirs(out)
PythonTypesBackend(out, ['-p', pkg]).generate(specs_to_ir(specs))
PythonTypeStubsBackend(out, ['-p', pkg]).generate(specs_to_ir(specs))
sys.path.insert(0, root)

na = importlib.import_module(pkg + '.na')
import inspect
runtime = {n for n, v in vars(na).items()
           if not n.startswith('_') and not inspect.ismodule(v) and n != 'unicode_literals'}

tree = ast.parse(open(os.path.join(out, 'na.pyi')).read())
stub = set()
for node in tree.body:
    if isinstance(node, ast.ClassDef):
        stub.add(node.name)
    elif isinstance(node, ast.AnnAssign):
        stub.add(node.target.id)
    elif isinstance(node, ast.Assign):
        stub.update(t.id for t in node.targets)
stub -= {'T', 'U'}  # stub-private type variables

print('runtime public names:', sorted(runtime))
print('stub declared names :', sorted(stub))
print('runtime ROUTES      :', na.ROUTES)
missing = runtime - stub
if missing:
    print('OBSERVED: runtime module defines %s, stub does not declare it' % sorted(missing))
    print('EXPECTED: stub declares exactly the route objects (and other public names) the '
          'runtime module defines, e.g. `ROUTES: Dict[Text, bb.Route] = ...`')
    sys.exit(1)
sys.exit(0)
