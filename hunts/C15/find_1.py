"""C15 finding 1: a struct that extends a struct of another namespace re-declares the
inherited fields in its stub; when an inherited field's type lives in a THIRD namespace,
the stub uses `<third_ns>.<Type>` without importing that namespace."""
import ast, builtins, importlib, os, sys, tempfile, textwrap
from stone.frontend.frontend import specs_to_ir
from stone.backends.python_types import PythonTypesBackend
from stone.backends.python_type_stubs import PythonTypeStubsBackend

SPECS = [
    ('nc.stone', """
        namespace nc
        struct Leaf
            x String
    """),
    ('na.stone', """
        namespace na
        import nc
        struct Base
            leaf nc.Leaf
    """),
    ('nb.stone', """
        namespace nb
        import na
        struct Child extends na.Base
            n Int32
    """),
]
specs = [(n, textwrap.dedent(t)) for n, t in SPECS]
root = tempfile.mkdtemp(); pkg = 'f1pkg'; out = os.path.join(root, pkg); os.makedirs(out)
PythonTypesBackend(out, ['-p', pkg]).generate(specs_to_ir(specs))
PythonTypeStubsBackend(out, ['-p', pkg]).generate(specs_to_ir(specs))
sys.path.insert(0, root)

# runtime is fine
nb = importlib.import_module(pkg + '.nb')
nc = importlib.import_module(pkg + '.nc')
c = nb.Child(leaf=nc.Leaf(x='a'), n=1)
print('runtime: nb.Child(leaf=nc.Leaf(...), n=1) works ->', c)

src = open(os.path.join(out, 'nb.pyi')).read()
tree = ast.parse(src)
bound = set()
for node in tree.body:
    if isinstance(node, ast.Import):
        bound.update((a.asname or a.name).split('.')[0] for a in node.names)
    elif isinstance(node, ast.ImportFrom):
        bound.update(a.asname or a.name for a in node.names)
    elif isinstance(node, ast.ClassDef):
        bound.add(node.name)
    elif isinstance(node, (ast.Assign, ast.AnnAssign)):
        for t in (node.targets if isinstance(node, ast.Assign) else [node.target]):
            if isinstance(t, ast.Name):
                bound.add(t.id)

bad = []
for cls in [n for n in tree.body if isinstance(n, ast.ClassDef)]:
    for sub in cls.body:
        anns = []
        if isinstance(sub, ast.AnnAssign):
            anns.append(('%s.%s' % (cls.name, ast.unparse(sub.target)), sub.annotation))
        elif isinstance(sub, ast.FunctionDef):
            for a in sub.args.args:
                if a.annotation is not None:
                    anns.append(('%s.%s(%s)' % (cls.name, sub.name, a.arg), a.annotation))
        for where, ann in anns:
            for n in ast.walk(ann):
                if isinstance(n, ast.Name) and n.id not in bound and not hasattr(builtins, n.id):
                    bad.append((where, n.id, ast.unparse(ann)))

print('nb.pyi import lines:', [l for l in src.splitlines() if l.startswith(('from', 'import'))])
for where, name, ann in bad:
    print('OBSERVED: nb.pyi annotation of %s is %r but name %r is neither imported nor defined' % (where, ann, name))
print('EXPECTED: every name used in an annotation is imported or defined in the stub '
      '(nb.pyi should import nc, or not re-declare inherited fields)')
sys.exit(1 if bad else 0)
