"""C15 finding 8: union helpers are derived from tag names (is_<tag>, get_<tag>, <tag>), and a
void tag is itself a class attribute <tag>.  A void tag called `get_size` / `is_size` next to
a tag `size` makes both backends emit two members of the same name.  At runtime the void-tag
object, assigned after the class body, wins; in the stub the method, emitted after the class
variable, wins.  So the stub declares a method where the runtime has a union instance, and
the helper the stub promises does not exist."""
import ast, importlib, os, sys, tempfile, textwrap
from stone.frontend.frontend import specs_to_ir
from stone.backends.python_types import PythonTypesBackend
from stone.backends.python_type_stubs import PythonTypeStubsBackend

SPECS = [('na.stone', """
    namespace na
    union Probe
        size UInt64
        get_size
            "Ask the server for the size."
        is_size
""")]
specs = [(n, textwrap.dedent(t)) for n, t in SPECS]
root = tempfile.mkdtemp(); pkg = 'f8pkg'; out = os.path.join(root, pkg); os.makedirs(out)
PythonTypesBackend(out, ['-p', pkg]).generate(specs_to_ir(specs))
PythonTypeStubsBackend(out, ['-p', pkg]).generate(specs_to_ir(specs))
sys.path.insert(0, root)
na = importlib.import_module(pkg + '.na')

tree = ast.parse(open(os.path.join(out, 'na.pyi')).read())
cls = [n for n in tree.body if isinstance(n, ast.ClassDef) and n.name == 'Probe'][0]
members = {}
for s in cls.body:
    if isinstance(s, ast.AnnAssign):
        members.setdefault(s.target.id, []).append('attribute: ' + ast.unparse(s.annotation))
    elif isinstance(s, ast.FunctionDef):
        members.setdefault(s.name, []).append('method -> ' + ast.unparse(s.returns))
bad = 0
for name in ('get_size', 'is_size'):
    rt = getattr(na.Probe, name)
    print('stub    Probe.%s declarations, in order: %s' % (name, members[name]))
    print('runtime Probe.%s = %r (callable: %s)' % (name, rt, callable(rt)))
    if len(members[name]) > 1 or members[name][-1].startswith('method') != callable(rt):
        bad += 1
try:
    na.Probe.size(3).get_size()
except TypeError as e:
    print('OBSERVED: stub promises `def get_size(self) -> int`, runtime: Probe.size(3).get_size() -> TypeError: %s' % e)
print('EXPECTED: stub declares exactly the tag helpers / void tag attributes the runtime defines, one declaration per name')
sys.exit(1 if bad else 0)
