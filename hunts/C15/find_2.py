"""C15 finding 2: annotation-type classes are declared in the stub with base `object`,
while python_types defines them as subclasses of bb.AnnotationType.  The stub's own
`T = TypeVar('T', bound=bb.AnnotationType)` / `annotation_type: Type[T]` signature of
_process_custom_annotations therefore rejects the very classes it is meant to accept."""
import ast, importlib, os, sys, tempfile, textwrap
from stone.frontend.frontend import specs_to_ir
from stone.backends.python_types import PythonTypesBackend
from stone.backends.python_type_stubs import PythonTypeStubsBackend

SPECS = [('na.stone', """
    namespace na
    annotation_type Importance
        level String = "low"
    annotation High = Importance(level="high")
    struct S
        f String
            @High
""")]
specs = [(n, textwrap.dedent(t)) for n, t in SPECS]
root = tempfile.mkdtemp(); pkg = 'f2pkg'; out = os.path.join(root, pkg); os.makedirs(out)
PythonTypesBackend(out, ['-p', pkg]).generate(specs_to_ir(specs))
PythonTypeStubsBackend(out, ['-p', pkg]).generate(specs_to_ir(specs))
sys.path.insert(0, root)

na = importlib.import_module(pkg + '.na')
from stone.backends.python_rsrc import stone_base as bb
rt_bases = ['bb.' + b.__name__ if b.__module__.endswith('stone_base') else b.__name__
            for b in na.Importance.__bases__]

tree = ast.parse(open(os.path.join(out, 'na.pyi')).read())
cls = [n for n in tree.body if isinstance(n, ast.ClassDef) and n.name == 'Importance'][0]
stub_bases = [ast.unparse(b) for b in cls.bases]
tv = [ast.unparse(n) for n in tree.body if isinstance(n, ast.Assign) and ast.unparse(n.targets[0]) == 'T'][0]

print('runtime : class Importance(%s); issubclass(Importance, bb.AnnotationType) = %s'
      % (', '.join(rt_bases), issubclass(na.Importance, bb.AnnotationType)))
print('stub    : class Importance(%s)' % ', '.join(stub_bases))
print('stub    : %s   (used as `annotation_type: Type[T]` in S._process_custom_annotations)' % tv)
if stub_bases != rt_bases:
    print('OBSERVED: stub base classes %s != runtime base classes %s' % (stub_bases, rt_bases))
    print('EXPECTED: the stub declares exactly the classes the runtime module defines '
          '(Importance must derive from bb.AnnotationType, otherwise it does not satisfy the '
          "stub's own TypeVar bound)")
    sys.exit(1)
sys.exit(0)
