"""C15 finding 4: a user type (or alias of a user type) whose generated name equals a name
the stub itself binds for its annotations (Text, Optional, Dict, Type, Callable, TypeVar,
T, U) rebinds that name inside the .pyi.  Annotations such as `Text` (for String) or
`Optional[...]` then denote the user's class instead of the typing construct.  The runtime
module is unaffected (python_types uses none of these names)."""
import ast, importlib, os, sys, tempfile, textwrap, typing
from stone.frontend.frontend import specs_to_ir
from stone.backends.python_types import PythonTypesBackend
from stone.backends.python_type_stubs import PythonTypeStubsBackend
from stone.backends.python_rsrc import stone_base as bb

SPECS = [('na.stone', """
    namespace na
    struct Text
        "A piece of text"
        body String
        lang String?
    union U
        plain Text
        none
    struct Zed
        title String
""")]
specs = [(n, textwrap.dedent(t)) for n, t in SPECS]
root = tempfile.mkdtemp(); pkg = 'f4pkg'; out = os.path.join(root, pkg); os.makedirs(out)
PythonTypesBackend(out, ['-p', pkg]).generate(specs_to_ir(specs))
PythonTypeStubsBackend(out, ['-p', pkg]).generate(specs_to_ir(specs))
sys.path.insert(0, root)

# runtime works
na = importlib.import_module(pkg + '.na')
t = na.Text(body='hello')
print('runtime: na.Text(body="hello").body ->', repr(t.body), '; U.plain(t) ->', na.U.plain(t))

src = open(os.path.join(out, 'na.pyi')).read()
tree = ast.parse(src)
binds = {}
for node in tree.body:
    if isinstance(node, ast.ImportFrom):
        for a in node.names:
            binds.setdefault(a.asname or a.name, []).append('from %s import %s' % (node.module, a.name))
    elif isinstance(node, ast.ClassDef):
        binds.setdefault(node.name, []).append('class %s(%s)' % (node.name, ', '.join(ast.unparse(b) for b in node.bases)))
    elif isinstance(node, ast.Assign):
        for tg in node.targets:
            binds.setdefault(tg.id, []).append(ast.unparse(node))
dups = {n: h for n, h in binds.items() if len(h) > 1}
for n, h in dups.items():
    print('OBSERVED: na.pyi binds module-level name %r twice: %s' % (n, h))

# Evaluate the stub with Python's own name resolution and look at what the annotations denote.
bb.Attribute.__class_getitem__ = classmethod(lambda cls, item: ('bb.Attribute', item))  # test-only shim
g = {'__name__': 'na_stub'}
exec(compile(src, 'na.pyi', 'exec'), g)
ann = g['Zed'].__annotations__['title']
print('OBSERVED: evaluated annotation of Zed.title (a Stone String) is', ann)
print('OBSERVED: evaluated `processor` annotation of Zed._process_custom_annotations is',
      g['Zed']._process_custom_annotations.__annotations__['processor'])
print('EXPECTED: String fields annotated with typing.Text (= %r), T/U type variables intact; '
      'names used by annotations must not be rebound by generated classes' % typing.Text)
bad = bool(dups) or ann != ('bb.Attribute', typing.Text)
sys.exit(1 if bad else 0)
