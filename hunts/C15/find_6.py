"""C15 finding 6: the stub adds `import datetime` for Timestamp annotations and ALSO
`from <package> import <namespace>` for imported namespaces.  When a Stone namespace is
called `datetime`, a stub that imports it and has a Timestamp field binds `datetime` twice;
`datetime.datetime` then denotes <package>.datetime.datetime (which does not exist), not the
standard library class.  python_types itself never imports the stdlib datetime, so the
runtime module works."""
import ast, datetime as std_datetime, importlib, os, sys, tempfile, textwrap
from stone.frontend.frontend import specs_to_ir
from stone.backends.python_types import PythonTypesBackend
from stone.backends.python_type_stubs import PythonTypeStubsBackend
from stone.backends.python_rsrc import stone_base as bb

SPECS = [
    ('datetime.stone', """
        namespace datetime
        struct Range
            days Int32
    """),
    ('nb.stone', """
        namespace nb
        import datetime
        struct Booking
            start Timestamp("%Y-%m-%d")
            length datetime.Range
    """),
]
specs = [(n, textwrap.dedent(t)) for n, t in SPECS]
root = tempfile.mkdtemp(); pkg = 'f6pkg'; out = os.path.join(root, pkg); os.makedirs(out)
PythonTypesBackend(out, ['-p', pkg]).generate(specs_to_ir(specs))
PythonTypeStubsBackend(out, ['-p', pkg]).generate(specs_to_ir(specs))
sys.path.insert(0, root)

nb = importlib.import_module(pkg + '.nb')
dt = importlib.import_module(pkg + '.datetime')
print('runtime ok:', nb.Booking(start=std_datetime.datetime(2020, 1, 1), length=dt.Range(days=2)))

src = open(os.path.join(out, 'nb.pyi')).read()
tree = ast.parse(src)
binds = []
for node in tree.body:
    if isinstance(node, ast.Import):
        binds += ['import %s' % a.name for a in node.names if a.name == 'datetime']
    elif isinstance(node, ast.ImportFrom):
        binds += ['from %s import %s' % (node.module, a.name) for a in node.names if a.name == 'datetime']
print('OBSERVED: nb.pyi binds the name `datetime` %d times, in this order: %s' % (len(binds), binds))

bb.Attribute.__class_getitem__ = classmethod(lambda cls, item: ('bb.Attribute', item))  # test-only shim
g = {'__name__': 'nb_stub'}
exec(compile('from __future__ import annotations\n' + src, 'nb.pyi', 'exec'), g)
text = g['Booking'].__annotations__['start']
try:
    val = eval(text, g)
except Exception as e:
    val = '%s: %s' % (type(e).__name__, e)
print('OBSERVED: Booking.start is annotated %r which evaluates to -> %s' % (text, val))
print('EXPECTED: the annotation of a Timestamp field denotes the standard library datetime.datetime '
      'and every name used in an annotation is (unambiguously) imported')
sys.exit(1 if len(binds) > 1 or val != ('bb.Attribute', std_datetime.datetime) else 0)
