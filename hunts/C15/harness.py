"""Shared harness: generate python_types + python_type_stubs for specs, import
the runtime modules, parse the stubs, and compare them."""
import ast
import builtins
import importlib
import inspect
import os
import shutil
import sys
import tempfile
import itertools

from stone.frontend.frontend import specs_to_ir
from stone.backends.python_types import PythonTypesBackend
from stone.backends.python_type_stubs import PythonTypeStubsBackend
from stone.backends.python_rsrc import stone_base as bb, stone_validators as bv
from stone.ir import (
    is_alias, is_nullable_type, is_list_type, is_map_type, is_struct_type,
    is_union_type, is_void_type, is_string_type, is_bytes_type,
    is_boolean_type, is_float_type, is_integer_type, is_timestamp_type,
    is_user_defined_type,
)

_counter = itertools.count()


def generate(specs):
    """specs: list of (filename, text). Returns (api, outdir, pkg)."""
    api = specs_to_ir(specs)
    root = tempfile.mkdtemp(prefix='c15_')
    pkg = 'pkg%d' % next(_counter)
    out = os.path.join(root, pkg)
    os.makedirs(out)
    PythonTypesBackend(out, ['-p', pkg]).generate(api)
    # fresh IR for the second backend, to stay independent
    api2 = specs_to_ir(specs)
    PythonTypeStubsBackend(out, ['-p', pkg]).generate(api2)
    sys.path.insert(0, root)
    importlib.invalidate_caches()
    return api, out, pkg


def load(specs):
    api, out, pkg = generate(specs)
    res = {}
    for ns in api.namespaces.values():
        pyi = open(os.path.join(out, ns.name + '.pyi')).read()
        entry = {'ns': ns, 'pyi': pyi, 'tree': None, 'mod': None,
                 'syntax_error': None, 'import_error': None}
        try:
            entry['tree'] = ast.parse(pyi)
            compile(pyi, ns.name + '.pyi', 'exec')
        except SyntaxError as e:
            entry['syntax_error'] = e
        try:
            entry['mod'] = importlib.import_module(pkg + '.' + ns.name)
        except Exception as e:  # noqa
            entry['import_error'] = e
        res[ns.name] = entry
    return api, res, out, pkg


# ---------------------------------------------------------------- expected types
def expected_type(ns, dt):
    """Independent Stone -> PEP 484 mapping."""
    if is_alias(dt):
        return expected_type(ns, dt.data_type)
    if is_nullable_type(dt):
        return 'Optional[%s]' % expected_type(ns, dt.data_type)
    if is_list_type(dt):
        return 'List[%s]' % expected_type(ns, dt.data_type)
    if is_map_type(dt):
        return 'Dict[%s, %s]' % (expected_type(ns, dt.key_data_type),
                                 expected_type(ns, dt.value_data_type))
    if is_string_type(dt):
        return 'Text'
    if is_bytes_type(dt):
        return 'bytes'
    if is_boolean_type(dt):
        return 'bool'
    if is_float_type(dt):
        return 'float'
    if is_integer_type(dt):
        return 'int'
    if is_timestamp_type(dt):
        return 'datetime.datetime'
    if is_void_type(dt):
        return 'None'
    if is_user_defined_type(dt):
        from stone.backends.helpers import fmt_pascal
        n = fmt_pascal(dt.name)
        if dt.namespace.name != ns.name:
            return dt.namespace.name + '.' + n
        return n
    raise TypeError(dt)


def unparse(node):
    return ast.unparse(node) if node is not None else None


# ---------------------------------------------------------------- stub model
class StubModel:
    def __init__(self, tree):
        self.tree = tree
        self.module_names = {}   # name -> how it was bound (list, in order)
        self.classes = {}
        self.assigns = {}
        for node in tree.body:
            self._bind(node, self.module_names)
            if isinstance(node, ast.ClassDef):
                self.classes[node.name] = node
            elif isinstance(node, ast.AnnAssign) and isinstance(node.target, ast.Name):
                self.assigns[node.target.id] = node
            elif isinstance(node, ast.Assign):
                for t in node.targets:
                    if isinstance(t, ast.Name):
                        self.assigns[t.id] = node

    @staticmethod
    def _bind(node, table):
        def add(name, how):
            table.setdefault(name, []).append(how)
        if isinstance(node, ast.Import):
            for a in node.names:
                add((a.asname or a.name).split('.')[0], 'import %s' % a.name)
        elif isinstance(node, ast.ImportFrom):
            for a in node.names:
                add(a.asname or a.name, 'from %s import %s' % (node.module, a.name))
        elif isinstance(node, ast.ClassDef):
            add(node.name, 'class')
        elif isinstance(node, ast.FunctionDef):
            add(node.name, 'def')
        elif isinstance(node, ast.AnnAssign) and isinstance(node.target, ast.Name):
            add(node.target.id, 'annassign')
        elif isinstance(node, ast.Assign):
            for t in node.targets:
                if isinstance(t, ast.Name):
                    add(t.id, 'assign')

    def class_members(self, cname):
        tbl = {}
        for node in self.classes[cname].body:
            self._bind(node, tbl)
        return tbl

    def annotation_nodes(self):
        """yield (where, class_or_None, annotation_node)"""
        for node in self.tree.body:
            if isinstance(node, ast.AnnAssign):
                yield (unparse(node.target), None, node.annotation)
            elif isinstance(node, ast.ClassDef):
                for b in node.bases:
                    yield ('%s bases' % node.name, None, b)
                for sub in node.body:
                    if isinstance(sub, ast.AnnAssign):
                        yield ('%s.%s' % (node.name, unparse(sub.target)), node.name, sub.annotation)
                    elif isinstance(sub, ast.FunctionDef):
                        for a in sub.args.args + sub.args.kwonlyargs:
                            if a.annotation is not None:
                                yield ('%s.%s(%s)' % (node.name, sub.name, a.arg), node.name, a.annotation)
                        if sub.returns is not None:
                            yield ('%s.%s -> ' % (node.name, sub.name), node.name, sub.returns)

    def unresolved_names(self):
        problems = []
        for where, cls, ann in self.annotation_nodes():
            for n in ast.walk(ann):
                if isinstance(n, ast.Name):
                    if n.id in self.module_names or hasattr(builtins, n.id):
                        continue
                    problems.append((where, n.id, unparse(ann)))
        return problems


PRIVATE_OK = lambda n: n.startswith('_')


def public_runtime_module_names(mod):
    names = set()
    for n, v in vars(mod).items():
        if n.startswith('_'):
            continue
        if inspect.ismodule(v):
            continue
        if n == 'unicode_literals':
            continue
        names.add(n)
    return names


def public_stub_module_names(model):
    out = set()
    for n, hows in model.module_names.items():
        if n.startswith('_'):
            continue
        if all(h.startswith('import') or h.startswith('from') for h in hows):
            continue
        out.add(n)
    return out


def runtime_class_public(cls):
    """public names defined directly on the class (not inherited)"""
    return {n for n in vars(cls) if not n.startswith('_')}


def compare(specs, verbose=False):
    """Returns list of problem strings."""
    problems = []
    api, res, out, pkg = load(specs)
    for nsname, e in res.items():
        ns = e['ns']
        if e['syntax_error']:
            problems.append('%s.pyi: SYNTAX ERROR %s' % (nsname, e['syntax_error']))
            continue
        if e['import_error']:
            problems.append('%s.py: runtime import error %r' % (nsname, e['import_error']))
            continue
        model = StubModel(e['tree'])
        mod = e['mod']
        rt = public_runtime_module_names(mod)
        st = public_stub_module_names(model) - {'T', 'U'}
        if rt - st - {'ROUTES'}:
            problems.append('%s: runtime defines but stub lacks: %s' % (nsname, sorted(rt - st)))
        if st - rt:
            problems.append('%s: stub declares but runtime lacks: %s' % (nsname, sorted(st - rt)))
        for where, name, ann in model.unresolved_names():
            problems.append('%s: annotation of %s uses unbound name %r (%s)' % (nsname, where, name, ann))
        # duplicates
        for n, hows in model.module_names.items():
            if len(hows) > 1:
                problems.append('%s: stub binds module-level name %r %d times: %s' % (nsname, n, len(hows), hows))
        # classes
        for cname, cnode in model.classes.items():
            rc = getattr(mod, cname, None)
            if not inspect.isclass(rc):
                continue
            sb = [unparse(b) for b in cnode.bases]
            rb = []
            for b in rc.__bases__:
                if b.__module__ == mod.__name__:
                    rb.append(b.__name__)
                elif b.__module__.endswith('stone_base'):
                    rb.append('bb.' + b.__name__)
                elif b is object:
                    rb.append('object')
                else:
                    rb.append(b.__module__.split('.')[-1] + '.' + b.__name__)
            if sb != rb:
                problems.append('%s.%s: stub bases %s runtime bases %s' % (nsname, cname, sb, rb))
            members = model.class_members(cname)
            for n, hows in members.items():
                if len(hows) > 1:
                    problems.append('%s.%s: stub binds member %r %d times: %s' % (nsname, cname, n, len(hows), hows))
            sm = {n for n in members if not n.startswith('_')}
            # runtime: everything reachable
            for n in sm:
                if not hasattr(rc, n):
                    problems.append('%s.%s: stub member %r missing at runtime' % (nsname, cname, n))
            rm = runtime_class_public(rc)
            for n in rm:
                # stub may inherit
                found = False
                k = cname
                m = model
                # walk stub bases within same module only
                seen = set()
                stack = [cname]
                while stack:
                    k = stack.pop()
                    if k in seen or k not in model.classes:
                        continue
                    seen.add(k)
                    if n in model.class_members(k):
                        found = True
                        break
                    stack.extend(unparse(b) for b in model.classes[k].bases)
                if not found:
                    problems.append('%s.%s: runtime member %r not declared in stub' % (nsname, cname, n))
            # kinds
            for n in sm:
                if not hasattr(rc, n):
                    continue
                how = members[n][-1]
                rv = inspect.getattr_static(rc, n)
                kind_rt = ('def' if isinstance(rv, (type(lambda: 0), classmethod, staticmethod, property))
                           else 'value')
                kind_st = 'def' if how == 'def' else 'value'
                if kind_rt != kind_st:
                    problems.append('%s.%s.%s: stub declares %s, runtime is %s (%r)' % (
                        nsname, cname, n, kind_st, kind_rt, type(rv).__name__))
            # __init__ params
            for sub in cnode.body:
                if isinstance(sub, ast.FunctionDef) and sub.name == '__init__':
                    sp = [a.arg for a in sub.args.args]
                    rp = list(inspect.signature(rc.__init__).parameters)
                    if sp != rp:
                        problems.append('%s.%s.__init__: stub params %s runtime %s' % (nsname, cname, sp, rp))
        # annotations against IR
        from stone.backends.helpers import fmt_pascal, fmt_underscores
        for dt in ns.data_types:
            cname = fmt_pascal(dt.name)
            if cname not in model.classes:
                problems.append('%s: no stub class for %s' % (nsname, cname))
                continue
            cnode = model.classes[cname]
            anns = {}
            for sub in cnode.body:
                if isinstance(sub, ast.AnnAssign):
                    anns[unparse(sub.target)] = unparse(sub.annotation)
                elif isinstance(sub, ast.FunctionDef):
                    anns[sub.name] = sub
            if is_struct_type(dt):
                for f in dt.all_fields:
                    fn = fmt_underscores(f.name)
                    exp = 'bb.Attribute[%s]' % expected_type(ns, f.data_type)
                    if anns.get(fn) != exp:
                        problems.append('%s.%s.%s: stub annotation %r expected %r' % (nsname, cname, fn, anns.get(fn), exp))
                init = anns.get('__init__')
                if init is not None:
                    for a, f in zip(init.args.args[1:], dt.all_fields):
                        exp = expected_type(ns, f.data_type)
                        if f.has_default:
                            exp = 'Optional[%s]' % exp
                        if unparse(a.annotation) != exp:
                            problems.append('%s.%s.__init__(%s): stub annotation %r expected %r' % (
                                nsname, cname, a.arg, unparse(a.annotation), exp))
            else:
                for f in dt.fields:
                    fn = fmt_underscores(f.name)
                    isf = anns.get('is_' + fn)
                    if not isinstance(isf, ast.FunctionDef) or unparse(isf.returns) != 'bool':
                        problems.append('%s.%s.is_%s: bad/missing' % (nsname, cname, fn))
                    if is_void_type(f.data_type):
                        if anns.get(fn) != cname:
                            problems.append('%s.%s.%s: void tag annotation %r expected %r' % (nsname, cname, fn, anns.get(fn), cname))
                    else:
                        exp = expected_type(ns, f.data_type)
                        g = anns.get('get_' + fn)
                        if not isinstance(g, ast.FunctionDef) or unparse(g.returns) != exp:
                            problems.append('%s.%s.get_%s: returns %r expected %r' % (
                                nsname, cname, fn, unparse(g.returns) if isinstance(g, ast.FunctionDef) else g, exp))
                        c = anns.get(fn)
                        if not isinstance(c, ast.FunctionDef):
                            problems.append('%s.%s.%s: creator missing' % (nsname, cname, fn))
                        else:
                            va = unparse(c.args.args[1].annotation)
                            if va != exp or unparse(c.returns) != cname:
                                problems.append('%s.%s.%s: creator (%r)->%r expected (%r)->%r' % (
                                    nsname, cname, fn, va, unparse(c.returns), exp, cname))
        # shadowing: names used in annotations that resolve to something other than intended
        typing_names = {'Text', 'List', 'Dict', 'Optional', 'Type', 'Callable', 'TypeVar'}
        for n in typing_names | {'bb', 'bv', 'datetime', 'T', 'U'}:
            hows = model.module_names.get(n, [])
            if len(hows) > 1 or (hows and n in typing_names and not hows[0].startswith('from typing')):
                problems.append('%s: helper name %r rebound in stub: %s' % (nsname, n, hows))
        builtin_types = {'int', 'float', 'bool', 'bytes', 'object'}
        for n in builtin_types:
            if n in model.module_names:
                problems.append('%s: builtin %r rebound at stub module level: %s' % (nsname, n, model.module_names[n]))
        for cname in model.classes:
            mem = model.class_members(cname)
            for n in (builtin_types | typing_names | {'bb', 'bv', 'datetime'}) & set(mem):
                problems.append('%s.%s: class-scope member %r shadows a name used by annotations in the class body' % (nsname, cname, n))
    if verbose:
        for nsname, e in res.items():
            print('=' * 20, nsname + '.pyi')
            print(e['pyi'])
    return problems


def run(specs, verbose=False):
    if isinstance(specs, str):
        specs = [('a.stone', specs)]
    p = compare(specs, verbose=verbose)
    for x in p:
        print('  PROBLEM:', x)
    if not p:
        print('  ok')
    return p
