"""C15 finding 5: struct fields / union void tags are declared as class-level names in the
stub, and the remaining annotations in the same class body are resolved in class scope
first.  A field or tag called `datetime`, `int`, `float`, `bool`, `bytes` (none of them
Python reserved words, all fine at runtime) therefore or like an imported
namespace (`users List(users.User)`), therefore captures the name the other annotations of
that class rely on."""
import ast, datetime, importlib, os, sys, tempfile, textwrap
from stone.frontend.frontend import specs_to_ir
from stone.backends.python_types import PythonTypesBackend
from stone.backends.python_type_stubs import PythonTypeStubsBackend
from stone.backends.python_rsrc import stone_base as bb

SPECS = [('na.stone', """
    namespace na
    struct Event
        datetime Timestamp("%Y-%m-%d")
        created Timestamp("%Y-%m-%d")
    struct Counter
        int Int64
        total Int64
    union Answer
        bool
        text String
"""), ('users.stone', """
    namespace users
    struct User
        name String
"""), ('teams.stone', """
    namespace teams
    import users
    struct Team
        users List(users.User)
        owner users.User
""")]
specs = [(n, textwrap.dedent(t)) for n, t in SPECS]
root = tempfile.mkdtemp(); pkg = 'f5pkg'; out = os.path.join(root, pkg); os.makedirs(out)
PythonTypesBackend(out, ['-p', pkg]).generate(specs_to_ir(specs))
PythonTypeStubsBackend(out, ['-p', pkg]).generate(specs_to_ir(specs))
sys.path.insert(0, root)

na = importlib.import_module(pkg + '.na')
d = datetime.datetime(2020, 1, 2)
print('runtime ok:', na.Event(datetime=d, created=d), na.Counter(int=1, total=2),
      na.Answer.bool.is_bool(), na.Answer.text('x').is_bool())

teams = importlib.import_module(pkg + '.teams'); users = importlib.import_module(pkg + '.users')
print('runtime ok:', teams.Team(users=[users.User(name='a')], owner=users.User(name='b')))
tsrc = open(os.path.join(out, 'teams.pyi')).read()
print('--- teams.pyi class Team')
print(tsrc[tsrc.index('class Team'):tsrc.index('    def _process')])
src = open(os.path.join(out, 'na.pyi')).read()
print('--- relevant na.pyi lines')
for l in src.splitlines():
    if any(k in l for k in ('class ', 'datetime', ' int', 'bool')) and 'import' not in l:
        print('   ', l)

# static check: names used in annotations of a class body that are also bound in that class body
bad = []
for cls in [n for t in (src, tsrc) for n in ast.parse(t).body if isinstance(n, ast.ClassDef)]:
    local = {ast.unparse(s.target) for s in cls.body if isinstance(s, ast.AnnAssign)}
    local |= {s.name for s in cls.body if isinstance(s, ast.FunctionDef)}
    for s in cls.body:
        anns = []
        if isinstance(s, ast.AnnAssign):
            anns.append((ast.unparse(s.target), s.annotation))
        elif isinstance(s, ast.FunctionDef):
            anns += [('%s(%s)' % (s.name, a.arg), a.annotation) for a in s.args.args if a.annotation]
            if s.returns is not None:
                anns.append((s.name + '()', s.returns))
        for where, ann in anns:
            for n in ast.walk(ann):
                if isinstance(n, ast.Name) and n.id in local:
                    bad.append('%s.%s: annotation %r, but %r is a member declared in class %s'
                               % (cls.name, where, ast.unparse(ann), n.id, cls.name))
for b in bad:
    print('OBSERVED (static):', b)

# dynamic check: evaluate the annotation strings with class-scope-then-module-scope lookup,
# which is how the names of a class body are resolved
bb.Attribute.__class_getitem__ = classmethod(lambda cls, item: ('bb.Attribute', item))  # test-only shim
g = {'__name__': 'na_stub'}
exec(compile('from __future__ import annotations\n' + src, 'na.pyi', 'exec'), g)
def resolve(cls, text):
    try:
        return eval(text, g, dict(vars(g[cls])))
    except Exception as e:
        return '%s: %s' % (type(e).__name__, e)
print('OBSERVED (evaluated): Counter.total  %r ->' % g['Counter'].__annotations__['total'],
      resolve('Counter', g['Counter'].__annotations__['total']))
print('OBSERVED (evaluated): Event.created  %r ->' % g['Event'].__annotations__['created'],
      resolve('Event', g['Event'].__annotations__['created']))
g2 = {'__name__': 'teams_stub'}
exec(compile('from __future__ import annotations\n' + tsrc, 'teams.pyi', 'exec'), g2)
try:
    r = eval(g2['Team'].__annotations__['owner'], g2, dict(vars(g2['Team'])))
except Exception as e:
    r = '%s: %s' % (type(e).__name__, e)
print('OBSERVED (evaluated): Team.owner     %r ->' % g2['Team'].__annotations__['owner'], r)
print('OBSERVED (evaluated): Answer.is_text return %r ->' % g['Answer'].is_text.__annotations__['return'],
      resolve('Answer', g['Answer'].is_text.__annotations__['return']))
print("EXPECTED: Team.owner -> bb.Attribute[<class users.User>], Event.created -> bb.Attribute[datetime.datetime], Counter.total -> bb.Attribute[int], "
      "Answer.is_text() -> bool (the builtin / the datetime module), i.e. the Python type of the Stone type")
sys.exit(1 if bad else 0)
