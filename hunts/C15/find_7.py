"""C15 finding 7: the stub is not always syntactically valid Python even though no Python
reserved word is involved.
  (a) alias names are emitted verbatim (class_name_for_data_type: `name = data_type.name`),
      and the Stone lexer accepts '-' inside identifiers      -> `my-id_validator: ... = ...`
  (b) a struct field / annotation-type parameter called `self` -> duplicate argument in __init__
  (c) a type called `_1a` is pascal-cased to `1a`              -> `class 1a(bb.Struct):`
(python_types emits the same broken text, so the runtime module cannot be imported either.)"""
import ast, os, sys, tempfile, textwrap
from stone.frontend.frontend import specs_to_ir
from stone.backends.python_types import PythonTypesBackend
from stone.backends.python_type_stubs import PythonTypeStubsBackend

CASES = {
    'alias with dash': """
        namespace na
        struct S
            f String
        alias my-id = String
        alias my-s = S
        """,
    'field named self': """
        namespace na
        struct S
            self String
            other Int32
        """,
    'annotation_type param named self': """
        namespace na
        annotation_type Imp
            self String
        """,
    'struct named _1a': """
        namespace na
        struct _1a
            f String
        """,
}
failures = 0
for i, (label, text) in enumerate(CASES.items()):
    specs = [('na.stone', textwrap.dedent(text))]
    root = tempfile.mkdtemp(); pkg = 'f7pkg%d' % i; out = os.path.join(root, pkg); os.makedirs(out)
    PythonTypesBackend(out, ['-p', pkg]).generate(specs_to_ir(specs))       # spec is accepted
    PythonTypeStubsBackend(out, ['-p', pkg]).generate(specs_to_ir(specs))
    for fn in ('na.pyi', 'na.py'):
        src = open(os.path.join(out, fn)).read()
        try:
            ast.parse(src)
            compile(src, fn, 'exec')
            print('%-34s %-6s compiles' % (label, fn))
        except SyntaxError as e:
            line = src.splitlines()[e.lineno - 1].strip() if e.lineno else ''
            print('OBSERVED: %-24s %-6s SyntaxError: %s  | line %s: %r' % (label, fn, e.msg, e.lineno, line))
            if fn.endswith('.pyi'):
                failures += 1
print('EXPECTED: the python_type_stubs output is syntactically valid Python for every spec the '
      'frontend accepts (identifiers that are not Python reserved words)')
sys.exit(1 if failures else 0)
