"""Shared helpers for C20 experiments (independent closure, dangling check, import check)."""
import importlib
import os
import re
import shutil
import subprocess
import sys
import tempfile
import textwrap
import json

from stone.frontend.frontend import specs_to_ir
from stone.ir import (Alias, Struct, Union, List, Map, Nullable, is_primitive_type,
                      is_alias, is_list_type, is_map_type, is_nullable_type,
                      is_struct_type, is_union_type, is_user_defined_type)
from stone.ir.data_types import TagRef

DOC_RE = re.compile(r':(?P<tag>[A-z]+):`(?P<val>.*?)`')


def mk(specs):
    return [(name, textwrap.dedent(text)) for name, text in specs]


def expected_closure(api, wl, ns_docs=True, deprecated_by=False, f1_compat=False):
    """Closure computed independently on the UNFILTERED api.
    Returns (types, routes, aliases) as sets of (ns, name) / (ns, name, version)."""
    types, routes, aliases = set(), set(), set()
    docs_done = set()

    def resolve(ns, name):
        n = api.namespaces[ns]
        if name in n.data_type_by_name:
            return n.data_type_by_name[name]
        if name in n.alias_by_name:
            return n.alias_by_name[name]
        return None

    def do_doc(doc, ns):
        if not doc:
            return
        for m in DOC_RE.finditer(doc):
            tag, val = m.group('tag'), m.group('val')
            if tag == 'type':
                if '.' in val:
                    n, v = val.split('.', 1)
                else:
                    n, v = ns, val
                t = resolve(n, v) if n in api.namespaces else None
                if t is not None:
                    walk(t)
            elif tag == 'route':
                if '.' in val:
                    n, v = val.split('.', 1)
                else:
                    n, v = ns, val
                if ':' in v:
                    rn, ver = v.split(':')
                    ver = int(ver)
                else:
                    rn, ver = v, 1
                try:
                    r = api.namespaces[n].routes_by_name[rn].at_version[ver]
                except KeyError:
                    continue
                do_route(api.namespaces[n], r, via_doc=True)
            elif tag == 'field':
                if '.' in val:
                    parts = val.split('.')
                    t = resolve(ns, parts[0])
                    if t is None and parts[0] in api.namespaces and len(parts) >= 3:
                        t = resolve(parts[0], parts[1])
                    if t is not None:
                        # a :field: reference mentions the owning type (not the alias)
                        while isinstance(t, Alias):
                            t = t.data_type
                        walk(t)

    def do_route(ns, r, via_doc=False):
        key = (ns.name, r.name, r.version)
        if key not in routes:
            routes.add(key)
            for dt in (r.arg_data_type, r.result_data_type, r.error_data_type):
                walk(dt)
        if via_doc and f1_compat:
            return
        if key in docs_done:
            return
        docs_done.add(key)
        do_doc(r.doc, ns.name)
        if deprecated_by and r.deprecated is not None and r.deprecated.by is not None:
            do_route(ns, r.deprecated.by)

    def walk(dt):
        if is_primitive_type(dt):
            return
        if is_list_type(dt) or is_nullable_type(dt):
            walk(dt.data_type)
        elif is_map_type(dt):
            walk(dt.key_data_type)
            walk(dt.value_data_type)
        elif is_alias(dt):
            key = (dt.namespace.name, dt.name)
            if key in aliases:
                return
            aliases.add(key)
            walk(dt.data_type)
            do_doc(dt.doc, dt.namespace.name)
        elif is_user_defined_type(dt):
            key = (dt.namespace.name, dt.name)
            if key in types:
                return
            types.add(key)
            do_doc(dt.doc, dt.namespace.name)
            for f in dt.fields:
                walk(f.data_type)
                do_doc(f.doc, dt.namespace.name)
                if is_struct_type(dt) and f.has_default and isinstance(f.default, TagRef):
                    walk(f.default.union_data_type)
            if dt.parent_type is not None:
                walk(dt.parent_type)
            if is_struct_type(dt) and dt.has_enumerated_subtypes():
                for sf in dt.get_enumerated_subtypes():
                    walk(sf.data_type)
        else:
            raise AssertionError(dt)

    for ns_name, reprs in wl['route_whitelist'].items():
        ns = api.namespaces[ns_name]
        if ns_docs:
            do_doc(ns.doc, ns_name)
        if '*' in reprs:
            for r in ns.routes:
                do_route(ns, r)
            reprs = [x for x in reprs if x != '*']
        for rr in reprs:
            if ':' in rr:
                rn, ver = rr.split(':')
                ver = int(ver)
            else:
                rn, ver = rr, 1
            do_route(ns, ns.routes_by_name[rn].at_version[ver])
    for ns_name, names in wl['datatype_whitelist'].items():
        ns = api.namespaces[ns_name]
        if ns_docs:
            do_doc(ns.doc, ns_name)
        for name in names:
            walk(resolve(ns_name, name))
    return types, routes, aliases


def actual(api):
    types = {(ns.name, d.name) for ns in api.namespaces.values() for d in ns.data_types}
    routes = {(ns.name, r.name, r.version) for ns in api.namespaces.values() for r in ns.routes}
    aliases = {(ns.name, a.name) for ns in api.namespaces.values() for a in ns.aliases}
    return types, routes, aliases


def dangling(api):
    """Return list of references from retained things to things not retained."""
    types, routes, aliases = actual(api)
    out = []

    def chk(dt, where):
        if is_primitive_type(dt):
            return
        if is_list_type(dt) or is_nullable_type(dt):
            chk(dt.data_type, where)
        elif is_map_type(dt):
            chk(dt.key_data_type, where)
            chk(dt.value_data_type, where)
        elif is_alias(dt):
            if (dt.namespace.name, dt.name) not in aliases:
                out.append('%s -> removed alias %s.%s' % (where, dt.namespace.name, dt.name))
            chk(dt.data_type, where)
        else:
            if (dt.namespace.name, dt.name) not in types:
                out.append('%s -> removed type %s.%s' % (where, dt.namespace.name, dt.name))

    for ns in api.namespaces.values():
        for d in ns.data_types:
            w = '%s.%s' % (ns.name, d.name)
            for f in d.fields:
                chk(f.data_type, w + '.' + f.name)
                if is_struct_type(d) and f.has_default and isinstance(f.default, TagRef):
                    chk(f.default.union_data_type, w + '.' + f.name + ' default')
            if d.parent_type is not None:
                chk(d.parent_type, w + ' parent')
            if is_struct_type(d) and d.has_enumerated_subtypes():
                for sf in d.get_enumerated_subtypes():
                    chk(sf.data_type, w + ' subtype ' + sf.name)
        for a in ns.aliases:
            chk(a.data_type, 'alias %s.%s' % (ns.name, a.name))
        for r in ns.routes:
            w = 'route %s.%s:%d' % (ns.name, r.name, r.version)
            chk(r.arg_data_type, w + ' arg')
            chk(r.result_data_type, w + ' result')
            chk(r.error_data_type, w + ' error')
            if r.deprecated is not None and r.deprecated.by is not None:
                b = r.deprecated.by
                if (ns.name, b.name, b.version) not in routes:
                    out.append('%s deprecated by removed route %s:%d' % (w, b.name, b.version))
    return out


def gen_and_import(specs, wl=None, backend='python_types', extra=('-p', 'pkg')):
    """Run the CLI on specs (optionally filtered) and import every generated module.
    Returns (ok, message)."""
    d = tempfile.mkdtemp(prefix='c20_')
    try:
        paths = []
        for name, text in specs:
            p = os.path.join(d, name)
            with open(p, 'w') as f:
                f.write(text)
            paths.append(p)
        out = os.path.join(d, 'out', 'pkg')
        os.makedirs(out)
        cmd = [sys.executable, '-m', 'stone.cli', backend, out] + paths
        if wl is not None:
            wp = os.path.join(d, 'wl.json')
            with open(wp, 'w') as f:
                json.dump(wl, f)
            cmd += ['--route-whitelist-filter', wp]
        cmd += ['--'] + list(extra)
        env = dict(os.environ, PYTHONPATH='/repo')
        p = subprocess.run(cmd, capture_output=True, text=True, env=env)
        if p.returncode != 0:
            return False, 'compile failed: ' + (p.stderr.strip().splitlines() or ['?'])[-1]
        mods = sorted(f[:-3] for f in os.listdir(out)
                      if f.endswith('.py') and f != '__init__.py')
        code = 'import importlib\n' + ''.join(
            'importlib.import_module("pkg.%s")\n' % m for m in mods)
        env['PYTHONPATH'] = '/repo:' + os.path.join(d, 'out')
        p = subprocess.run([sys.executable, '-c', code], capture_output=True, text=True, env=env)
        if p.returncode != 0:
            return False, 'import failed: ' + (p.stderr.strip().splitlines() or ['?'])[-1]
        return True, 'ok'
    finally:
        shutil.rmtree(d, ignore_errors=True)


def check(specs, wl, label='', ns_docs=True, verbose=True):
    specs = mk(specs)
    full = specs_to_ir(specs)
    et, er, ea = expected_closure(full, wl, ns_docs=ns_docs)
    problems = []
    try:
        filt = specs_to_ir(specs, route_whitelist_filter=wl)
    except BaseException as e:  # noqa
        problems.append('filtered compile raised %s: %s' % (type(e).__name__, e))
        filt = None
    if filt is not None:
        at, ar, aa = actual(filt)
        if at != et:
            problems.append('types: missing %s extra %s' % (sorted(et - at), sorted(at - et)))
        if ar != er:
            problems.append('routes: missing %s extra %s' % (sorted(er - ar), sorted(ar - er)))
        if aa != ea:
            problems.append('aliases: missing %s extra %s' % (sorted(ea - aa), sorted(aa - ea)))
        problems += ['dangling: ' + x for x in dangling(filt)]
        okf, msgf = gen_and_import(specs)
        ok, msg = gen_and_import(specs, wl)
        if ok != okf:
            problems.append('python_types: full=%s filtered=%s' % (msgf, msg))
        elif not ok:
            problems.append('(both fail) python_types: full=%s filtered=%s' % (msgf, msg))
    if verbose:
        print('== %s: %s' % (label, 'OK' if not problems else ''))
        for p in problems:
            print('   ', p)
    return problems
