"""C20 finding 1: doc references of a route that was itself pulled in through a doc
reference are not followed (types and routes they mention are dropped)."""
import sys
import textwrap
from stone.frontend.frontend import specs_to_ir

SPEC = textwrap.dedent('''\
    namespace na
        "Start with :route:`helper_ns`."

    struct MainArg
        "Obtain the id from :route:`helper_type`."
        f String

    struct HelperTypeArg
        f String
    struct HelperTypeDoc
        f String
    struct HelperRouteArg
        f String
    struct HelperRouteDoc
        f String
    struct HelperNsArg
        f String
    struct HelperNsDoc
        f String
    struct ThirdArg
        f String
    struct UnrelatedArg
        f String

    route main (MainArg, Void, Void)
        "See also :route:`helper_route`."

    route helper_type (HelperTypeArg, Void, Void)
        "Fails with :type:`HelperTypeDoc`; then call :route:`third`."
    route helper_route (HelperRouteArg, Void, Void)
        "Fails with :type:`HelperRouteDoc`."
    route helper_ns (HelperNsArg, Void, Void)
        "Fails with :type:`HelperNsDoc`."
    route third (ThirdArg, Void, Void)
    route unrelated (UnrelatedArg, Void, Void)
    ''')

wl = {'route_whitelist': {'na': ['main']}, 'datatype_whitelist': {}}
api = specs_to_ir([('na.stone', SPEC)], route_whitelist_filter=wl)
ns = api.namespaces['na']
got_types = sorted(ns.data_type_by_name)
got_routes = sorted(r.name_with_version() for r in ns.routes)

# Closure by hand: main -> MainArg -> (type doc) helper_type -> HelperTypeArg,
# (its doc) HelperTypeDoc, third -> ThirdArg; (main's doc) helper_route ->
# HelperRouteArg, (its doc) HelperRouteDoc; (namespace doc) helper_ns ->
# HelperNsArg, (its doc) HelperNsDoc.
want_types = sorted(['MainArg', 'HelperTypeArg', 'HelperTypeDoc', 'ThirdArg',
                     'HelperRouteArg', 'HelperRouteDoc', 'HelperNsArg', 'HelperNsDoc'])
want_routes = sorted(['main', 'helper_type', 'helper_route', 'helper_ns', 'third'])

print('retained types :', got_types)
print('expected types :', want_types)
print('retained routes:', got_routes)
print('expected routes:', want_routes)
missing_t = sorted(set(want_types) - set(got_types))
missing_r = sorted(set(want_routes) - set(got_routes))
if missing_t or missing_r:
    print('VIOLATION: the retained routes helper_type/helper_route/helper_ns carry docs that '
          'mention removed types %s and removed routes %s' % (missing_t, missing_r))
    sys.exit(1)
print('ok')
