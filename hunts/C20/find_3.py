"""C20 finding 3: namespace docs are never validated by the compiler, but the whitelist
filter resolves their references strictly: a spec that compiles (and whose python_types
output loads) without a whitelist crashes with a bare KeyError once any whitelist names
that namespace."""
import sys
import textwrap
from stone.frontend.frontend import specs_to_ir

SPEC = textwrap.dedent('''\
    namespace na
        "Types live here; see :type:`Gone` (removed in v2) and :type:`A`."
    struct S
        f String
    alias A = S
    route r (S, Void, Void)
    ''')
full = specs_to_ir([('na.stone', SPEC)])
print('full API compiles: types', sorted(full.namespaces['na'].data_type_by_name))
bad = 0
for wl in ({'route_whitelist': {'na': ['r']}, 'datatype_whitelist': {}},
           {'route_whitelist': {}, 'datatype_whitelist': {'na': ['S']}}):
    try:
        api = specs_to_ir([('na.stone', SPEC)], route_whitelist_filter=wl)
        print('filtered compile ok', wl)
    except BaseException as e:  # noqa
        bad += 1
        print('filtered compile with %s raised %s: %s' % (wl, type(e).__name__, e))
if bad:
    print('VIOLATION: the filtered API cannot be produced at all for a spec the compiler '
          'accepts; expected either the same InvalidSpec without a whitelist or the unknown '
          'reference to be skipped')
    sys.exit(1)
print('ok')
