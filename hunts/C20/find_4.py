"""C20 finding 4 (minor): "*" is only understood when it is the sole entry of a namespace's
route list; together with other entries the compiler dies on a bare assert."""
import sys
import textwrap
from stone.frontend.frontend import specs_to_ir

SPEC = textwrap.dedent('''\
    namespace na
    struct S
        f String
    route r (S, Void, Void)
    route q (Void, Void, Void)
    ''')
wl = {'route_whitelist': {'na': ['*', 'r']}, 'datatype_whitelist': {}}
try:
    api = specs_to_ir([('na.stone', SPEC)], route_whitelist_filter=wl)
except BaseException as e:  # noqa
    print('whitelist %s raised %s(%s)' % (wl['route_whitelist'], type(e).__name__, e))
    print('VIOLATION: expected every route of na (r, q) and type S to be retained')
    sys.exit(1)
print(sorted(r.name for r in api.namespaces['na'].routes))
print('ok')
