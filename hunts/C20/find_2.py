"""C20 finding 2: a retained route that is `deprecated by` another route keeps a reference
to the replacement route, which the filter removes (with its argument types)."""
import sys
import textwrap
from stone.frontend.frontend import specs_to_ir

SPEC = textwrap.dedent('''\
    namespace na
    struct OldArg
        f String
    struct NewArg
        f String
    route get_old (OldArg, Void, Void) deprecated by get_new
    route get_new (NewArg, Void, Void)
    ''')
wl = {'route_whitelist': {'na': ['get_old']}, 'datatype_whitelist': {}}
api = specs_to_ir([('na.stone', SPEC)], route_whitelist_filter=wl)
ns = api.namespaces['na']
routes = sorted(r.name_with_version() for r in ns.routes)
old = ns.route_by_name['get_old']
by = old.deprecated.by
print('retained routes:', routes, ' retained types:', sorted(ns.data_type_by_name))
print('get_old.deprecated.by ->', by, '(arg type %s)' % by.arg_data_type.name)
if by.name_with_version() not in routes or by.arg_data_type.name not in ns.data_type_by_name:
    print('VIOLATION: retained route get_old refers to route %r which is not in the filtered '
          'API (clients emit "get_old is deprecated. Use get_new." for a route that does not '
          'exist); expected get_new and NewArg to be retained' % by.name_with_version())
    sys.exit(1)
print('ok')
