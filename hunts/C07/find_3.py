#!/usr/bin/env python
"""C07 finding 3 (compile time): "introducing an alias" is listed as a compatible edit
(evolve_spec.rst: "Changing the name of a struct, union, or alias"; lang_ref.rst:
aliases "make refactoring easier"), yet at two sites the compiler refuses the
aliased form of a type it accepts inline, so spec B cannot even be built:
  (a) the key type of a Map            Map(String, V)  ->  alias K = String ; Map(K, V)
  (b) an enumerated-subtype reference  f File          ->  alias AF = File  ; f AF

Run: PYTHONPATH=/repo /venv/bin/python find_3.py
"""
import os, sys, textwrap
ROOT = os.path.dirname(os.path.abspath(__file__))
sys.path.insert(0, ROOT)
from stone.frontend.frontend import specs_to_ir
from stone.frontend.exception import InvalidSpec

def compile_(text):
    try:
        specs_to_ir([('s.stone', textwrap.dedent(text))])
        return None
    except InvalidSpec as e:
        return e.msg

pairs = [
 ('map key', '''\
    namespace ns
    struct S
        m Map(String(min_length=1), Int32)
  ''', '''\
    namespace ns
    alias K = String(min_length=1)
    struct S
        m Map(K, Int32)
  '''),
 ('enumerated subtype', '''\
    namespace ns
    struct Base
        union
            f File
        id String
    struct File extends Base
        n Int32
  ''', '''\
    namespace ns
    alias AF = File
    struct Base
        union
            f AF
        id String
    struct File extends Base
        n Int32
  '''),
]
bad = 0
for site, a, b in pairs:
    ea, eb = compile_(a), compile_(b)
    print('%-20s inline form: %s' % (site, 'compiles' if ea is None else 'InvalidSpec: ' + ea))
    print('%-20s alias form : %s' % (site, 'compiles' if eb is None else 'InvalidSpec: ' + eb))
    if ea is None and eb is not None:
        bad += 1
if bad:
    print('\nVIOLATION: %d site(s) where B = A + "introduce an alias for this type" (a wire-neutral, '
          'documented-compatible edit) is rejected by the compiler, so the new peer cannot be generated at all. '
          'C07 expects the aliased spec to build and to be wire-identical to the inline one '
          '(as it is at every other site: fields, list items, map values, union members, defaults, routes).' % bad)
    sys.exit(1)
print('no violation observed')
