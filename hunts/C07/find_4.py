#!/usr/bin/env python
"""C07 finding 4 (cross-backend, surfaces under evolution): swift_types puts a
*nullable* plain-struct union member under a key named after the tag,
    {".tag": "t", "t": {"a": "x", "q": "new"}}
whereas json_serializer.rst (the `coord Coordinate?` example), the Python runtime and
obj_c_types all flatten it:
    {".tag": "t", "a": "x", "q": "new"}
So when S (used as `t S?`) gains an optional field, the message a new Swift peer
encodes is rejected by an old Python peer even in lenient mode (instead of being read as
the A-view t(S(a='x'))), and the message a new Python peer encodes is read by the Swift
deserializer as t(nil), silently losing the whole payload.

Run: PYTHONPATH=/repo /venv/bin/python find_4.py
"""
import importlib, json, os, re, subprocess, sys, tempfile, textwrap
ROOT = os.path.dirname(os.path.abspath(__file__))
sys.path.insert(0, ROOT)

SPEC_A = textwrap.dedent('''\
    namespace ns
    struct S
        a String
    union U
        t S?
        n S
''')
SPEC_B = SPEC_A.replace('    a String\n', '    a String\n    q String?\n')   # compatible edit
assert SPEC_A != SPEC_B
tmp = tempfile.mkdtemp(prefix='c07_f4_')
def gen(backend, spec, out, extra=()):
    p = os.path.join(tmp, out + '.stone'); open(p, 'w').write(spec)
    subprocess.check_call([sys.executable, '-m', 'stone.cli', backend, os.path.join(tmp, out), p] + list(extra),
                          env=dict(os.environ, PYTHONPATH=ROOT))
    return os.path.join(tmp, out)
sys.path.insert(0, tmp)
gen('python_types', SPEC_A, 'pya', ['--', '--package', 'pya'])
gen('python_types', SPEC_B, 'pyb', ['--', '--package', 'pyb'])
from stone.backends.python_rsrc import stone_serializers as ss, stone_validators as bv
pya = importlib.import_module('pya.ns'); pyb = importlib.import_module('pyb.ns')

swift = open(os.path.join(gen('swift_types', SPEC_B, 'swb'), 'Ns.swift')).read()
ser = re.search(r'public class USerializer.*?public func deserialize', swift, re.S).group(0)
case_t = re.search(r'case \.t\(let arg\):\n(.*?)\n', ser).group(1).strip()
case_n = re.search(r'case \.n\(let arg\):\n(.*?)\n', ser).group(1).strip()
des = re.search(r'public func deserialize\(_ json: JSON\) throws -> U \{.*?\n        \}', swift, re.S).group(0)
des_t = re.search(r'case "t":\n(.*?)\n', des).group(1).strip()
print('swift serialize  .n (S)  :', case_n)
print('swift serialize  .t (S?) :', case_t)
print('swift deserialize "t"    :', des_t)
nested = '["t":' in case_t.replace(' ', '').replace('try', '') or '"t": NullableSerializer' in case_t
reads_key = 'd["t"]' in des_t

py_msg = ss.json_compat_obj_encode(pyb.U_validator, pyb.U.t(pyb.S(a='x', q='new')))
swift_msg = {'.tag': 't', 't': {'a': 'x', 'q': 'new'}}      # what the Swift line above produces
print('python B encodes t(S(a=x,q=new)) as :', json.dumps(py_msg))
print('swift  B encodes the same value as  :', json.dumps(swift_msg))
try:
    got = ss.json_compat_obj_decode(pya.U_validator, swift_msg, strict=False)
    res = 'ok %r' % (got,)
except bv.ValidationError as e:
    res = 'ValidationError: %s' % e
print('python A, lenient, on the swift message :', res)
print('python A, lenient, on the python message:', ss.json_compat_obj_decode(pya.U_validator, py_msg, strict=False))

if nested and reads_key and res.startswith('ValidationError'):
    print('\nVIOLATION: the new Swift peer\'s message for `t S?` is not the documented flattened form; the old '
          'Python peer rejects it in lenient mode ("missing required field \'a\'") where C07 demands the A-view '
          "t(S(a='x')) with the unknown field q dropped; in the other direction Swift looks only at d[\"t\"] and "
          'reads the flattened (documented) message as t(nil).')
    sys.exit(1)
print('no violation observed')
