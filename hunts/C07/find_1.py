#!/usr/bin/env python
"""C07 finding 1: swift_types - an open union that *extends* an open union has no
catch-all branch in its generated Swift deserializer, so a tag added later
(by a newer peer) makes the old Swift peer throw instead of reading `other`.

Run: PYTHONPATH=/repo /venv/bin/python find_1.py
"""
import json, os, re, subprocess, sys, tempfile, textwrap, importlib

ROOT = os.path.dirname(os.path.abspath(__file__))
sys.path.insert(0, ROOT)

SPEC_A = textwrap.dedent('''\
    namespace ns
    union P
        p1
    union Ch extends P
        c1
    struct Holder
        ch Ch
''')
# B = A + one compatible edit: a new tag on the open union Ch
SPEC_B = SPEC_A.replace('    c1\n', '    c1\n    c_new String\n')
assert SPEC_B != SPEC_A

tmp = tempfile.mkdtemp(prefix='c07_f1_')
def gen(backend, spec, out, extra=()):
    p = os.path.join(tmp, out + '.stone')
    open(p, 'w').write(spec)
    subprocess.check_call([sys.executable, '-m', 'stone.cli', backend, os.path.join(tmp, out), p] + list(extra),
                          env=dict(os.environ, PYTHONPATH=ROOT))
    return os.path.join(tmp, out)

# --- reference behaviour: Python runtime, old peer A reads B's message leniently as `other`
sys.path.insert(0, tmp)
gen('python_types', SPEC_A, 'pya', ['--', '--package', 'pya'])
gen('python_types', SPEC_B, 'pyb', ['--', '--package', 'pyb'])
from stone.backends.python_rsrc import stone_serializers as ss
pya = importlib.import_module('pya.ns'); pyb = importlib.import_module('pyb.ns')
msg = ss.json_compat_obj_encode(pyb.Ch_validator, pyb.Ch.c_new('x'))
py_view = ss.json_compat_obj_decode(pya.Ch_validator, msg, strict=False)
print('message encoded under B      :', json.dumps(msg))
print('python  A-peer (lenient) reads:', py_view)
assert py_view.is_other()

# --- Swift code generated for the OLD spec A
out = gen('swift_types', SPEC_A, 'swa')
swift = open(os.path.join(out, 'Ns.swift')).read()
def default_branch(cls):
    m = re.search(r'public class %sSerializer: JSONSerializer \{.*?public func deserialize.*?default:\s*\n\s*(.*?)\n' % cls,
                  swift, re.S)
    return m.group(1).strip()
p_branch, ch_branch = default_branch('P'), default_branch('Ch')
print('swift   A-peer, PSerializer.deserialize  unknown tag ->', p_branch)
print('swift   A-peer, ChSerializer.deserialize unknown tag ->', ch_branch)
has_other_case = 'case other' in re.search(r'public enum Ch:.*?\n    \}', swift, re.S).group(0)
print('swift enum Ch declares `case other`:', has_other_case)

if 'throw' in ch_branch and 'unknownTag' in ch_branch:
    print('\nVIOLATION: Ch is an open union (it inherits the catch-all `other` from P, and the Swift enum even '
          'has `case other`), but the generated Swift deserializer throws JSONSerializerError.unknownTag for the tag '
          '"c_new" that spec B legitimately added. C07 demands the old peer read it as `other` '
          '(as the Python runtime and the Swift code for P itself do).')
    sys.exit(1)
print('no violation observed')
