#!/usr/bin/env python
"""C07 finding 2: obj_c_types - a union member whose type is a *nullable plain struct*
is deserialized from the enclosing dictionary unconditionally, so the null form
{".tag": "t"} -- which is exactly what an old peer sends for a tag that the new spec
changed from Void to `S?` -- makes the Obj-C peer raise instead of reading null.

Run: PYTHONPATH=/repo /venv/bin/python find_2.py
"""
import importlib, json, os, re, subprocess, sys, tempfile, textwrap

ROOT = os.path.dirname(os.path.abspath(__file__))
sys.path.insert(0, ROOT)

SPEC_A = textwrap.dedent('''\
    namespace ns
    struct S
        a String
    union U
        t
        keep String
''')
# B = A + one compatible edit: Void tag `t` is given the (nullable) type S?
SPEC_B = SPEC_A.replace('    t\n', '    t S?\n')
assert SPEC_A != SPEC_B

tmp = tempfile.mkdtemp(prefix='c07_f2_')
def gen(backend, spec, out, extra=()):
    p = os.path.join(tmp, out + '.stone')
    open(p, 'w').write(spec)
    subprocess.check_call([sys.executable, '-m', 'stone.cli', backend, os.path.join(tmp, out), p] + list(extra),
                          env=dict(os.environ, PYTHONPATH=ROOT))
    return os.path.join(tmp, out)

# --- reference: Python runtime. A's message decodes under B to t(null) in both modes.
sys.path.insert(0, tmp)
gen('python_types', SPEC_A, 'pya', ['--', '--package', 'pya'])
gen('python_types', SPEC_B, 'pyb', ['--', '--package', 'pyb'])
from stone.backends.python_rsrc import stone_serializers as ss
pya = importlib.import_module('pya.ns'); pyb = importlib.import_module('pyb.ns')
msg = ss.json_compat_obj_encode(pya.U_validator, pya.U.t)
print('message encoded under A          :', json.dumps(msg))
for strict in (False, True):
    v = ss.json_compat_obj_decode(pyb.U_validator, msg, strict=strict)
    print('python B-peer strict=%-5s reads   : %r' % (strict, v))
    assert v.is_t() and v.get_t() is None
# the same wire form is what B itself emits for t(null)
assert ss.json_compat_obj_encode(pyb.U_validator, pyb.U.t(None)) == msg

# --- Obj-C generated for the NEW spec B
out = gen('obj_c_types', SPEC_B, 'ocb')
src = open(os.path.join(out, 'ApiObjects', 'Ns', 'DBNsObjects.m')).read()
deser = re.search(r'\+ \(DBNSU \*\)deserialize:.*?\n\}\n', src, re.S).group(0)
branch = re.search(r'isEqualToString:@"t"\]\) \{\n(.*?)\n    \}', deser, re.S).group(1)
print('obj-c  B-peer, DBNSUSerializer deserialize, branch for tag "t":')
print(branch)
s_deser = re.search(r'\+ \(DBNSS \*\)deserialize:.*?\n\}\n', src, re.S).group(0)
s_init = re.search(r'- \(instancetype\)initWithA:.*?\n\}\n', src, re.S).group(0)
print('obj-c  DBNSSSerializer deserialize:'); print(s_deser)
print('obj-c  DBNSS initWithA: starts with:', s_init.splitlines()[1].strip())

bad = re.search(r'DBNSS \*t = valueDict \? \[DBNSSSerializer deserialize:valueDict\] : nil;', branch)
if bad and 'nonnullValidator' in s_init:
    print('\nVIOLATION: for {".tag": "t"} the guard tests `valueDict` (the whole union dictionary, never nil) '
          'instead of testing whether any payload is present, so DBNSSSerializer is run on {".tag":"t"}, '
          'valueDict[@"a"] is nil and initWithA: raises IllegalStateException ("Value must not be `nil`"). '
          'C07 demands that A\'s message decode under B to t(null) (Void -> nullable type is the promised direction); '
          'the Python runtime does exactly that.')
    sys.exit(1)
print('no violation observed')
