"""C14: tag-ref defaults are emitted as '<namespace>.<Union>.<tag>' in the
parameter list, which Python evaluates in the class body. A method defined
earlier in the class whose name equals that namespace name ('x' + '_' + 'y' ==
namespace 'x_y') shadows the imported module, so the client fails to import."""
import sys
from _find_common import gen, load_client, method_source

pkg, client_py = gen({'sharing': '''
    namespace sharing
    route links(Void, Void, Void)
''', 'sharing_links': '''
    namespace sharing_links
    union Visibility
        public
        team_only
    struct CreateArg
        path String
        visibility Visibility = public
    route create(CreateArg, Void, Void)
'''})
print(method_source(client_py, 'sharing_links_create').split('"""')[0])
try:
    c = load_client(pkg)
    c.sharing_links_create('/p')
    print('OK', c.calls)
    sys.exit(0)
except AttributeError as e:
    print('OBSERVED: importing the generated client raises AttributeError: %s '
          '(sharing_links is the method of route sharing.links at that point)' % e)
    print("EXPECTED: client imports; sharing_links_create('/p') sends CreateArg(path='/p', visibility=Visibility.public)")
    sys.exit(1)
