"""C14: struct fields become bare parameter names, so a field named like a
module-level name the method body needs (the namespace module of the argument
struct / route, or `warnings` on a deprecated route) shadows it and the call
fails before any request is issued."""
import sys, warnings
from _find_common import gen, load_client, method_source, ns

bad = 0

def attempt(title, specs, meth, call, expected):
    global bad
    pkg, client_py = gen(specs)
    print('== %s' % title)
    print(method_source(client_py, meth))
    c = load_client(pkg)
    try:
        with warnings.catch_warnings():
            warnings.simplefilter('ignore')
            call(c)
        print('OK: request issued with %r' % (c.calls,))
    except Exception as e:
        bad += 1
        print('OBSERVED: %s(...) raised %s: %s; requests issued: %d' % (meth, type(e).__name__, e, len(c.calls)))
        print('EXPECTED: exactly one request with %s' % expected)

attempt('field named like its namespace',
        {'files': '''
            namespace files
            struct ListArg
                files List(String)
                limit Int32 = 10
            route list(ListArg, Void, Void)
         '''},
        'files_list', lambda c: c.files_list(['a', 'b']),
        "route files.list, 'files', ListArg(files=['a','b'], limit=10), None")

attempt('field named "warnings" on a deprecated route',
        {'ns1': '''
            namespace ns1
            struct CheckArg
                warnings Boolean = false
            route check(CheckArg, Void, Void) deprecated
         '''},
        'ns1_check', lambda c: c.ns1_check(),
        "route ns1.check, 'ns1', CheckArg(warnings=False), None, plus a DeprecationWarning")

attempt('namespace named "warnings" with a deprecated route',
        {'warnings': '''
            namespace warnings
            route r(Void, Void, Void) deprecated
         '''},
        'warnings_r', lambda c: c.warnings_r(),
        "route warnings.r, 'warnings', None, None, plus a DeprecationWarning")

sys.exit(1 if bad else 0)
