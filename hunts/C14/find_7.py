"""C14: with the python_client option -a/--attribute-comment, route attribute
values are copied into the method docstring without the escaping that doc text
gets (process_doc), so a backslash or triple quote in an attribute value makes
the generated client unimportable."""
import sys
from _find_common import gen, load_client, method_source

bad = 0
for title, value in [('backslash', r'"files\\Names.read"'), ('triple quote', r'"say \"\"\"hi\"\"\""')]:
    pkg, client_py = gen({'ns1': '''
        namespace ns1
        struct Arg
            x Int32
        route r(Arg, Void, Void)
            attrs
                scope = %s
    ''' % value}, client_args=['-a', 'scope'])
    print('== attribute value with %s: scope = %s' % (title, value))
    print(method_source(client_py, 'ns1_r'))
    try:
        c = load_client(pkg)
        c.ns1_r(1)
        print('OK', c.calls)
    except SyntaxError as e:
        bad = 1
        print('OBSERVED: importing the generated client raises SyntaxError: %s' % e)
        print('EXPECTED: client imports; ns1_r(1) sends Arg(x=1) (route/field docs with the same text are escaped)')
sys.exit(bad)
