"""Shared helper for find_N.py: generate python_types + python_client for
specs (dict name -> text) through the stone CLI and import the client."""
import importlib, itertools, os, subprocess, sys, tempfile, textwrap

ROOT = os.path.dirname(os.path.abspath(__file__))
_n = itertools.count()

CFG = '''
namespace stone_cfg
struct Route
    style String = "rpc"
    scope String?
'''

def gen(specs, client_args=()):
    d = tempfile.mkdtemp(prefix='c14_')
    pkg = 'c14pkg%d_%d' % (os.getpid(), next(_n))
    out = os.path.join(d, pkg)
    os.makedirs(out)
    open(os.path.join(out, '__init__.py'), 'w').close()
    specs = dict(specs)
    specs.setdefault('stone_cfg', CFG)
    paths = []
    for name, text in specs.items():
        p = os.path.join(d, name + '.stone')
        with open(p, 'w') as f:
            f.write(textwrap.dedent(text))
        paths.append(p)
    env = dict(os.environ, PYTHONPATH=ROOT)
    for be, args in (('python_types', ['-p', pkg]),
                     ('python_client', ['-m', 'client', '-c', 'Base', '-t', pkg] + list(client_args))):
        cmd = [sys.executable, '-m', 'stone.cli', '-a', ':all', be, out] + paths + ['--'] + args
        r = subprocess.run(cmd, env=env, capture_output=True, text=True)
        if r.returncode != 0:
            raise RuntimeError('generator %s failed:\n%s%s' % (be, r.stdout[-2000:], r.stderr[-2000:]))
    sys.path.insert(0, d)
    sys.path.insert(0, ROOT)
    importlib.invalidate_caches()
    return pkg, os.path.join(out, 'client.py')

def load_client(pkg):
    mod = importlib.import_module(pkg + '.client')
    class C(mod.Base):
        def __init__(self):
            self.calls = []
            self.ret = ('result', 'body')
        def request(self, route, namespace, request_arg, request_binary, timeout=None):
            self.calls.append((route, namespace, request_arg, request_binary))
            return self.ret
        def _save_body_to_file(self, path, body):
            self.saved = (path, body)
    return C()

def ns(pkg, name):
    return importlib.import_module(pkg + '.' + name)

def method_source(client_py, name):
    src = open(client_py).read().split('\n')
    out, on = [], False
    for line in src:
        if line.startswith('    def '):
            on = line.startswith('    def %s(' % name)
        if on:
            out.append(line)
    return '\n'.join(out).rstrip()
