"""C14: a download-style route X also gets a helper method '<ns>_X_to_file'.
That name is not part of the route-name conflict check, so it can replace the
method of another route whose name underscores to 'X_to_file'."""
import sys
from _find_common import gen, load_client, method_source

pkg, client_py = gen({'ns1': '''
    namespace ns1
    struct ExportArg
        path String
    route ExportToFile(ExportArg, String, Void)
        "Server-side export into a file; plain rpc."
    route export(ExportArg, Void, Void)
        attrs
            style = "download"
'''})
c = load_client(pkg)
print('methods:', sorted(m for m in dir(c) if m.startswith('ns1_')))
print(method_source(client_py, 'ns1_export_to_file'))
bad = 0
try:
    res = c.ns1_export_to_file('/p')
    route = c.calls[-1][0]
    print('ns1_export_to_file("/p") sent route %r, returned %r' % (route.name, res))
    if route.name != 'ExportToFile' or res is not c.ret:
        bad = 1
except TypeError as e:
    bad = 1
    print('OBSERVED: ns1_export_to_file(path) raised TypeError: %s' % e)
    c.ns1_export_to_file('/local', '/p')
    print('OBSERVED: the surviving ns1_export_to_file is the download helper; it sends route %r. '
          'No method sends route ExportToFile.' % c.calls[-1][0].name)
print('EXPECTED: a method for route ExportToFile (params: path) returning the request result, '
      'or a generation-time conflict error')
sys.exit(bad)
