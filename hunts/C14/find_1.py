"""C14: an upload-style route whose argument struct has a field named `f`
(and a download-style route whose struct has a field named `download_path`)
makes the generated client unimportable: duplicate parameter names."""
import sys
from _find_common import gen, load_client, method_source

bad = 0
for title, spec, meth in [
    ('upload route, field "f"', '''
        namespace ns1
        struct UploadArg
            path String
            f Int32
        route upload(UploadArg, Void, Void)
            attrs
                style = "upload"
     ''', 'ns1_upload'),
    ('download route, field "download_path"', '''
        namespace ns1
        struct DlArg
            download_path String
        route fetch(DlArg, Void, Void)
            attrs
                style = "download"
     ''', 'ns1_fetch_to_file'),
]:
    pkg, client_py = gen({'ns1': spec})
    print('== %s' % title)
    print(method_source(client_py, meth).split('"""')[0])
    try:
        load_client(pkg)
        print('OK: client imported')
    except SyntaxError as e:
        bad += 1
        print('OBSERVED: importing the generated client raises SyntaxError: %s' % e)
        print('EXPECTED: client imports and offers %s(...) taking the upload body / path and every struct field' % meth)
sys.exit(1 if bad else 0)
