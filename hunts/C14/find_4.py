"""C14: method names are '<namespace>_<route>' with both parts underscored, so
routes of different namespaces can map to the same method name. Nothing checks
this (check_route_name_conflict is per namespace): the later definition silently
replaces the earlier one and one route has no method at all."""
import sys
from _find_common import gen, load_client, ns

pkg, client_py = gen({'team': '''
    namespace team
    struct MembersListArg
        limit Int32 = 5
    route members_list(MembersListArg, Void, Void)
''', 'team_members': '''
    namespace team_members
    struct ListArg
        cursor String
    route list(ListArg, String, Void)
'''})
c = load_client(pkg)
methods = sorted(m for m in dir(c) if m.startswith('team'))
print('routes: team.members_list(MembersListArg) and team_members.list(ListArg)')
print('generated methods:', methods)
bad = 0
if len(methods) != 2:
    bad = 1
    print('OBSERVED: %d method(s) for 2 routes; generation raised no error' % len(methods))
try:
    c.team_members_list()   # the call that should reach team.members_list
    route, nsname, arg, _ = c.calls[-1]
    print('team_members_list() sent route %r namespace %r arg %r' % (route.name, nsname, arg))
    if nsname != 'team':
        bad = 1
except TypeError as e:
    bad = 1
    print('OBSERVED: team_members_list() (= team.members_list with its default) raised TypeError: %s' % e)
    c.team_members_list('x')
    route, nsname, arg, _ = c.calls[-1]
    print("OBSERVED: the only method sends route %r of namespace %r; no method reaches team.members_list" % (route.name, nsname))
print('EXPECTED: one method per route (or a generation-time name-conflict error as for same-namespace conflicts)')
sys.exit(bad)
