"""C14: field names are emitted verbatim as Python parameter names. Stone
identifiers may contain dashes, so a field `my-field` (python_types calls it
my_field) yields `def m(self, my-field)` and the client does not import."""
import sys
from _find_common import gen, load_client, method_source

pkg, client_py = gen({'ns1': '''
    namespace ns1
    struct Arg
        my-field Int32
        page-size Int32 = 20
    route r(Arg, Void, Void)
'''})
print(method_source(client_py, 'ns1_r'))
try:
    c = load_client(pkg)
    c.ns1_r(1)
    print('OK', c.calls)
    sys.exit(0)
except SyntaxError as e:
    print('OBSERVED: importing the generated client raises SyntaxError: %s' % e)
    print("EXPECTED: ns1_r(my_field, page_size=20) issuing one request with Arg(my_field=..., page_size=...) "
          "(python_types accepts the spec and names the attributes my_field / page_size)")
    sys.exit(1)
