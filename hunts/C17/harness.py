"""Shared helpers for the C17 audit: compile specs, run the Swift / Obj-C
backends in-process, and lexically check the produced text."""
import json
import os
import re
import shutil
import sys
import tempfile
import traceback

sys.path.insert(0, os.path.dirname(os.path.abspath(__file__)))

from stone.frontend.frontend import specs_to_ir  # noqa: E402
from stone.compiler import Compiler, BackendException  # noqa: E402

CFG = """
namespace stone_cfg

struct Route
    auth String = "user"
    host String = "api"
    style String = "rpc"
"""

SWIFT_CLIENT_ARGS = {
    "upload": [
        ["upload", [["input", "input", "Data", "The file to upload."]]],
        ["upload", [["input", "input", "URL", "The file to upload."]]],
    ],
    "download": [
        ["download_file", [["overwrite", "overwrite", "Bool = false", "ow"],
                           ["destination", "destination", "URL", "dest"]]],
        ["download_memory", []],
    ],
}
SWIFT_STYLE = {
    "rpc": "RpcRequest", "upload": "UploadRequest",
    "download_file": "DownloadRequestFile",
    "download_memory": "DownloadRequestMemory",
}
OBJC_CLIENT_ARGS = {
    "upload": [
        ["upload", ["Data", [["inputData", "inputData", "NSData *", "The file."]]]],
        ["upload", ["Url", [["inputUrl", "inputUrl", "NSString *", "The file."]]]],
    ],
    "download": [
        ["download_url", ["Url", [["overwrite", "overwrite", "BOOL", "ow"],
                                  ["destination", "destination", "NSURL *", "d"]]]],
        ["download_data", ["Data", []]],
    ],
}
OBJC_STYLE = {
    "rpc": "DBRpcTask", "upload": "DBUploadTask",
    "download_url": "DBDownloadUrlTask", "download_data": "DBDownloadDataTask",
}

BACKENDS = {
    'swift_types': ('swift_types', []),
    'swift_types_objc': ('swift_types', ['--objc']),
    'swift_client': ('swift_client', [
        '-m', 'Base', '-c', 'DropboxBase', '-t', 'DropboxTransportClient',
        '-w', 'user',
        '-y', json.dumps(SWIFT_CLIENT_ARGS), '-z', json.dumps(SWIFT_STYLE)]),
    'swift_client_objc': ('swift_client', [
        '-m', 'Base', '-c', 'DropboxBase', '-t', 'DropboxTransportClient',
        '-w', 'user',
        '-y', json.dumps(SWIFT_CLIENT_ARGS), '-z', json.dumps(SWIFT_STYLE),
        '--objc']),
    'obj_c_types': ('obj_c_types', []),
    'obj_c_client': ('obj_c_client', [
        '-m', 'DBBase', '-c', 'DBBase', '-t', 'DBTransportClient',
        '-w', 'user',
        '-y', json.dumps(OBJC_CLIENT_ARGS), '-z', json.dumps(OBJC_STYLE)]),
}


def compile_specs(specs, with_cfg=True):
    """specs: list of spec texts (one per namespace file)."""
    items = [('s%d.stone' % i, t) for i, t in enumerate(specs)]
    if with_cfg:
        items.append(('stone_cfg.stone', CFG))
    return specs_to_ir(items)


def run_backend(key, specs, with_cfg=True, extra_args=None):
    """Returns (files: dict relpath->text, error: str or None)."""
    mod_name, args = BACKENDS[key]
    args = list(args) + list(extra_args or [])
    api = compile_specs(specs, with_cfg=with_cfg)
    mod = __import__('stone.backends.%s' % mod_name, fromlist=[''])
    out = tempfile.mkdtemp(prefix='c17_')
    err = None
    try:
        try:
            Compiler(api, mod, args, out).build()
        except BackendException as e:
            err = e.traceback
        except BaseException:  # noqa
            err = traceback.format_exc()
        files = {}
        for root, _, names in os.walk(out):
            for n in names:
                p = os.path.join(root, n)
                with open(p, encoding='utf-8') as f:
                    files[os.path.relpath(p, out)] = f.read()
        return files, err
    finally:
        shutil.rmtree(out, ignore_errors=True)


RSRC = {'StoneValidators.swift', 'StoneSerializers.swift', 'StoneBase.swift'}


def generated(files):
    return {k: v for k, v in files.items()
            if os.path.basename(k) not in RSRC and not k.startswith('Resources')}


def lex_check(text, lang):
    """Returns a list of lexical problems (unbalanced (), [], {}, unterminated
    strings / comments). lang in {'swift', 'objc'}."""
    problems = []
    stack = []
    i, n = 0, len(text)
    line = 1
    pairs = {')': '(', ']': '[', '}': '{'}
    while i < n:
        c = text[i]
        if c == '\n':
            line += 1
            i += 1
            continue
        if text.startswith('//', i):
            j = text.find('\n', i)
            i = n if j < 0 else j
            continue
        if text.startswith('/*', i):
            depth = 1
            j = i + 2
            while j < n and depth:
                if text.startswith('/*', j) and lang == 'swift':
                    depth += 1
                    j += 2
                elif text.startswith('*/', j):
                    depth -= 1
                    j += 2
                else:
                    if text[j] == '\n':
                        line += 1
                    j += 1
            if depth:
                problems.append('line %d: unterminated block comment' % line)
            i = j
            continue
        if c == '"':
            j = i + 1
            start_line = line
            closed = False
            while j < n:
                if text[j] == '\\':
                    j += 2
                    continue
                if text[j] == '\n':
                    break
                if text[j] == '"':
                    closed = True
                    break
                j += 1
            if not closed:
                problems.append('line %d: unterminated string literal: %r'
                                % (start_line, text[i:i + 60]))
                i = j
            else:
                i = j + 1
            continue
        if c == "'" and lang == 'objc':
            j = text.find("'", i + 1)
            k = text.find('\n', i + 1)
            if j < 0 or (0 <= k < j):
                problems.append('line %d: unterminated char literal' % line)
                i += 1
            else:
                i = j + 1
            continue
        if c in '([{':
            stack.append((c, line))
        elif c in ')]}':
            if not stack or stack[-1][0] != pairs[c]:
                problems.append('line %d: unmatched %r (open stack top: %r)'
                                % (line, c, stack[-1] if stack else None))
                if stack and any(s[0] == pairs[c] for s in stack):
                    while stack and stack[-1][0] != pairs[c]:
                        stack.pop()
                    stack.pop()
            else:
                stack.pop()
        i += 1
    for c, l in stack:
        problems.append('line %d: %r never closed' % (l, c))
    return problems


def lang_of(path):
    return 'swift' if path.endswith('.swift') else 'objc'


def lex_check_all(files):
    out = {}
    for p, t in generated(files).items():
        if p.endswith(('.swift', '.h', '.m')):
            pr = lex_check(t, lang_of(p))
            if pr:
                out[p] = pr
    return out


def run_all(specs, keys=None, with_cfg=True, show=False):
    """Run every backend; print exceptions and lexical problems. Returns
    dict key -> (files, err)."""
    res = {}
    for key in (keys or BACKENDS):
        files, err = run_backend(key, specs, with_cfg=with_cfg)
        res[key] = (files, err)
        if err:
            print('[%s] EXCEPTION: %s' % (key, err.strip().splitlines()[-1]))
            if show:
                print(err)
        for p, pr in lex_check_all(files).items():
            print('[%s] LEX %s: %s' % (key, p, pr[:3]))
    return res


def dump(res, outdir):
    for key, (files, err) in res.items():
        for p, t in generated(files).items():
            fp = os.path.join(outdir, key, p)
            os.makedirs(os.path.dirname(fp), exist_ok=True)
            with open(fp, 'w', encoding='utf-8') as f:
                f.write(t)
