"""
C17 finding 9: two distinct routes that the frontend accepts can map to the
same generated name (`foo:2` and `foo_v2` -> fooV2 / DBAFooV2; `get/x` and
`get_x` -> getX). swift_client (both modes) then aborts with RuntimeError from
check_route_name_conflict, while swift_types, obj_c_types and obj_c_client do
not check at all and declare the same route object / method twice.
"""
import json, os, re, shutil, sys, tempfile
sys.path.insert(0, os.path.dirname(os.path.abspath(__file__)))
from stone.frontend.frontend import specs_to_ir
from stone.compiler import Compiler, BackendException

CFG = '''
namespace stone_cfg
struct Route
    auth String = "user"
    host String = "api"
    style String = "rpc"
'''
SWIFT_CLIENT = ['-m', 'Base', '-c', 'DropboxBase', '-t', 'DropboxTransportClient', '-w', 'user',
    '-y', json.dumps({
        "upload": [["upload", [["input", "input", "Data", "The file."]]]],
        "download": [["download_file", [["destination", "destination", "URL", "d"]]],
                     ["download_memory", []]]}),
    '-z', json.dumps({"rpc": "RpcRequest", "upload": "UploadRequest",
                      "download_file": "DownloadRequestFile",
                      "download_memory": "DownloadRequestMemory"})]
OBJC_CLIENT = ['-m', 'DBBase', '-c', 'DBBase', '-t', 'DBTransportClient', '-w', 'user',
    '-y', json.dumps({
        "upload": [["upload", ["Data", [["inputData", "inputData", "NSData *", "The file."]]]]],
        "download": [["download_data", ["Data", []]]]}),
    '-z', json.dumps({"rpc": "DBRpcTask", "upload": "DBUploadTask",
                      "download_data": "DBDownloadDataTask"})]
BACKENDS = {
    'swift_types': ('swift_types', []),
    'swift_types --objc': ('swift_types', ['--objc']),
    'swift_client': ('swift_client', SWIFT_CLIENT),
    'swift_client --objc': ('swift_client', SWIFT_CLIENT + ['--objc']),
    'obj_c_types': ('obj_c_types', []),
    'obj_c_client': ('obj_c_client', OBJC_CLIENT),
}


def run(key, specs):
    """Compile the spec texts (the frontend must accept them) and run one backend.
    Returns (files: relpath -> text, error: last traceback line or None)."""
    api = specs_to_ir([('s%d.stone' % i, t) for i, t in enumerate(specs)] +
                      [('stone_cfg.stone', CFG)])
    mod_name, args = BACKENDS[key]
    mod = __import__('stone.backends.' + mod_name, fromlist=[''])
    out = tempfile.mkdtemp(prefix='c17_')
    err = None
    try:
        try:
            Compiler(api, mod, list(args), out).build()
        except BackendException as e:
            err = e.traceback.strip().splitlines()[-1]
        files = {}
        for root, _, names in os.walk(out):
            for n in names:
                if n in ('StoneBase.swift', 'StoneSerializers.swift', 'StoneValidators.swift') \
                        or os.path.basename(root) == 'Resources':
                    continue
                p = os.path.join(root, n)
                with open(p, encoding='utf-8') as f:
                    files[os.path.relpath(p, out)] = f.read()
        return files, err
    finally:
        shutil.rmtree(out, ignore_errors=True)


failures = []


def fail(msg):
    failures.append(msg)
    print('VIOLATION: ' + msg)


def finish():
    if failures:
        print('\n%d violation(s) of C17 observed.' % len(failures))
        sys.exit(1)
    print('no violation observed')
    sys.exit(0)

CASES = {
    'foo:2 + foo_v2': ('''
namespace a
route foo:2(Void, Void, Void)
route foo_v2(Void, Void, Void)
''', 'fooV2', 'DBAFooV2'),
    'get/x + get_x': ('''
namespace a
route get/x(Void, Void, Void)
route get_x(Void, Void, Void)
''', 'getX', 'DBAGetX'),
}
for name, (spec, swift_name, objc_name) in CASES.items():
    print('---', name)
    for key in BACKENDS:
        files, err = run(key, [spec])
        if err:
            fail('%s: %s did not complete: %s' % (name, key, err))
            continue
        for path, text in sorted(files.items()):
            code = re.sub(r'//[^\n]*', '', text)
            for pat, what in [
                (r'^\s*static let %s = Route\(' % swift_name, 'static let %s' % swift_name),
                (r'^\+ \(DBRoute \*\)%s;' % objc_name, '+ (DBRoute *)%s;' % objc_name),
                (r'^\+ \(DBRoute \*\)%s \{' % objc_name, '+ (DBRoute *)%s {...}' % objc_name),
                (r'^static DBRoute \*%s;' % objc_name, 'static DBRoute *%s;' % objc_name),
                (r'^- \(DBRpcTask[^)]*\)%s;' % swift_name, '- (DBRpcTask...)%s;' % swift_name),
                (r'^- \(DBRpcTask[^)]*\)%s \{' % swift_name, '- (DBRpcTask *)%s {...}' % swift_name),
            ]:
                n = len(re.findall(pat, code, flags=re.M))
                if n > 1:
                    fail('%s: %s %s declares `%s` %d times (expected once per route under '
                         'distinct names)' % (name, key, path, what, n))
finish()
