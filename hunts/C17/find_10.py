"""
C17 finding 10: names the backends derive (serializer classes, per-tag wrapper
classes, fixed helper members) are not kept apart from user names, so accepted
specs yield duplicate declarations:
 (a) struct Foo + struct FooSerializer: Foo's serializer and the second struct
     are both `FooSerializer` (swift_types) / `DBAFooSerializer` (obj_c_types).
 (b) swift_types --objc: union U member `foo` and struct UFoo both become class
     DBXAUFoo.
 (c) swift_types --objc: a struct field named `swift` collides with the
     wrapper's own stored property `swift`; swift_types: a field named `json`
     collides with the generated `func json()`. (`description`, `hash`,
     `client` are in swift_helpers._reserved_words; `swift`/`json` are not.)
"""
import json, os, re, shutil, sys, tempfile
sys.path.insert(0, os.path.dirname(os.path.abspath(__file__)))
from stone.frontend.frontend import specs_to_ir
from stone.compiler import Compiler, BackendException

CFG = '''
namespace stone_cfg
struct Route
    auth String = "user"
    host String = "api"
    style String = "rpc"
'''
SWIFT_CLIENT = ['-m', 'Base', '-c', 'DropboxBase', '-t', 'DropboxTransportClient', '-w', 'user',
    '-y', json.dumps({
        "upload": [["upload", [["input", "input", "Data", "The file."]]]],
        "download": [["download_file", [["destination", "destination", "URL", "d"]]],
                     ["download_memory", []]]}),
    '-z', json.dumps({"rpc": "RpcRequest", "upload": "UploadRequest",
                      "download_file": "DownloadRequestFile",
                      "download_memory": "DownloadRequestMemory"})]
OBJC_CLIENT = ['-m', 'DBBase', '-c', 'DBBase', '-t', 'DBTransportClient', '-w', 'user',
    '-y', json.dumps({
        "upload": [["upload", ["Data", [["inputData", "inputData", "NSData *", "The file."]]]]],
        "download": [["download_data", ["Data", []]]]}),
    '-z', json.dumps({"rpc": "DBRpcTask", "upload": "DBUploadTask",
                      "download_data": "DBDownloadDataTask"})]
BACKENDS = {
    'swift_types': ('swift_types', []),
    'swift_types --objc': ('swift_types', ['--objc']),
    'swift_client': ('swift_client', SWIFT_CLIENT),
    'swift_client --objc': ('swift_client', SWIFT_CLIENT + ['--objc']),
    'obj_c_types': ('obj_c_types', []),
    'obj_c_client': ('obj_c_client', OBJC_CLIENT),
}


def run(key, specs):
    """Compile the spec texts (the frontend must accept them) and run one backend.
    Returns (files: relpath -> text, error: last traceback line or None)."""
    api = specs_to_ir([('s%d.stone' % i, t) for i, t in enumerate(specs)] +
                      [('stone_cfg.stone', CFG)])
    mod_name, args = BACKENDS[key]
    mod = __import__('stone.backends.' + mod_name, fromlist=[''])
    out = tempfile.mkdtemp(prefix='c17_')
    err = None
    try:
        try:
            Compiler(api, mod, list(args), out).build()
        except BackendException as e:
            err = e.traceback.strip().splitlines()[-1]
        files = {}
        for root, _, names in os.walk(out):
            for n in names:
                if n in ('StoneBase.swift', 'StoneSerializers.swift', 'StoneValidators.swift') \
                        or os.path.basename(root) == 'Resources':
                    continue
                p = os.path.join(root, n)
                with open(p, encoding='utf-8') as f:
                    files[os.path.relpath(p, out)] = f.read()
        return files, err
    finally:
        shutil.rmtree(out, ignore_errors=True)


failures = []


def fail(msg):
    failures.append(msg)
    print('VIOLATION: ' + msg)


def finish():
    if failures:
        print('\n%d violation(s) of C17 observed.' % len(failures))
        sys.exit(1)
    print('no violation observed')
    sys.exit(0)

def count(pat, text):
    return len(re.findall(pat, re.sub(r'//[^\n]*', '', text), flags=re.M))


# (a)
SPEC_A = '''
namespace a
struct Foo
    x String
struct FooSerializer
    y String
'''
files, err = run('swift_types', [SPEC_A])
n = count(r'^    public class FooSerializer\b', files['A.swift'])
print('(a) swift_types: `public class FooSerializer` x%d' % n)
if err or n != 1:
    fail('(a) swift_types A.swift declares class FooSerializer %d times (expected 1) %s' % (n, err or ''))
files, err = run('obj_c_types', [SPEC_A])
n = sum(count(r'^@interface DBAFooSerializer\b', t) for t in files.values())
print('(a) obj_c_types: `@interface DBAFooSerializer` x%d' % n)
if err or n != 1:
    fail('(a) obj_c_types declares @interface DBAFooSerializer %d times (expected 1) %s' % (n, err or ''))

# (b)
SPEC_B = '''
namespace a
union U
    foo String
struct UFoo
    y String
'''
files, err = run('swift_types --objc', [SPEC_B])
n = count(r'^public class DBXAUFoo\b', files['DBXA.swift'])
print('(b) swift_types --objc: `public class DBXAUFoo` x%d' % n)
if err or n != 1:
    fail('(b) swift_types --objc DBXA.swift declares class DBXAUFoo %d times (expected 1) %s' % (n, err or ''))

# (c)
SPEC_C = '''
namespace a
struct S
    swift String
    json String
'''
files, err = run('swift_types --objc', [SPEC_C])
body = files['DBXA.swift']
n = count(r'^    (?:public var|let) swift:', body)
print('(c) swift_types --objc: members named `swift` in DBXAS x%d' % n)
for l in body.splitlines():
    if re.match(r'\s+(public var|let) swift:', l):
        print('      ' + l.strip())
if err or n != 1:
    fail('(c) swift_types --objc class DBXAS declares member `swift` %d times (expected 1) %s' % (n, err or ''))
files, err = run('swift_types', [SPEC_C])
body = files['A.swift']
cls = body[body.index('public class S:'):body.index('public class SSerializer')]
n = count(r'^        public let json:', cls) + count(r'^        func json\(\)', cls)
print('(c) swift_types: members named `json` in A.S x%d' % n)
if err or n != 1:
    fail('(c) swift_types class A.S declares member `json` %d times (`public let json` and '
         '`func json()`; expected 1) %s' % (n, err or ''))
finish()
