"""
C17 finding 1: obj_c_client raises AttributeError for a route whose argument is
a primitive, List, Map or nullable type (the frontend accepts such routes and the other
five backend configurations handle them).
"""
import json, os, re, shutil, sys, tempfile
sys.path.insert(0, os.path.dirname(os.path.abspath(__file__)))
from stone.frontend.frontend import specs_to_ir
from stone.compiler import Compiler, BackendException

CFG = '''
namespace stone_cfg
struct Route
    auth String = "user"
    host String = "api"
    style String = "rpc"
'''
SWIFT_CLIENT = ['-m', 'Base', '-c', 'DropboxBase', '-t', 'DropboxTransportClient', '-w', 'user',
    '-y', json.dumps({
        "upload": [["upload", [["input", "input", "Data", "The file."]]]],
        "download": [["download_file", [["destination", "destination", "URL", "d"]]],
                     ["download_memory", []]]}),
    '-z', json.dumps({"rpc": "RpcRequest", "upload": "UploadRequest",
                      "download_file": "DownloadRequestFile",
                      "download_memory": "DownloadRequestMemory"})]
OBJC_CLIENT = ['-m', 'DBBase', '-c', 'DBBase', '-t', 'DBTransportClient', '-w', 'user',
    '-y', json.dumps({
        "upload": [["upload", ["Data", [["inputData", "inputData", "NSData *", "The file."]]]]],
        "download": [["download_data", ["Data", []]]]}),
    '-z', json.dumps({"rpc": "DBRpcTask", "upload": "DBUploadTask",
                      "download_data": "DBDownloadDataTask"})]
BACKENDS = {
    'swift_types': ('swift_types', []),
    'swift_types --objc': ('swift_types', ['--objc']),
    'swift_client': ('swift_client', SWIFT_CLIENT),
    'swift_client --objc': ('swift_client', SWIFT_CLIENT + ['--objc']),
    'obj_c_types': ('obj_c_types', []),
    'obj_c_client': ('obj_c_client', OBJC_CLIENT),
}


def run(key, specs):
    """Compile the spec texts (the frontend must accept them) and run one backend.
    Returns (files: relpath -> text, error: last traceback line or None)."""
    api = specs_to_ir([('s%d.stone' % i, t) for i, t in enumerate(specs)] +
                      [('stone_cfg.stone', CFG)])
    mod_name, args = BACKENDS[key]
    mod = __import__('stone.backends.' + mod_name, fromlist=[''])
    out = tempfile.mkdtemp(prefix='c17_')
    err = None
    try:
        try:
            Compiler(api, mod, list(args), out).build()
        except BackendException as e:
            err = e.traceback.strip().splitlines()[-1]
        files = {}
        for root, _, names in os.walk(out):
            for n in names:
                if n in ('StoneBase.swift', 'StoneSerializers.swift', 'StoneValidators.swift') \
                        or os.path.basename(root) == 'Resources':
                    continue
                p = os.path.join(root, n)
                with open(p, encoding='utf-8') as f:
                    files[os.path.relpath(p, out)] = f.read()
        return files, err
    finally:
        shutil.rmtree(out, ignore_errors=True)


failures = []


def fail(msg):
    failures.append(msg)
    print('VIOLATION: ' + msg)


def finish():
    if failures:
        print('\n%d violation(s) of C17 observed.' % len(failures))
        sys.exit(1)
    print('no violation observed')
    sys.exit(0)

CASES = {
    'String arg': '''
namespace a
route r(String, Void, Void)
''',
    'List(struct) arg': '''
namespace a
struct S
    x String
route r(List(S), Void, Void)
''',
    'Map arg': '''
namespace a
struct S
    x String
route r(Map(String, S), Void, Void)
''',
    'nullable struct arg': '''
namespace a
struct S
    x String
route r(S?, Void, Void)
''',
}
for name, spec in CASES.items():
    for key in BACKENDS:
        files, err = run(key, [spec])
        print('%-18s %-20s -> %s' % (name, key, err or 'ok (%d files)' % len(files)))
        if err:
            fail('%s with %s: expected the backend to complete, observed %s' % (key, name, err))
finish()
