"""
C17 finding 4: swift_client qualifies a union-typed route argument with the
ROUTE's namespace instead of the union's own namespace, so a route whose
argument is a union imported from another namespace refers to a type
(`A.U`) that no generated file declares (only `B.U` exists).
"""
import json, os, re, shutil, sys, tempfile
sys.path.insert(0, os.path.dirname(os.path.abspath(__file__)))
from stone.frontend.frontend import specs_to_ir
from stone.compiler import Compiler, BackendException

CFG = '''
namespace stone_cfg
struct Route
    auth String = "user"
    host String = "api"
    style String = "rpc"
'''
SWIFT_CLIENT = ['-m', 'Base', '-c', 'DropboxBase', '-t', 'DropboxTransportClient', '-w', 'user',
    '-y', json.dumps({
        "upload": [["upload", [["input", "input", "Data", "The file."]]]],
        "download": [["download_file", [["destination", "destination", "URL", "d"]]],
                     ["download_memory", []]]}),
    '-z', json.dumps({"rpc": "RpcRequest", "upload": "UploadRequest",
                      "download_file": "DownloadRequestFile",
                      "download_memory": "DownloadRequestMemory"})]
OBJC_CLIENT = ['-m', 'DBBase', '-c', 'DBBase', '-t', 'DBTransportClient', '-w', 'user',
    '-y', json.dumps({
        "upload": [["upload", ["Data", [["inputData", "inputData", "NSData *", "The file."]]]]],
        "download": [["download_data", ["Data", []]]]}),
    '-z', json.dumps({"rpc": "DBRpcTask", "upload": "DBUploadTask",
                      "download_data": "DBDownloadDataTask"})]
BACKENDS = {
    'swift_types': ('swift_types', []),
    'swift_types --objc': ('swift_types', ['--objc']),
    'swift_client': ('swift_client', SWIFT_CLIENT),
    'swift_client --objc': ('swift_client', SWIFT_CLIENT + ['--objc']),
    'obj_c_types': ('obj_c_types', []),
    'obj_c_client': ('obj_c_client', OBJC_CLIENT),
}


def run(key, specs):
    """Compile the spec texts (the frontend must accept them) and run one backend.
    Returns (files: relpath -> text, error: last traceback line or None)."""
    api = specs_to_ir([('s%d.stone' % i, t) for i, t in enumerate(specs)] +
                      [('stone_cfg.stone', CFG)])
    mod_name, args = BACKENDS[key]
    mod = __import__('stone.backends.' + mod_name, fromlist=[''])
    out = tempfile.mkdtemp(prefix='c17_')
    err = None
    try:
        try:
            Compiler(api, mod, list(args), out).build()
        except BackendException as e:
            err = e.traceback.strip().splitlines()[-1]
        files = {}
        for root, _, names in os.walk(out):
            for n in names:
                if n in ('StoneBase.swift', 'StoneSerializers.swift', 'StoneValidators.swift') \
                        or os.path.basename(root) == 'Resources':
                    continue
                p = os.path.join(root, n)
                with open(p, encoding='utf-8') as f:
                    files[os.path.relpath(p, out)] = f.read()
        return files, err
    finally:
        shutil.rmtree(out, ignore_errors=True)


failures = []


def fail(msg):
    failures.append(msg)
    print('VIOLATION: ' + msg)


def finish():
    if failures:
        print('\n%d violation(s) of C17 observed.' % len(failures))
        sys.exit(1)
    print('no violation observed')
    sys.exit(0)

B = '''
namespace b
union U
    x
    y String
'''
A = '''
namespace a
import b
route r(b.U, Void, Void)
'''
types, err = run('swift_types', [B, A])
assert not err, err
declared = set()
for path, text in types.items():
    ns = os.path.basename(path)[:-len('.swift')]
    for name in re.findall(r'^    public (?:class|enum) (\w+)', text, flags=re.M):
        declared.add('%s.%s' % (ns, name))
print('declared by swift_types:', sorted(declared))
for key in ('swift_client', 'swift_client --objc'):
    files, err = run(key, [B, A])
    if err:
        fail('%s raised %s' % (key, err))
    for path, text in sorted(files.items()):
        code = re.sub(r'//[^\n]*', '', text)
        for ref in sorted(set(re.findall(r'\b(?:A|B)\.[A-Z]\w*', code))):
            if ref not in declared:
                line = [l.strip() for l in text.splitlines() if ref in l and not l.strip().startswith('//')][0]
                fail('%s %s uses %s, which is not declared (expected B.U): %s'
                     % (key, path, ref, line))
finish()
