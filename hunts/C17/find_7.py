"""
C17 finding 7: obj_c_types / obj_c_client use generated class names in files
that neither @class-declare, #import nor define them.
 (a) obj_c.py _get_namespace_route_imports only unpacks List, never Map, so a
     type reached through Map(...) in a route argument field or result is
     missing from Routes/*.h, Routes/*.m and RouteObjects/*.m.
 (b) _get_imports_h / _get_imports_m unwrap Nullable only at the outermost
     level, so List(T?) / Map(String, T?) element types are missing from the
     struct / union header and (for a foreign namespace) the .m file.
"""
import json, os, re, shutil, sys, tempfile
sys.path.insert(0, os.path.dirname(os.path.abspath(__file__)))
from stone.frontend.frontend import specs_to_ir
from stone.compiler import Compiler, BackendException

CFG = '''
namespace stone_cfg
struct Route
    auth String = "user"
    host String = "api"
    style String = "rpc"
'''
SWIFT_CLIENT = ['-m', 'Base', '-c', 'DropboxBase', '-t', 'DropboxTransportClient', '-w', 'user',
    '-y', json.dumps({
        "upload": [["upload", [["input", "input", "Data", "The file."]]]],
        "download": [["download_file", [["destination", "destination", "URL", "d"]]],
                     ["download_memory", []]]}),
    '-z', json.dumps({"rpc": "RpcRequest", "upload": "UploadRequest",
                      "download_file": "DownloadRequestFile",
                      "download_memory": "DownloadRequestMemory"})]
OBJC_CLIENT = ['-m', 'DBBase', '-c', 'DBBase', '-t', 'DBTransportClient', '-w', 'user',
    '-y', json.dumps({
        "upload": [["upload", ["Data", [["inputData", "inputData", "NSData *", "The file."]]]]],
        "download": [["download_data", ["Data", []]]]}),
    '-z', json.dumps({"rpc": "DBRpcTask", "upload": "DBUploadTask",
                      "download_data": "DBDownloadDataTask"})]
BACKENDS = {
    'swift_types': ('swift_types', []),
    'swift_types --objc': ('swift_types', ['--objc']),
    'swift_client': ('swift_client', SWIFT_CLIENT),
    'swift_client --objc': ('swift_client', SWIFT_CLIENT + ['--objc']),
    'obj_c_types': ('obj_c_types', []),
    'obj_c_client': ('obj_c_client', OBJC_CLIENT),
}


def run(key, specs):
    """Compile the spec texts (the frontend must accept them) and run one backend.
    Returns (files: relpath -> text, error: last traceback line or None)."""
    api = specs_to_ir([('s%d.stone' % i, t) for i, t in enumerate(specs)] +
                      [('stone_cfg.stone', CFG)])
    mod_name, args = BACKENDS[key]
    mod = __import__('stone.backends.' + mod_name, fromlist=[''])
    out = tempfile.mkdtemp(prefix='c17_')
    err = None
    try:
        try:
            Compiler(api, mod, list(args), out).build()
        except BackendException as e:
            err = e.traceback.strip().splitlines()[-1]
        files = {}
        for root, _, names in os.walk(out):
            for n in names:
                if n in ('StoneBase.swift', 'StoneSerializers.swift', 'StoneValidators.swift') \
                        or os.path.basename(root) == 'Resources':
                    continue
                p = os.path.join(root, n)
                with open(p, encoding='utf-8') as f:
                    files[os.path.relpath(p, out)] = f.read()
        return files, err
    finally:
        shutil.rmtree(out, ignore_errors=True)


failures = []


def fail(msg):
    failures.append(msg)
    print('VIOLATION: ' + msg)


def finish():
    if failures:
        print('\n%d violation(s) of C17 observed.' % len(failures))
        sys.exit(1)
    print('no violation observed')
    sys.exit(0)

B = '''
namespace b
struct T
    g String
struct M
    g String
struct R
    g String
'''
A = '''
namespace a
import b
struct S
    a List(b.T?)
    m Map(String, b.M)
route r(S, Map(String, b.R), Void)
'''
USER = {'DBBT', 'DBBM', 'DBBR', 'DBAS'}


def check(key):
    files, err = run(key, [B, A])
    if err:
        fail('%s raised %s' % (key, err))
    for path, text in sorted(files.items()):
        if path.endswith('DBSDKImportsGenerated.h') or not path.endswith(('.h', '.m')):
            continue
        avail = set(re.findall(r'#import "(\w+)\.h"', text))
        code = re.sub(r'//[^\n]*', '', text)
        avail |= set(re.findall(r'^@class (\w+);', code, flags=re.M))
        avail |= set(re.findall(r'^@(?:interface|implementation) (\w+)', code, flags=re.M))
        for tok in sorted(set(re.findall(r'\bDB[AB][A-Z]\w*', code))):
            base = tok[:-len('Serializer')] if tok.endswith('Serializer') else tok
            if base in USER and base not in avail:
                line = [l.strip() for l in code.splitlines() if tok in l][0]
                fail('%s %s uses %s but never declares/imports %s: %s'
                     % (key, path, tok, base, line[:150]))


check('obj_c_types')
check('obj_c_client')
finish()
