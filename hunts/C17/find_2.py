"""
C17 finding 2: swift_client --objc raises AttributeError for a route whose
error type is not a user-defined type (String, List(...), a nullable union, ...). The plain
swift_client and all other backends complete on the same spec.
"""
import json, os, re, shutil, sys, tempfile
sys.path.insert(0, os.path.dirname(os.path.abspath(__file__)))
from stone.frontend.frontend import specs_to_ir
from stone.compiler import Compiler, BackendException

CFG = '''
namespace stone_cfg
struct Route
    auth String = "user"
    host String = "api"
    style String = "rpc"
'''
SWIFT_CLIENT = ['-m', 'Base', '-c', 'DropboxBase', '-t', 'DropboxTransportClient', '-w', 'user',
    '-y', json.dumps({
        "upload": [["upload", [["input", "input", "Data", "The file."]]]],
        "download": [["download_file", [["destination", "destination", "URL", "d"]]],
                     ["download_memory", []]]}),
    '-z', json.dumps({"rpc": "RpcRequest", "upload": "UploadRequest",
                      "download_file": "DownloadRequestFile",
                      "download_memory": "DownloadRequestMemory"})]
OBJC_CLIENT = ['-m', 'DBBase', '-c', 'DBBase', '-t', 'DBTransportClient', '-w', 'user',
    '-y', json.dumps({
        "upload": [["upload", ["Data", [["inputData", "inputData", "NSData *", "The file."]]]]],
        "download": [["download_data", ["Data", []]]]}),
    '-z', json.dumps({"rpc": "DBRpcTask", "upload": "DBUploadTask",
                      "download_data": "DBDownloadDataTask"})]
BACKENDS = {
    'swift_types': ('swift_types', []),
    'swift_types --objc': ('swift_types', ['--objc']),
    'swift_client': ('swift_client', SWIFT_CLIENT),
    'swift_client --objc': ('swift_client', SWIFT_CLIENT + ['--objc']),
    'obj_c_types': ('obj_c_types', []),
    'obj_c_client': ('obj_c_client', OBJC_CLIENT),
}


def run(key, specs):
    """Compile the spec texts (the frontend must accept them) and run one backend.
    Returns (files: relpath -> text, error: last traceback line or None)."""
    api = specs_to_ir([('s%d.stone' % i, t) for i, t in enumerate(specs)] +
                      [('stone_cfg.stone', CFG)])
    mod_name, args = BACKENDS[key]
    mod = __import__('stone.backends.' + mod_name, fromlist=[''])
    out = tempfile.mkdtemp(prefix='c17_')
    err = None
    try:
        try:
            Compiler(api, mod, list(args), out).build()
        except BackendException as e:
            err = e.traceback.strip().splitlines()[-1]
        files = {}
        for root, _, names in os.walk(out):
            for n in names:
                if n in ('StoneBase.swift', 'StoneSerializers.swift', 'StoneValidators.swift') \
                        or os.path.basename(root) == 'Resources':
                    continue
                p = os.path.join(root, n)
                with open(p, encoding='utf-8') as f:
                    files[os.path.relpath(p, out)] = f.read()
        return files, err
    finally:
        shutil.rmtree(out, ignore_errors=True)


failures = []


def fail(msg):
    failures.append(msg)
    print('VIOLATION: ' + msg)


def finish():
    if failures:
        print('\n%d violation(s) of C17 observed.' % len(failures))
        sys.exit(1)
    print('no violation observed')
    sys.exit(0)

CASES = {
    'String error': '''
namespace a
route r(Void, Void, String)
''',
    'List error': '''
namespace a
struct S
    x String
route r(S, S, List(S))
''',
    'nullable union error': '''
namespace a
union U
    x
route r(Void, Void, U?)
''',
}
for name, spec in CASES.items():
    for key in BACKENDS:
        files, err = run(key, [spec])
        print('%-14s %-20s -> %s' % (name, key, err or 'ok (%d files)' % len(files)))
        if err:
            fail('%s with %s: expected the backend to complete, observed %s' % (key, name, err))
finish()
