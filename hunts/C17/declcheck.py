"""Declaration checks for generated Swift / Obj-C output, using the backends'
own naming helpers as the naming scheme."""
import re
from collections import Counter

from stone.ir import is_struct_type, is_union_type, is_void_type
from stone.backends import swift_helpers as sh
from stone.backends import obj_c_helpers as oh
from harness import generated, compile_specs


def strip_comments_strings(text):
    text = re.sub(r'//[^\n]*', '', text)
    text = re.sub(r'"(?:\\.|[^"\\\n])*"', '""', text)
    return text


def _count(pattern, text):
    return len(re.findall(pattern, text, flags=re.M))


def check_swift_types(api, files):
    probs = []
    files = generated(files)
    ns_classes = {sh.fmt_class(ns.name): ns for ns in api.namespaces.values()}
    declared = {}  # ns class -> set of declared nested names
    for ns in api.namespaces.values():
        nsc = sh.fmt_class(ns.name)
        fn = nsc + '.swift'
        if fn not in files:
            probs.append('namespace %s: file %s missing' % (ns.name, fn))
            continue
        text = strip_comments_strings(files[fn])
        c = _count(r'^public class %s \{' % re.escape(nsc), text)
        if c != 1:
            probs.append('namespace class %s declared %d times' % (nsc, c))
        names = Counter(re.findall(r'^    public (?:class|enum) (\w+)', text, flags=re.M))
        declared[nsc] = set(names)
        for dt in ns.linearize_data_types():
            n = sh.fmt_class(dt.name)
            for nm in (n, n + 'Serializer'):
                if names.get(nm, 0) != 1:
                    probs.append('%s.%s declared %d times' % (nsc, nm, names.get(nm, 0)))
            # body of the type
            m = re.search(r'^    public (?:class|enum) %s[:\s].*?^    \}' % re.escape(n), text, flags=re.M | re.S)
            body = m.group(0) if m else ''
            if is_struct_type(dt):
                for f in dt.fields:
                    v = sh.fmt_var(f.name)
                    c = _count(r'^        public let %s:' % re.escape(v), body)
                    if c != 1:
                        probs.append('%s.%s field %s declared %d times' % (nsc, n, v, c))
            else:
                for f in dt.all_fields:
                    v = sh.fmt_var(f.name)
                    c = _count(r'^        case %s\b' % re.escape(v), body)
                    if c != 1:
                        probs.append('%s.%s tag %s declared %d times' % (nsc, n, v, c))
        for r in ns.routes:
            v = sh.fmt_func(r.name, r.version)
            c = _count(r'^    static let %s = Route\(' % re.escape(v), text)
            if c != 1:
                probs.append('%s route %s declared %d times' % (nsc, v, c))
    # undeclared qualified names
    for fn, raw in files.items():
        text = strip_comments_strings(raw)
        for a, b in re.findall(r'\b([A-Z]\w*)\.([A-Z]\w*)\b', text):
            if a in ns_classes and a in declared and b not in declared[a]:
                probs.append('%s uses undeclared %s.%s' % (fn, a, b))
    return sorted(set(probs))


def swift_declared_types(api):
    d = {}
    for ns in api.namespaces.values():
        nsc = sh.fmt_class(ns.name)
        s = set()
        for dt in ns.linearize_data_types():
            n = sh.fmt_class(dt.name)
            s.add(n)
            s.add(n + 'Serializer')
        d[nsc] = s
    return d


def check_swift_qualified(api, files, extra_ns=()):
    """Any Ns.Type reference must name a declared type (works for client files)."""
    probs = []
    declared = swift_declared_types(api)
    for fn, raw in generated(files).items():
        text = strip_comments_strings(raw)
        for a, b in re.findall(r'\b([A-Z]\w*)\.([A-Z]\w*)\b', text):
            if a in declared and b not in declared[a]:
                probs.append('%s uses undeclared %s.%s' % (fn, a, b))
    return sorted(set(probs))


SWIFT_OBJC_RUNTIME = {'DBXRequest', 'DBXCallError', 'DBXDropboxTransportClient',
                      'DBXDropboxBase', 'DBXDropboxBaseRequestBox'}


def check_swift_objc(api, type_files, client_files=None):
    probs = []
    decl = Counter()
    alltext = ''
    for fn, raw in list(generated(type_files).items()) + list(generated(client_files or {}).items()):
        text = strip_comments_strings(raw)
        alltext += text
        decl.update(re.findall(r'^public class (\w+)', text, flags=re.M))
    for ns in api.namespaces.values():
        nsc = sh.fmt_class(ns.name)
        for dt in ns.linearize_data_types():
            n = 'DBX' + nsc + sh.fmt_class(dt.name)
            if decl.get(n, 0) != 1:
                probs.append('%s declared %d times' % (n, decl.get(n, 0)))
            if is_union_type(dt):
                for f in dt.all_fields:
                    fn_ = n + sh.fmt_class(f.name)
                    if decl.get(fn_, 0) != 1:
                        probs.append('%s declared %d times' % (fn_, decl.get(fn_, 0)))
    for nm, c in decl.items():
        if c > 1:
            probs.append('%s declared %d times' % (nm, c))
    for tok in set(re.findall(r'\bDBX\w+', alltext)):
        if tok not in decl and tok not in SWIFT_OBJC_RUNTIME and not tok.endswith('Routes'):
            probs.append('undeclared %s' % tok)
    probs += check_swift_qualified(api, type_files)
    if client_files:
        probs += check_swift_qualified(api, client_files)
    return sorted(set(probs))


OBJC_RUNTIME = {'DBStoneSerializers', 'DBStoneValidators', 'DBStoneBase', 'DBSerializable',
                'DBSerializableProtocol', 'DBRoute', 'DBRequestErrors', 'DBNilObject',
                'DBTasks', 'DBTransportClient', 'DBTransportClientProtocol', 'DBBase',
                'DBBoolSerializer', 'DBStringSerializer', 'DBNSNumberSerializer',
                'DBArraySerializer', 'DBMapSerializer', 'DBNSDateSerializer',
                'DBRpcTask', 'DBUploadTask', 'DBDownloadUrlTask', 'DBDownloadDataTask',
                'DBSDKImportsGenerated'}


def check_objc(api, type_files, client_files=None):
    probs = []
    iface = Counter()
    impl = Counter()
    alltext = ''
    files = dict(generated(type_files))
    files.update(generated(client_files or {}))
    for fn, raw in files.items():
        text = strip_comments_strings(raw)
        alltext += text
        iface.update(re.findall(r'^@interface (\w+)', text, flags=re.M))
        impl.update(re.findall(r'^@implementation (\w+)', text, flags=re.M))
    enum_members = Counter()
    enum_types = Counter()
    for fn, raw in files.items():
        text = strip_comments_strings(raw)
        for m in re.finditer(r'typedef NS_CLOSED_ENUM\(NSInteger, (\w+)\) \{(.*?)\};', text, flags=re.S):
            enum_types[m.group(1)] += 1
            enum_members.update(re.findall(r'^\s*(\w+),', m.group(2), flags=re.M))
    for ns in api.namespaces.values():
        for dt in ns.linearize_data_types():
            n = oh.fmt_class_prefix(dt)
            for nm in (n, n + 'Serializer'):
                if iface.get(nm, 0) != 1:
                    probs.append('@interface %s declared %d times' % (nm, iface.get(nm, 0)))
                if impl.get(nm, 0) != 1:
                    probs.append('@implementation %s defined %d times' % (nm, impl.get(nm, 0)))
            hdr = [v for k, v in files.items() if k.endswith('/' + n + '.h')]
            htext = strip_comments_strings(hdr[0]) if hdr else ''
            fields = dt.fields if is_struct_type(dt) else [f for f in dt.all_fields if not is_void_type(f.data_type)]
            for f in fields:
                v = oh.fmt_var(f.name)
                c = _count(r'^@property \([^)]*\) [^;]*\b%s;' % re.escape(v), htext)
                if c != 1:
                    probs.append('%s property %s declared %d times' % (n, v, c))
            if is_union_type(dt):
                for f in dt.all_fields:
                    e = oh.fmt_enum_name(f.name, dt)
                    c = enum_members.get(e, 0) + enum_types.get(e, 0)
                    if c != 1:
                        probs.append('%s enum name %s declared %d times' % (n, e, c))
        if ns.routes:
            ro = oh.fmt_route_obj_class(ns.name)
            h = [v for k, v in files.items() if k.endswith('/' + ro + '.h')]
            htext = strip_comments_strings(h[0]) if h else ''
            for r in ns.routes:
                v = oh.fmt_route_var(ns.name, r)
                c = _count(r'^\+ \(DBRoute \*\)%s;' % re.escape(v), htext)
                if c != 1:
                    probs.append('route object %s declared %d times' % (v, c))
    for nm, c in list(iface.items()):
        if c > 1:
            probs.append('@interface %s declared %d times' % (nm, c))
    known = set(iface) | set(enum_types) | set(enum_members) | OBJC_RUNTIME
    for ns in api.namespaces.values():
        for r in ns.routes:
            known.add(oh.fmt_route_var(ns.name, r))
    for tok in set(re.findall(r'\bDB[A-Z0-9]\w*', alltext)):
        if tok not in known and not tok.endswith('AuthRoutes') and not tok.endswith('RouteObjects'):
            # route vars
            probs.append('undeclared? %s' % tok)
    return sorted(set(probs))


def check_objc_file_imports(api, files):
    """Every generated user class named in a file must be @class-declared,
    #import-ed (header of that class or of its serializer's owner) or
    @interface-declared in that same file."""
    probs = []
    user = set()
    for ns in api.namespaces.values():
        for dt in ns.linearize_data_types():
            user.add(oh.fmt_class_prefix(dt))
    for fn, raw in generated(files).items():
        if not fn.endswith(('.h', '.m')) or fn.endswith('DBSDKImportsGenerated.h'):
            continue
        imported = set(re.findall(r'#import "(\w+)\.h"', raw))
        text = strip_comments_strings(raw)
        fwd = set(re.findall(r'^@class (\w+);', text, flags=re.M))
        own = set(re.findall(r'^@(?:interface|implementation) (\w+)', text, flags=re.M))
        avail = imported | fwd | own
        for tok in set(re.findall(r'\bDB[A-Z0-9]\w*', text)):
            base = tok[:-len('Serializer')] if tok.endswith('Serializer') else tok
            if tok in user or base in user:
                name = tok if tok in user else base
                if name not in avail:
                    probs.append('%s uses %s without @class/#import' % (fn, tok))
    return sorted(set(probs))
