"""
C17 finding 6: obj_c_types declares things twice for a union that has a member
named `tag`: the tag-state enum TYPE is named DB<NS><Union>Tag and the enum
CONSTANT for member `tag` gets the same name; the header declares two
properties called `tag`; the deserializer declares two locals called `tag`.
(`tag` is not in obj_c_helpers._reserved_words; the Swift backends are fine.)
"""
import json, os, re, shutil, sys, tempfile
sys.path.insert(0, os.path.dirname(os.path.abspath(__file__)))
from stone.frontend.frontend import specs_to_ir
from stone.compiler import Compiler, BackendException

CFG = '''
namespace stone_cfg
struct Route
    auth String = "user"
    host String = "api"
    style String = "rpc"
'''
SWIFT_CLIENT = ['-m', 'Base', '-c', 'DropboxBase', '-t', 'DropboxTransportClient', '-w', 'user',
    '-y', json.dumps({
        "upload": [["upload", [["input", "input", "Data", "The file."]]]],
        "download": [["download_file", [["destination", "destination", "URL", "d"]]],
                     ["download_memory", []]]}),
    '-z', json.dumps({"rpc": "RpcRequest", "upload": "UploadRequest",
                      "download_file": "DownloadRequestFile",
                      "download_memory": "DownloadRequestMemory"})]
OBJC_CLIENT = ['-m', 'DBBase', '-c', 'DBBase', '-t', 'DBTransportClient', '-w', 'user',
    '-y', json.dumps({
        "upload": [["upload", ["Data", [["inputData", "inputData", "NSData *", "The file."]]]]],
        "download": [["download_data", ["Data", []]]]}),
    '-z', json.dumps({"rpc": "DBRpcTask", "upload": "DBUploadTask",
                      "download_data": "DBDownloadDataTask"})]
BACKENDS = {
    'swift_types': ('swift_types', []),
    'swift_types --objc': ('swift_types', ['--objc']),
    'swift_client': ('swift_client', SWIFT_CLIENT),
    'swift_client --objc': ('swift_client', SWIFT_CLIENT + ['--objc']),
    'obj_c_types': ('obj_c_types', []),
    'obj_c_client': ('obj_c_client', OBJC_CLIENT),
}


def run(key, specs):
    """Compile the spec texts (the frontend must accept them) and run one backend.
    Returns (files: relpath -> text, error: last traceback line or None)."""
    api = specs_to_ir([('s%d.stone' % i, t) for i, t in enumerate(specs)] +
                      [('stone_cfg.stone', CFG)])
    mod_name, args = BACKENDS[key]
    mod = __import__('stone.backends.' + mod_name, fromlist=[''])
    out = tempfile.mkdtemp(prefix='c17_')
    err = None
    try:
        try:
            Compiler(api, mod, list(args), out).build()
        except BackendException as e:
            err = e.traceback.strip().splitlines()[-1]
        files = {}
        for root, _, names in os.walk(out):
            for n in names:
                if n in ('StoneBase.swift', 'StoneSerializers.swift', 'StoneValidators.swift') \
                        or os.path.basename(root) == 'Resources':
                    continue
                p = os.path.join(root, n)
                with open(p, encoding='utf-8') as f:
                    files[os.path.relpath(p, out)] = f.read()
        return files, err
    finally:
        shutil.rmtree(out, ignore_errors=True)


failures = []


def fail(msg):
    failures.append(msg)
    print('VIOLATION: ' + msg)


def finish():
    if failures:
        print('\n%d violation(s) of C17 observed.' % len(failures))
        sys.exit(1)
    print('no violation observed')
    sys.exit(0)

SPEC = '''
namespace a
union U
    tag String
    x
'''
files, err = run('obj_c_types', [SPEC])
if err:
    fail('obj_c_types raised %s' % err)
h = files['ApiObjects/A/Headers/DBAU.h']
m = files['ApiObjects/A/DBAObjects.m']
code_h = re.sub(r'//[^\n]*', '', h)
props = re.findall(r'^@property \([^)]*\) [^;]*\btag;', code_h, flags=re.M)
print('properties named tag in DBAU.h:')
for p in props:
    print('   ', p)
if len(props) != 1:
    fail('DBAU.h: expected exactly one declaration of property `tag`, observed %d' % len(props))
enum = re.search(r'typedef NS_CLOSED_ENUM\(NSInteger, (\w+)\) \{(.*?)\};', code_h, flags=re.S)
consts = re.findall(r'^\s*(\w+),', enum.group(2), flags=re.M)
print('enum type:', enum.group(1), ' constants:', consts)
if enum.group(1) in consts:
    fail('DBAU.h: identifier %s is declared both as the enum type and as one of its constants'
         % enum.group(1))
deser = m[m.index('+ (DBAU *)deserialize'):]
locals_ = re.findall(r'^\s*NSString \*tag = [^;]*;', deser, flags=re.M)
print('locals named tag in DBAUSerializer deserialize:', [l.strip() for l in locals_])
if len(locals_) != 1:
    fail('DBAObjects.m: local `tag` declared %d times in +deserialize:' % len(locals_))
finish()
