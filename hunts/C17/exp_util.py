import re
from harness import *
def t(name, specs, keys=None, grep=None, show=False):
    print('=====', name)
    try:
        res = run_all(specs, keys=keys, show=show)
    except Exception as e:
        print('SPEC REJECTED/ERR:', type(e).__name__, e); return
    if grep:
        for k,(files,err) in res.items():
            for p,tx in generated(files).items():
                for ln in tx.splitlines():
                    if re.search(grep, ln): print('  [%s] %s: %s' % (k,p,ln.strip()))
    return res

import declcheck
def full(name, specs, show=False):
    """run all backends + lex + declaration checks"""
    print('=====', name)
    try:
        res = run_all(specs, show=show)
    except Exception as e:
        print('SPEC REJECTED/ERR:', type(e).__name__, e); return
    api = compile_specs(specs)
    for label, probs in [
        ('swift_types', declcheck.check_swift_types(api, res['swift_types'][0])),
        ('swift_client', declcheck.check_swift_qualified(api, res['swift_client'][0])),
        ('swift_objc', declcheck.check_swift_objc(api, res['swift_types_objc'][0], res['swift_client_objc'][0])),
        ('objc', declcheck.check_objc(api, res['obj_c_types'][0], res['obj_c_client'][0])),
        ('objc-imports-types', declcheck.check_objc_file_imports(api, res['obj_c_types'][0])),
        ('objc-imports-client', declcheck.check_objc_file_imports(api, res['obj_c_client'][0])),
    ]:
        for p in probs:
            print('  DECL[%s] %s' % (label, p))
    return res
