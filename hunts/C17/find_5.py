"""
C17 finding 5: the Timestamp format string is pasted into Swift / Obj-C string
literals without escaping (swift.py fmt_serial_obj, obj_c_types.py
_fmt_serialization_call), so a format containing a double quote or a backslash
produces an unterminated string literal and unbalanced brackets. String
defaults and patterns ARE escaped; the format was forgotten.
"""
import json, os, re, shutil, sys, tempfile
sys.path.insert(0, os.path.dirname(os.path.abspath(__file__)))
from stone.frontend.frontend import specs_to_ir
from stone.compiler import Compiler, BackendException

CFG = '''
namespace stone_cfg
struct Route
    auth String = "user"
    host String = "api"
    style String = "rpc"
'''
SWIFT_CLIENT = ['-m', 'Base', '-c', 'DropboxBase', '-t', 'DropboxTransportClient', '-w', 'user',
    '-y', json.dumps({
        "upload": [["upload", [["input", "input", "Data", "The file."]]]],
        "download": [["download_file", [["destination", "destination", "URL", "d"]]],
                     ["download_memory", []]]}),
    '-z', json.dumps({"rpc": "RpcRequest", "upload": "UploadRequest",
                      "download_file": "DownloadRequestFile",
                      "download_memory": "DownloadRequestMemory"})]
OBJC_CLIENT = ['-m', 'DBBase', '-c', 'DBBase', '-t', 'DBTransportClient', '-w', 'user',
    '-y', json.dumps({
        "upload": [["upload", ["Data", [["inputData", "inputData", "NSData *", "The file."]]]]],
        "download": [["download_data", ["Data", []]]]}),
    '-z', json.dumps({"rpc": "DBRpcTask", "upload": "DBUploadTask",
                      "download_data": "DBDownloadDataTask"})]
BACKENDS = {
    'swift_types': ('swift_types', []),
    'swift_types --objc': ('swift_types', ['--objc']),
    'swift_client': ('swift_client', SWIFT_CLIENT),
    'swift_client --objc': ('swift_client', SWIFT_CLIENT + ['--objc']),
    'obj_c_types': ('obj_c_types', []),
    'obj_c_client': ('obj_c_client', OBJC_CLIENT),
}


def run(key, specs):
    """Compile the spec texts (the frontend must accept them) and run one backend.
    Returns (files: relpath -> text, error: last traceback line or None)."""
    api = specs_to_ir([('s%d.stone' % i, t) for i, t in enumerate(specs)] +
                      [('stone_cfg.stone', CFG)])
    mod_name, args = BACKENDS[key]
    mod = __import__('stone.backends.' + mod_name, fromlist=[''])
    out = tempfile.mkdtemp(prefix='c17_')
    err = None
    try:
        try:
            Compiler(api, mod, list(args), out).build()
        except BackendException as e:
            err = e.traceback.strip().splitlines()[-1]
        files = {}
        for root, _, names in os.walk(out):
            for n in names:
                if n in ('StoneBase.swift', 'StoneSerializers.swift', 'StoneValidators.swift') \
                        or os.path.basename(root) == 'Resources':
                    continue
                p = os.path.join(root, n)
                with open(p, encoding='utf-8') as f:
                    files[os.path.relpath(p, out)] = f.read()
        return files, err
    finally:
        shutil.rmtree(out, ignore_errors=True)


failures = []


def fail(msg):
    failures.append(msg)
    print('VIOLATION: ' + msg)


def finish():
    if failures:
        print('\n%d violation(s) of C17 observed.' % len(failures))
        sys.exit(1)
    print('no violation observed')
    sys.exit(0)

def lex_problems(text):
    """Balanced (), [], {} and terminated "..." literals; // comments skipped."""
    probs, stack, i, line = [], [], 0, 1
    close = {')': '(', ']': '[', '}': '{'}
    while i < len(text):
        c = text[i]
        if c == '\n':
            line += 1
        elif text.startswith('//', i):
            i = text.find('\n', i)
            if i < 0:
                break
            continue
        elif c == '"':
            j = i + 1
            while j < len(text) and text[j] not in '"\n':
                j += 2 if text[j] == '\\' else 1
            if j >= len(text) or text[j] == '\n':
                probs.append('line %d: unterminated string literal' % line)
                i = j
                continue
            i = j
        elif c in '([{':
            stack.append((c, line))
        elif c in ')]}':
            if stack and stack[-1][0] == close[c]:
                stack.pop()
            else:
                probs.append('line %d: unmatched %r' % (line, c))
        i += 1
    probs += ['line %d: %r never closed' % (l, c) for c, l in stack]
    return probs


CASES = {
    'format containing a double quote': '''
namespace a
struct S
    t Timestamp("%Y\\"%m")
''',
    'format ending in a backslash': '''
namespace a
struct S
    t Timestamp("%Y\\\\")
''',
}
for name, spec in CASES.items():
    for key in ('swift_types', 'obj_c_types'):
        files, err = run(key, [spec])
        if err:
            fail('%s raised %s' % (key, err))
        for path, text in sorted(files.items()):
            probs = lex_problems(text)
            if probs:
                bad = [l.strip() for l in text.splitlines() if '%Y' in l][0]
                fail('%s, %s %s: expected lexically well-formed source, observed %s; e.g. %s'
                     % (name, key, path, probs[:2], bad))
finish()
