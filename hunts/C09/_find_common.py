"""
Tiny helper shared by the find_N.py scripts: write specs to a temp dir, run the
python_types backend through the stone CLI, and run python snippets against the
generated package in a fresh interpreter.
"""
import os
import subprocess
import sys
import tempfile
import textwrap

ROOT = os.path.dirname(os.path.abspath(__file__))
PY = sys.executable
ENV = dict(os.environ, PYTHONPATH=ROOT)


def generate(specs, pkg='pkg', cli_args=()):
    """specs: {filename: text}. Returns (workdir, CompletedProcess of the CLI)."""
    d = tempfile.mkdtemp(prefix='c09_find_')
    out = os.path.join(d, 'out', pkg)
    os.makedirs(out)
    paths = []
    for name, text in specs.items():
        p = os.path.join(d, name)
        with open(p, 'w', encoding='utf-8') as f:
            f.write(textwrap.dedent(text).lstrip('\n'))
        paths.append(p)
    cmd = [PY, '-m', 'stone.cli', 'python_types', out] + paths + list(cli_args) + ['--', '-p', pkg]
    r = subprocess.run(cmd, env=ENV, capture_output=True, text=True, cwd=ROOT)
    return d, r


def fresh(d, code):
    """Run code in a fresh interpreter that can import the generated package."""
    env = dict(ENV, PYTHONPATH=ROOT + os.pathsep + os.path.join(d, 'out'))
    return subprocess.run([PY, '-c', textwrap.dedent(code)], env=env, capture_output=True, text=True)


def tail(r, n=4):
    return '\n'.join('      ' + l for l in (r.stderr.strip().splitlines()[-n:] or ['<no stderr>']))


def import_each_first(d, namespaces, pkg='pkg'):
    """Import every namespace, each one first in its own fresh interpreter.
    Returns list of (first, CompletedProcess) for the failures."""
    failures = []
    for first in namespaces:
        order = [first] + [n for n in namespaces if n != first]
        code = 'import importlib\n' + ''.join(
            'importlib.import_module(%r)\n' % (pkg + '.' + n) for n in order)
        r = fresh(d, code)
        if r.returncode != 0:
            failures.append((first, r))
    return failures
