"""
C09 finding 10 (low severity, the backend refuses on purpose): specs with two
routes whose names differ only in case style, or a versioned route next to a
route literally called <name>_v<N>, are accepted by the frontend, but
python_types raises RuntimeError('There is a name conflict ...') and writes no
module for the namespace, so the API cannot be loaded at all.
"""
import os
import sys
from _find_common import generate, tail

cases = {
 'routes getFile and get_file': '''
    namespace a
    route getFile(Void, Void, Void)
    route get_file(Void, Void, Void)
 ''',
 'routes get/file and get_file': '''
    namespace a
    route get/file(Void, Void, Void)
    route get_file(Void, Void, Void)
 ''',
 'routes r:2 and r_v2': '''
    namespace a
    route r:2(Void, Void, Void)
    route r_v2(Void, Void, Void)
 ''',
}
bad = 0
for label, spec in cases.items():
    d, r = generate({'a.stone': spec})
    if r.returncode != 0:
        bad += 1
        print('%s: python_types failed: %s' % (label, tail(r, 1).strip()))
if bad:
    print('EXPECTED: for every accepted spec, every route version is a Route object in the module and in ROUTES '
          '(or the frontend rejects the spec, as it does for a route and a type with clashing names).')
    sys.exit(1)
print('no violation observed')
