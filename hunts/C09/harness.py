"""
Shared harness for the C09 audit: generate python_types output for a set of
specs, import each namespace first in a fresh interpreter, then check the
documented surface against the IR.
"""
import json
import os
import shutil
import subprocess
import sys
import tempfile
import textwrap

ROOT = os.path.dirname(os.path.abspath(__file__))
PY = sys.executable
ENV = dict(os.environ, PYTHONPATH=ROOT)

sys.path.insert(0, ROOT)

from stone.frontend.frontend import specs_to_ir  # noqa: E402
from stone.backends.python_helpers import fmt_class, fmt_func, fmt_var, fmt_namespace  # noqa: E402
from stone.ir import (  # noqa: E402
    is_void_type, is_struct_type, is_union_type)


def gen(specs, pkg='pkg', route_attrs=None):
    """specs: dict filename -> text. Returns (tmpdir, api, generator stdout/stderr, rc)."""
    d = tempfile.mkdtemp(prefix='c09_')
    specdir = os.path.join(d, 'specs')
    os.makedirs(specdir)
    out = os.path.join(d, 'out', pkg)
    os.makedirs(out)
    paths = []
    for name, text in specs.items():
        p = os.path.join(specdir, name)
        with open(p, 'w', encoding='utf-8') as f:
            f.write(textwrap.dedent(text))
        paths.append(p)
    api = specs_to_ir([(p, open(p, encoding='utf-8').read()) for p in paths])
    cmd = [PY, '-m', 'stone.cli', 'python_types', out] + paths
    if route_attrs:
        for a in route_attrs:
            cmd += ['-a', a]
    cmd += ['--', '-p', pkg]
    r = subprocess.run(cmd, env=ENV, capture_output=True, text=True, cwd=ROOT)
    return d, api, r


def run_py(d, code):
    env = dict(ENV, PYTHONPATH=ROOT + os.pathsep + os.path.join(d, 'out'))
    return subprocess.run([PY, '-c', code], env=env, capture_output=True, text=True)


def expected_surface(api):
    """Describe the surface the property demands, as plain data."""
    s = {}
    for ns in api.namespaces.values():
        e = {'structs': [], 'unions': [], 'aliases': [], 'routes': []}
        for dt in ns.data_types:
            parent = None
            if dt.parent_type:
                parent = (fmt_namespace(dt.parent_type.namespace.name), fmt_class(dt.parent_type.name))
            if is_struct_type(dt):
                e['structs'].append({
                    'name': dt.name, 'pyname': fmt_class(dt.name), 'parent': parent,
                    'fields': [fmt_var(f.name) for f in dt.fields],
                    'all_fields': [fmt_var(f.name) for f in dt.all_fields],
                    'public_fields': [fmt_var(f.name) for f in dt.all_fields if not f.omitted_caller],
                    'renamed': [f.name for f in dt.all_fields if fmt_var(f.name) != f.name],
                })
            elif is_union_type(dt):
                e['unions'].append({
                    'name': dt.name, 'pyname': fmt_class(dt.name), 'parent': parent,
                    'void': [fmt_var(f.name) for f in dt.all_fields if is_void_type(f.data_type)],
                    'typed': [fmt_var(f.name) for f in dt.all_fields if not is_void_type(f.data_type)],
                    'omitted': [fmt_var(f.name) for f in dt.all_fields if f.omitted_caller],
                    'renamed': [f.name for f in dt.all_fields if fmt_var(f.name) != f.name],
                })
        for a in ns.aliases:
            e['aliases'].append(a.name)
        for r in ns.routes:
            e['routes'].append({
                'name': r.name, 'version': r.version,
                'deprecated': r.deprecated is not None,
                'attrs': {k: (v if isinstance(v, (str, int, float, bool, type(None))) else repr(v))
                          for k, v in r.attrs.items()},
                'key': r.name_with_version(),
                'var': fmt_func(r.name, version=r.version),
            })
        s[fmt_namespace(ns.name)] = e
    return s


CHECKER = r'''
import importlib, json, sys
from stone.backends.python_rsrc import stone_base as bb, stone_validators as bv
surface = json.loads(sys.argv[1])
pkg = sys.argv[2]
problems = []
def P(msg):
    problems.append(msg)
mods = {}
for nsname in surface:
    mods[nsname] = importlib.import_module(pkg + '.' + nsname)

def cls_of(m, d, nsname):
    c = getattr(m, d['pyname'], None)
    if not isinstance(c, type):
        P('%s: %s (for spec type %s) is %r, not a class' % (nsname, d['pyname'], d['name'], c))
        return None
    if d['pyname'] != d['name']:
        P('NOTE %s: class for %s is named %s' % (nsname, d['name'], d['pyname']))
    return c

for nsname, e in surface.items():
    m = mods[nsname]
    for s in e['structs']:
        c = cls_of(m, s, nsname)
        if c is None:
            continue
        if not isinstance(getattr(m, s['pyname'] + '_validator', None), bv.Struct):
            P('%s: no %s_validator' % (nsname, s['name']))
        if s['parent']:
            pc = getattr(mods[s['parent'][0]], s['parent'][1], None)
            if pc is None or not issubclass(c, pc):
                P('%s.%s does not subclass %s' % (nsname, s['name'], s['parent']))
        elif not issubclass(c, bb.Struct):
            P('%s.%s is not a bb.Struct' % (nsname, s['name']))
        for f in s['fields']:
            a = c.__dict__.get(f)
            if not isinstance(a, bb.Attribute):
                P('%s.%s: no attribute for field %s' % (nsname, s['name'], f))
                continue
            if a.validator is None:
                P('%s.%s.%s: validator not set' % (nsname, s['name'], f))
        try:
            inst = c(**{f: None for f in s['all_fields']})
        except Exception as ex:
            P('%s.%s: constructor with all fields failed: %r' % (nsname, s['name'], ex))
            inst = None
        if inst is not None:
            for f in s['all_fields']:
                try:
                    delattr(inst, f)
                except Exception as ex:
                    P('%s.%s: del %s failed: %r' % (nsname, s['name'], f, ex))
                try:
                    repr(inst)
                except Exception as ex:
                    P('%s.%s: repr failed: %r' % (nsname, s['name'], ex))
        if s['renamed']:
            P('NOTE %s.%s: fields renamed to snake_case: %r' % (nsname, s['name'], s['renamed']))
        if set(getattr(c, '_all_field_names_', ())) != set(s['public_fields']):
            P('%s.%s: _all_field_names_ %r != %r' % (nsname, s['name'], sorted(c._all_field_names_), sorted(s['public_fields'])))
        if sorted(n for n, _ in getattr(c, '_all_fields_', ())) != sorted(s['public_fields']):
            P('%s.%s: _all_fields_ %r != %r' % (nsname, s['name'], [n for n, _ in c._all_fields_], s['public_fields']))
    for u in e['unions']:
        c = cls_of(m, u, nsname)
        if c is None:
            continue
        if not isinstance(getattr(m, u['pyname'] + '_validator', None), bv.Union):
            P('%s: no %s_validator' % (nsname, u['name']))
        if u['parent']:
            pc = getattr(mods[u['parent'][0]], u['parent'][1], None)
            if pc is None or not issubclass(c, pc):
                P('%s.%s does not subclass %s' % (nsname, u['name'], u['parent']))
        elif not issubclass(c, bb.Union):
            P('%s.%s is not a bb.Union' % (nsname, u['name']))
        for t in u['void'] + u['typed']:
            if not callable(getattr(c, 'is_' + t, None)):
                P('%s.%s: no is_%s' % (nsname, u['name'], t))
        for t in u['void']:
            v = getattr(c, t, None)
            if not (isinstance(v, bb.Union) and issubclass(c, type(v))):
                P('%s.%s.%s is %r, not a ready instance of the class' % (nsname, u['name'], t, v))
                continue
            try:
                if not getattr(v, 'is_' + t)():
                    P('%s.%s.%s.is_%s() is False' % (nsname, u['name'], t, t))
                others = [o for o in u['void'] + u['typed'] if o != t and hasattr(v, 'is_' + o) and getattr(v, 'is_' + o)()]
                if others:
                    P('%s.%s.%s also answers is_%s' % (nsname, u['name'], t, others))
            except Exception as ex:
                P('%s.%s.%s: is_ failed %r' % (nsname, u['name'], t, ex))
        for t in u['typed']:
            if not callable(getattr(c, 'get_' + t, None)):
                P('%s.%s: no get_%s' % (nsname, u['name'], t))
            if not callable(getattr(c, t, None)):
                P('%s.%s: no constructor method %s' % (nsname, u['name'], t))
            if t not in c._tagmap and t not in u['omitted']:
                P('%s.%s: tag %s not in _tagmap' % (nsname, u['name'], t))
    for a in e['aliases']:
        if not isinstance(getattr(m, a + '_validator', None), bv.Validator):
            P('%s: no %s_validator for alias' % (nsname, a))
    routes = getattr(m, 'ROUTES', None)
    if routes is None:
        P('%s: no ROUTES' % nsname)
        continue
    if sorted(routes) != sorted(r['key'] for r in e['routes']):
        P('%s: ROUTES keys %r != %r' % (nsname, sorted(routes), sorted(r['key'] for r in e['routes'])))
    for r in e['routes']:
        o = getattr(m, r['var'], None)
        if not isinstance(o, bb.Route):
            P('%s: route var %s is %r' % (nsname, r['var'], o))
            continue
        if routes.get(r['key']) is not o:
            P('%s: ROUTES[%r] is not %s' % (nsname, r['key'], r['var']))
        if (o.name, o.version, o.deprecated) != (r['name'], r['version'], r['deprecated']):
            P('%s: route %s has (%r,%r,%r) expected (%r,%r,%r)' % (nsname, r['var'], o.name, o.version, o.deprecated, r['name'], r['version'], r['deprecated']))
        for k, v in r['attrs'].items():
            if k not in o.attrs:
                P('%s: route %s lacks attr %s' % (nsname, r['var'], k))
            elif o.attrs[k] != v and not (isinstance(v, str) and v.startswith('TagRef')):
                P('%s: route %s attr %s = %r expected %r' % (nsname, r['var'], k, o.attrs[k], v))
        for vn in ('arg_type', 'result_type', 'error_type'):
            if not isinstance(getattr(o, vn), bv.Validator):
                P('%s: route %s %s is %r' % (nsname, r['var'], vn, getattr(o, vn)))
print(json.dumps(problems))
'''


def check(specs, pkg='pkg', route_attrs=None, keep=False, verbose=True):
    """Returns list of problem strings."""
    problems = []
    d, api, r = gen(specs, pkg, route_attrs)
    try:
        if r.returncode != 0:
            problems.append('GENERATOR FAILED: ' + (r.stderr.strip().splitlines() or ['?'])[-1])
            return problems
        names = [fmt_namespace(n) for n in api.namespaces]
        ok_all = True
        for first in names:
            code = 'import importlib\n' + ''.join(
                'importlib.import_module(%r)\n' % (pkg + '.' + n) for n in [first] + [x for x in names if x != first])
            rr = run_py(d, code)
            if rr.returncode != 0:
                ok_all = False
                tail = rr.stderr.strip().splitlines()
                problems.append('IMPORT (first=%s) FAILED: %s' % (first, ' | '.join(tail[-3:])))
        if ok_all:
            surf = expected_surface(api)
            env = dict(ENV, PYTHONPATH=ROOT + os.pathsep + os.path.join(d, 'out'))
            rr = subprocess.run([PY, '-c', CHECKER, json.dumps(surf), pkg], env=env,
                                capture_output=True, text=True)
            if rr.returncode != 0:
                problems.append('CHECKER CRASHED: ' + ' | '.join(rr.stderr.strip().splitlines()[-3:]))
            else:
                problems.extend(json.loads(rr.stdout.strip().splitlines()[-1]))
        return problems
    finally:
        if keep:
            print('kept', d)
        else:
            shutil.rmtree(d, ignore_errors=True)
