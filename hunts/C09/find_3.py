"""
C09 finding 3: the caller name given to Omitted("...") is an arbitrary string,
but python_types pastes it into attribute names (_all_<caller>_fields_,
_<caller>_tagmap). A caller name that is not a Python identifier (hyphen, space,
quote) gives a module that is a SyntaxError.
"""
import sys
import textwrap
from _find_common import generate, import_each_first, tail

bad = 0
for caller in ('internal-team', 'team one', "it's"):
    for kind, body in (('struct', '''
        struct S
            x Int32
            y Int32
                @O
        '''), ('union', '''
        union U
            x
            y Int32
                @O
        ''')):
        spec = 'namespace a\n\nannotation O = Omitted("%s")\n\n%s' % (caller, textwrap.dedent(body))
        d, r = generate({'a.stone': spec})
        if r.returncode != 0:
            print('Omitted(%r) on %s: spec rejected (fine):\n%s' % (caller, kind, tail(r, 1)))
            continue
        for first, rr in import_each_first(d, ['a']):
            bad += 1
            print('Omitted(%r) on a %s member: spec accepted, `import pkg.a` failed:' % (caller, kind))
            print(tail(rr, 4))
if bad:
    print('EXPECTED: accepted spec, no reserved words involved -> pkg.a imports and exposes S / U.')
    sys.exit(1)
print('no violation observed')
