"""
C09 finding 1: a struct that enumerates subtypes and whose name is not already
in Pascal case (acronym such as HTTPResource, or snake_case such as my_base)
produces a module that raises NameError on import.
"""
import sys
from _find_common import generate, import_each_first, tail

bad = 0
for root in ('HTTPResource', 'my_base'):
    spec = '''
    namespace a

    struct %(root)s
        union
            file File
            folder Folder
        path String

    struct File extends %(root)s
        size UInt64

    struct Folder extends %(root)s
        "No new fields."

    struct Holder
        r %(root)s
    ''' % {'root': root}
    d, r = generate({'a.stone': spec})
    if r.returncode != 0:
        print('spec/generator rejected (not the finding):\n' + tail(r))
        continue
    failures = import_each_first(d, ['a'])
    for first, rr in failures:
        bad += 1
        print('struct %s with enumerated subtypes: `import pkg.a` failed:' % root)
        print(tail(rr))
if bad:
    print('EXPECTED: the spec is accepted and uses no reserved words, so pkg.a must import and expose '
          'the class, its subtypes and <Name>_validator.')
    sys.exit(1)
print('no violation observed')
