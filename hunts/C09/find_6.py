"""
C09 finding 6: struct field names that are legal and distinct in the spec (and
not Python reserved words) can collapse to the same / an already-used Python
parameter name, so the generated __init__ is a SyntaxError and the module does
not import:
  (a) two fields that differ only in case style: foo_bar and fooBar
  (b) the same across inheritance: parent has foo_bar, child has fooBar
  (c) a field called `self`
A field with a leading underscore imports but is unusable (name mangling of
`self.__x_value` / '__x_value' in __slots__ inside the class body).
"""
import sys
from _find_common import generate, import_each_first, fresh, tail

cases = {
 '(a) fields foo_bar and fooBar in one struct': '''
    namespace a
    struct S
        foo_bar String?
        fooBar String?
 ''',
 '(b) parent field foo_bar, child field fooBar': '''
    namespace a
    struct P
        foo_bar Int32
    struct C extends P
        fooBar Int32
 ''',
 '(c) field named self': '''
    namespace a
    struct S
        self String?
 ''',
}
bad = 0
for label, spec in cases.items():
    d, r = generate({'a.stone': spec})
    if r.returncode != 0:
        print('%s: spec rejected (fine):\n%s' % (label, tail(r, 1)))
        continue
    for first, rr in import_each_first(d, ['a']):
        bad += 1
        print('%s: spec accepted, `import pkg.a` failed:' % label)
        print(tail(rr, 3))

# (d) leading underscore
d, r = generate({'a.stone': '''
    namespace a
    struct S
        _x String?
'''})
if r.returncode == 0:
    rr = fresh(d, '''
        from pkg import a
        s = a.S()
        s._x = 'v'
        print(s._x)
        del s._x
    ''')
    if rr.returncode != 0:
        bad += 1
        print('(d) field named _x: module imports but S()/set/get/del of the attribute fails:')
        print(tail(rr, 2))
if bad:
    print('EXPECTED: each struct is a class with a readable, writable and deletable attribute per field '
          'and a constructor taking all fields including inherited ones; the module imports.')
    sys.exit(1)
print('no violation observed')
