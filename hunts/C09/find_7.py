"""
C09 finding 7: module-level names that python_types emits for spec items (an
alias of a user type is bound under its spec name, a route under its snake_case
name, an imported namespace under its own name) can rebind names the generated
module itself relies on: the helper modules `bb` / `bv`, the builtins `set` /
`super`, an imported namespace, or another item's `<Name>_validator`.
None of these are Python reserved words and the frontend accepts the specs.
"""
import sys
from _find_common import generate, import_each_first, fresh, tail

import_cases = {
 'namespace named bv imported by another namespace': ({
  'bv.stone': '''
    namespace bv
    struct S
        x Int32
  ''', 'a.stone': '''
    namespace a
    import bv
    struct T
        s bv.S
        i Int32
  '''}, ['a', 'bv']),
 'namespace named bb imported by another namespace': ({
  'bb.stone': '''
    namespace bb
    struct S
        x Int32
  ''', 'a.stone': '''
    namespace a
    import bb
    struct T
        s bb.S
  '''}, ['a', 'bb']),
 'alias named bv of a struct': ({
  'a.stone': '''
    namespace a
    struct S
        x Int32
    alias bv = S
  '''}, ['a']),
 'alias named set of a struct': ({
  'a.stone': '''
    namespace a
    struct S
        x Int32
    alias set = S
  '''}, ['a']),
 'routes named bb and cc': ({
  'a.stone': '''
    namespace a
    route bb(Void, Void, Void)
    route cc(Void, Void, Void)
  '''}, ['a']),
 'alias named like an imported namespace': ({
  'common.stone': '''
    namespace common
    struct S
        x Int32
  ''', 'b.stone': '''
    namespace b
    import common
    alias common = common.S
    struct T
        f common.S
  '''}, ['common', 'b']),
}
bad = 0
for label, (specs, namespaces) in import_cases.items():
    d, r = generate(specs)
    if r.returncode != 0:
        print('%s: spec rejected (fine):\n%s' % (label, tail(r, 1)))
        continue
    fails = import_each_first(d, namespaces)
    if fails:
        bad += 1
        first, rr = fails[0]
        print('%s: spec accepted, importing pkg.%s first failed (%d of %d orders fail):' % (
            label, first, len(fails), len(namespaces)))
        print(tail(rr, 2))

# surface cases: module imports but the documented object is gone
d, r = generate({'a.stone': '''
    namespace a
    alias sx = String
    struct T
        s sx
    route sx_validator(T, Void, Void)
'''})
if r.returncode == 0:
    rr = fresh(d, '''
        from pkg import a
        from stone.backends.python_rsrc import stone_validators as bv
        print(type(a.sx_validator).__name__)
        assert isinstance(a.sx_validator, bv.Validator)
    ''')
    if rr.returncode != 0:
        bad += 1
        print('alias sx + route sx_validator: a.sx_validator is a %s, the alias validator is gone' % rr.stdout.strip())

d, r = generate({'a.stone': '''
    namespace a
    struct S
        x Int32
    struct C extends S
        y Int32
    route super(S, C, Void)
'''})
if r.returncode == 0:
    rr = fresh(d, '''
        from pkg import a
        a.C(x=1, y=2)
    ''')
    if rr.returncode != 0:
        bad += 1
        print('route named super: module imports but the constructor of an inheriting struct fails:')
        print(tail(rr, 1))
if bad:
    print('EXPECTED: accepted spec without reserved words -> every module imports, every alias keeps its '
          '<Name>_validator, constructors take all fields.')
    sys.exit(1)
print('no violation observed')
