"""
C09 finding 2: the frontend only rejects import cycles between two namespaces.
A cycle through three namespaces (a -> b -> c -> a) is accepted, and the
generated modules cannot be imported, whichever namespace is imported first.
"""
import sys
from _find_common import generate, import_each_first, tail

variants = {
 'cross-namespace parents': {
  'a.stone': '''
    namespace a
    import b
    struct A1
        x Int32
    struct A2 extends b.B1
        y Int32
  ''', 'b.stone': '''
    namespace b
    import c
    struct B1 extends c.C1
        z Int32
  ''', 'c.stone': '''
    namespace c
    import a
    struct C1
        w Int32
    struct C2 extends a.A1
        v Int32
  '''},
 'field references only': {
  'a.stone': '''
    namespace a
    import b
    struct A1
        x b.B1?
  ''', 'b.stone': '''
    namespace b
    import c
    struct B1
        z c.C1?
  ''', 'c.stone': '''
    namespace c
    import a
    struct C1
        w a.A1?
  '''},
}
bad = 0
for label, specs in variants.items():
    d, r = generate(specs)
    if r.returncode != 0:
        print('%s: spec rejected (that would be fine):\n%s' % (label, tail(r)))
        continue
    print('%s: spec ACCEPTED, python_types output written' % label)
    for first, rr in import_each_first(d, ['a', 'b', 'c']):
        bad += 1
        print('  importing pkg.%s first fails:' % first)
        print(tail(rr, 2))
if bad:
    print('EXPECTED: either the spec is rejected (as two-namespace cycles are: "Circular import of '
          'namespaces"), or every namespace module imports, whichever comes first.')
    sys.exit(1)
print('no violation observed')
