"""
C09 finding 8 (adjacent: the module imports, but part of what it exposes is
broken): namespace b has a field typed by a.Base, a struct with enumerated
subtypes; a subtype carries a custom annotation whose annotation type lives in a
third namespace c. python_types emits `c.At` inside b's
_process_custom_annotations, but b.py never imports c, so calling the method
raises NameError. (The frontend records annotation-type imports by walking
parents and fields, never enumerated subtypes, while the backend does recurse
into subtypes.)
"""
import sys
from _find_common import generate, fresh, tail

d, r = generate({
 'c.stone': '''
    namespace c
    annotation_type At
        p String = "d"
 ''', 'a.stone': '''
    namespace a
    import c
    annotation An = c.At(p="x")
    struct Base
        union
            one One
        p String
    struct One extends Base
        q String
            @An
 ''', 'b.stone': '''
    namespace b
    import a
    struct T
        f a.Base
 '''})
if r.returncode != 0:
    print('spec rejected (fine):\n' + tail(r))
    sys.exit(0)
rr = fresh(d, '''
    from pkg import b, a, c
    t = b.T(f=a.One(p='1', q='2'))
    seen = []
    t._process_custom_annotations(c.At, 'T', lambda ann, path, v: seen.append((ann.p, v)) or v)
    print(seen)
    assert seen == [('x', '2')]
''')
if rr.returncode != 0:
    import os
    src = open(os.path.join(d, 'out', 'pkg', 'b.py')).read().splitlines()
    print('imports emitted in b.py: %r' % [l for l in src if l.startswith('from pkg')])
    print('lines of b.py using c:   %r' % [l.strip() for l in src if 'c.At' in l][:1])
    print('calling b.T(...)._process_custom_annotations(c.At, ...) fails:')
    print(tail(rr, 2))
    print('EXPECTED: every name the generated module uses is imported; the processor is called '
          "once with ('x', '2').")
    sys.exit(1)
print('no violation observed:', rr.stdout.strip())
