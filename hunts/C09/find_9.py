"""
C09 finding 9: union tags / struct fields whose generated members collide with
other generated members of the same class (no reserved words involved):
  (a) tags `x` (typed) and `get_x` (void): the ready instance U.get_x replaces
      the get_x() accessor
  (b) tags `x` and `is_x` (both void): U.is_x is the ready instance, so is_x()
      for tag x is gone ('U' object is not callable)
  (c) child union re-using a parent's tag in another case style (foo_bar void in
      parent, fooBar typed in child): C.foo_bar is a constructor method, the
      ready instance of the inherited void tag is gone
  (d) struct field named `bb`: module does not import (class body rebinds bb)
  (e) struct field named `super` on a struct with a parent: constructor fails
"""
import sys
from _find_common import generate, fresh, tail

bad = 0
def run(label, spec, code):
    global bad
    d, r = generate({'a.stone': spec})
    if r.returncode != 0:
        print('%s: spec rejected (fine): %s' % (label, tail(r, 1).strip()))
        return
    rr = fresh(d, code)
    if rr.returncode != 0:
        bad += 1
        print('%s: spec accepted, but:' % label)
        print(tail(rr, 1))

run('(a) tags x (typed) + get_x (void)', '''
    namespace a
    union U
        get_x
        x Int32
''', '''
    from pkg import a
    u = a.U.x(3)
    assert u.get_x() == 3
''')
run('(b) tags x + is_x (void)', '''
    namespace a
    union U
        is_x
        x
''', '''
    from pkg import a
    assert a.U.x.is_x() is True
''')
run('(c) parent tag foo_bar (void), child tag fooBar (typed)', '''
    namespace a
    union P
        foo_bar
    union C extends P
        fooBar String
''', '''
    from pkg import a
    assert a.C.foo_bar.is_foo_bar(), a.C.foo_bar
''')
run('(d) struct field named bb', '''
    namespace a
    struct S
        bb Int32
        other_field String?
''', '''
    from pkg import a
''')
run('(e) field named super in an inheriting struct', '''
    namespace a
    struct P
        x Int32
    struct C extends P
        super String?
''', '''
    from pkg import a
    a.C(x=1)
''')
if bad:
    print('EXPECTED: is_<tag> for every tag, get_<tag> + constructor for every typed tag, a ready '
          'instance for every void tag; struct modules import and constructors take all fields.')
    sys.exit(1)
print('no violation observed')
