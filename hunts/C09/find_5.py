"""
C09 finding 5: for a struct field whose spec name is not already snake_case
(fooBar, HTTPCode) python_types creates the attribute / constructor argument /
_all_fields_ entry under the snake_case name (foo_bar) but lists the *spec* name
in _all_field_names_. The runtime looks fields up by _all_field_names_, so the
struct cannot be repr()'d, compared or validated, although it imports.
"""
import sys
from _find_common import generate, fresh, tail

d, r = generate({'a.stone': '''
    namespace a
    struct S
        fooBar Int32
        HTTPCode String?
    struct Base
        union
            one One
        baseField String
    struct One extends Base
        oneField Int32
'''})
if r.returncode != 0:
    print('spec rejected (fine):\n' + tail(r))
    sys.exit(0)
rr = fresh(d, r'''
    import sys
    from pkg import a
    problems = []
    def attempt(label, f):
        try:
            f()
        except Exception as e:
            problems.append('%s -> %s: %s' % (label, type(e).__name__, e))
    for cls, kw in ((a.S, dict(foo_bar=1)), (a.One, dict(base_field='b', one_field=2))):
        obj = cls(**kw)   # constructor takes the snake_case names
        names = sorted(cls._all_field_names_)
        attrs = sorted(n for n, _ in cls._all_fields_)
        if names != attrs:
            problems.append('%s._all_field_names_ = %r but attributes/_all_fields_ are %r' % (cls.__name__, names, attrs))
        attempt('repr(%s(...))' % cls.__name__, lambda: repr(obj))
        attempt('%s(...) == %s(...)' % (cls.__name__, cls.__name__), lambda: obj == cls(**kw))
        attempt('%s_validator.validate(obj)' % cls.__name__, lambda: getattr(a, cls.__name__ + '_validator').validate(obj))
    print('\n'.join(problems))
    sys.exit(1 if problems else 0)
''')
print(rr.stdout.strip() or tail(rr))
if rr.returncode != 0:
    print('EXPECTED: one readable/writable/deletable attribute per field, consistently named, on a '
          'class that behaves like any other generated struct (repr, ==, validation).')
    sys.exit(1)
print('no violation observed')
