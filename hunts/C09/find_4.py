"""
C09 finding 4: a route whose Python variable name equals the name of an imported
namespace rebinds that module's name inside the generated module. Every later
reference to `<namespace>.<Type>_validator` then hits the Route object and the
module fails to import.
"""
import sys
from _find_common import generate, import_each_first, tail

specs = {
 'files.stone': '''
    namespace files
    struct Metadata
        name String
 ''',
 'sharing.stone': '''
    namespace sharing
    import files
    struct Arg
        m files.Metadata
    route files(Arg, files.Metadata, Void)
    route files/list(Arg, List(files.Metadata), Void)
 ''',
}
d, r = generate(specs)
if r.returncode != 0:
    print('spec rejected (fine):\n' + tail(r))
    sys.exit(0)
print('spec accepted: namespace sharing imports files and declares routes `files` and `files/list`')
failures = import_each_first(d, ['files', 'sharing'])
for first, rr in failures:
    print('importing pkg.%s first, then the rest, fails:' % first)
    print(tail(rr, 4))
if failures:
    print('EXPECTED: pkg.sharing imports; sharing.files and sharing.files_list are Route objects '
          'listed in ROUTES with arg/result validators.')
    sys.exit(1)
print('no violation observed')
