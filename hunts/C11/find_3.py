#!/usr/bin/env python
"""C11 finding 3: whether two spec files are accepted depends on the order in
which they are given, when the canonical name of a definition
(lower(name) + lower(namespace)) equals the canonical name of another
namespace (lower(ns) + lower(ns)).

  namespace dada            -> canonical 'dadadada'
  struct Dadada in 'da'     -> canonical 'dadada' + 'da' = 'dadadada'

If the namespace file comes first the struct is rejected ("conflicts with name
of namespace"); if it comes second the namespace registration silently
overwrites the entry and everything is accepted.

Run: PYTHONPATH=/repo /venv/bin/python find_3.py
"""
import sys
from stone.frontend.frontend import specs_to_ir
from stone.frontend.exception import InvalidSpec

F1 = ('dada.stone', '''namespace dada
struct Foo
    x String
''')
F2 = ('da.stone', '''namespace da
struct Dadada
    y String
''')

def attempt(specs):
    try:
        api = specs_to_ir(list(specs))
        return 'accepted: ' + ', '.join(
            '%s.%s' % (ns.name, dt.name) for ns in api.namespaces.values() for dt in ns.data_types)
    except InvalidSpec as e:
        return 'rejected: %s' % e.msg

r12 = attempt([F1, F2])
r21 = attempt([F2, F1])
print('dada.stone da.stone ->', r12)
print('da.stone dada.stone ->', r21)
if r12.split(':')[0] != r21.split(':')[0]:
    print('VIOLATION of C11: acceptance of the same set of spec files depends on file order; '
          'the property demands the same verdict (and API) for every file permutation.')
    sys.exit(1)
print('OK')
