#!/usr/bin/env python
"""C11 observation 5 (minor): the Api object itself still carries declaration
order in places that normalize() does not touch: the *_by_name maps of a
namespace (routes_by_name, route_by_name, data_type_by_name, alias_by_name,
annotation_by_name, annotation_type_by_name), ApiRoutesByVersion.at_version and
Struct.subtypes.  None of the built-in backends iterates them, but they are the
documented public attributes a custom backend works with
(docs/backend_ref.rst), so `for name in ns.data_type_by_name` produces output
that changes when top-level definitions or files are reordered.

Run: PYTHONPATH=/repo /venv/bin/python find_5.py
"""
import sys
from stone.frontend.frontend import specs_to_ir

HEAD = 'namespace ns\n'
DEFS = [
    'struct Base\n    a String\n',
    'struct Kid1 extends Base\n    b String\n',
    'struct Kid2 extends Base\n    c String\n',
    'alias A1 = String\n',
    'alias A2 = Int32\n',
    'route r1 (Void, Void, Void)\n',
    'route r1:2 (Void, Void, Void)\n',
    'route r2 (Void, Void, Void)\n',
]

def view(defs):
    ns = specs_to_ir([('ns.stone', HEAD + ''.join(defs))]).namespaces['ns']
    return {
        'data_types (normalized list)': [d.name for d in ns.data_types],
        'data_type_by_name': list(ns.data_type_by_name),
        'alias_by_name': list(ns.alias_by_name),
        'routes_by_name': list(ns.routes_by_name),
        'r1.at_version': list(ns.routes_by_name['r1'].at_version),
        'Base.subtypes': [s.name for s in ns.data_type_by_name['Base'].subtypes],
    }

a = view(DEFS)
b = view(list(reversed(DEFS)))
bad = False
for k in a:
    same = a[k] == b[k]
    print('%-30s %s  %r  vs  %r' % (k, 'same  ' if same else 'DIFFER', a[k], b[k]))
    bad = bad or not same
if bad:
    print('VIOLATION of C11 (minor): the API description handed to backends is not identical '
          'after reordering top-level definitions; only the lists are normalized, the maps and '
          'Struct.subtypes keep declaration order.')
    sys.exit(1)
print('OK')
