#!/usr/bin/env python
"""C11 finding 1: stdin delivery splits the input at every line that starts
with the word 'namespace' -- even inside a multi-line string (docstring or
string default).  The same specs given as files compile fine.

Run: PYTHONPATH=/repo /venv/bin/python find_1.py
"""
import os, shutil, subprocess, sys, tempfile

ROOT = os.path.dirname(os.path.abspath(__file__))
ENV = dict(os.environ, PYTHONPATH=ROOT)

N1 = '''namespace n1
    "Things shared by every other
namespace of this API."

struct P
    "A struct whose doc mentions the word at the start of a line:
namespace n1 owns it."
    a String
'''
N2 = '''namespace n2
import n1
struct Q
    p n1.P
'''

def read_tree(root):
    out = {}
    for d, _, files in os.walk(root):
        for fn in files:
            p = os.path.join(d, fn)
            with open(p, 'rb') as f:
                out[os.path.relpath(p, root)] = f.read()
    return out

def run(stdin):
    d = tempfile.mkdtemp(prefix='c11f1_')
    try:
        paths = []
        for name, text in (('n1.stone', N1), ('n2.stone', N2)):
            p = os.path.join(d, name)
            with open(p, 'w') as f:
                f.write(text)
            paths.append(p)
        out = os.path.join(d, 'out')
        cmd = [sys.executable, '-m', 'stone.cli', 'python_types', out]
        inp = None
        if stdin:
            inp = (N1 + N2).encode('utf-8')
        else:
            cmd += paths
        cmd += ['--', '-p', 'pkg']
        p = subprocess.run(cmd, input=inp, stdout=subprocess.PIPE,
                           stderr=subprocess.PIPE, env=ENV, cwd=d)
        return p.returncode, p.stderr.decode().strip(), read_tree(out) if p.returncode == 0 else None
    finally:
        shutil.rmtree(d, ignore_errors=True)

rc_f, err_f, out_f = run(stdin=False)
rc_s, err_s, out_s = run(stdin=True)
print('files : exit=%d %s' % (rc_f, err_f or '(%d files generated)' % len(out_f or {})))
print('stdin : exit=%d %s' % (rc_s, err_s or '(%d files generated)' % len(out_s or {})))
if rc_f == rc_s and out_f == out_s:
    print('OK: same result')
    sys.exit(0)
print('VIOLATION of C11: the same two specs are accepted when given as files but '
      'rejected (or compiled differently) when piped through stdin; the property '
      'demands identical acceptance and byte-identical output.')
sys.exit(1)
