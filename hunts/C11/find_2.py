#!/usr/bin/env python
"""C11 finding 2: when a struct (or union) is patched from two places, only
the patch that is read LAST is applied; the other one is silently dropped.
Which fields the type ends up with therefore depends on file order (and on
definition order inside one file).

Run: PYTHONPATH=/repo /venv/bin/python find_2.py
"""
import sys
from stone.frontend.frontend import specs_to_ir

BASE = ('people.stone', '''namespace people
struct Person
    name String
    example default
        name = "n"
union Kind
    adult
''')
P1 = ('private_a.stone', '''namespace people
patch struct Person
    age UInt64?
patch union Kind
    child
''')
P2 = ('private_b.stone', '''namespace people
patch struct Person
    email String?
patch union Kind
    senior
''')

def describe(specs):
    api = specs_to_ir(list(specs))
    ns = api.namespaces['people']
    return {dt.name: [f.name for f in dt.fields] for dt in ns.data_types}

a = describe([BASE, P1, P2])
b = describe([BASE, P2, P1])
print('order base,a,b ->', a)
print('order base,b,a ->', b)

# same thing inside ONE file: reorder the two top-level patch definitions
one = 'namespace people\n' + BASE[1].split('\n', 1)[1]
pa = P1[1].split('\n', 1)[1]
pb = P2[1].split('\n', 1)[1]
c = describe([('one.stone', one + pa + pb)])
d = describe([('one.stone', one + pb + pa)])
print('one file, patches a,b ->', c)
print('one file, patches b,a ->', d)

want = {'age', 'email'}
bad = False
for label, r in (('files a,b', a), ('files b,a', b), ('defs a,b', c), ('defs b,a', d)):
    missing = want - set(r['Person'])
    if missing:
        print('  %s: Person silently lost patched field(s) %s' % (label, sorted(missing)))
        bad = True
if a != b or c != d or bad:
    print('VIOLATION of C11: the set of fields of Person/Kind changes with the order of '
          'spec files / top-level definitions (one patch is silently discarded). The '
          'property demands the same API (either both patches applied, or the spec '
          'rejected in every order).')
    sys.exit(1)
print('OK')
