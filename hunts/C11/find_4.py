#!/usr/bin/env python
"""C11 finding 4: python_types output bytes are not a function of the API when
two annotation types in different namespaces share a name.  The blocks
emitted in _process_custom_annotations for a field whose type carries both
annotations are ordered by iterating a set of objects (memory-address order)
and then sorted by the *unqualified* annotation type name only, so the tie
is never broken.  Reordering files / inserting comments -- or just running
again -- flips the order.

Run: PYTHONPATH=/repo /venv/bin/python find_4.py
"""
import hashlib, importlib, itertools, os, shutil, sys, tempfile
from stone.frontend.frontend import specs_to_ir
from stone.compiler import Compiler

A = ('a.stone', '''namespace a
annotation_type Mark
    v String = "d"
annotation Am = Mark("a")
''')
B = ('b.stone', '''namespace b
annotation_type Mark
    w Int32 = 1
annotation Bm = Mark(2)
''')
C = ('c.stone', '''namespace c
import a
import b
struct Inner
    x String
        @a.Am
    y String
        @b.Bm
struct Outer
    inner Inner
''')

def gen(specs):
    api = specs_to_ir(list(specs))
    mod = importlib.import_module('stone.backends.python_types')
    out = tempfile.mkdtemp(prefix='c11f4_')
    try:
        Compiler(api, mod, ['-p', 'pkg'], out).build()
        with open(os.path.join(out, 'c.py'), 'rb') as f:
            return f.read()
    finally:
        shutil.rmtree(out, ignore_errors=True)

def block_order(src):
    body = src.decode().split('class Outer(')[1].split('def _process_custom_annotations')[1]
    body = body.split('Outer_validator')[0]
    return [l.strip() for l in body.splitlines() if l.strip().startswith('if annotation_type is')]

variants = []
for perm in itertools.permutations([A, B, C]):
    variants.append(('files ' + ' '.join(p for p, _ in perm), list(perm)))
    noisy = [(p, '# leading comment\n\n' + t.replace('\n', '  # c\n', 1)) for p, t in perm]
    variants.append(('files+comments ' + ' '.join(p for p, _ in perm), noisy))
# plus plain repetition of the reference layout
variants += [('reference again #%d' % i, [A, B, C]) for i in range(12)]

ref = gen([A, B, C])
seen = {hashlib.md5(ref).hexdigest(): ('reference', block_order(ref))}
for label, specs in variants:
    out = gen(specs)
    h = hashlib.md5(out).hexdigest()
    if h not in seen:
        seen[h] = (label, block_order(out))
for h, (label, order) in seen.items():
    print('c.py md5=%s first seen with [%s]\n    Outer._process_custom_annotations order: %s'
          % (h[:10], label, order))
if len(seen) > 1:
    print('VIOLATION of C11: python_types produced %d different c.py files for the same API '
          '(only layout / file order / nothing at all changed); the property demands '
          'byte-identical backend output.' % len(seen))
    sys.exit(1)
print('OK: single output')
