"""C18 finding 4: the Swift writer and copy_to_path never create parent
directories.  A nested destination inside the output folder is accepted and
listed by the manifest run, but the real run dies with FileNotFoundError."""
import os
import sys
import tempfile
from _common import run_backend
from stone.backend import CodeBackend
from stone.backends.swift import SwiftBaseBackend

SRC = os.path.join(tempfile.mkdtemp(), 'res.txt')
open(SRC, 'w').write('resource')


class SwiftNested(SwiftBaseBackend):
    preserve_aliases = True

    def generate(self, api):
        self._write_output_in_target_folder('final class G {}', 'Sources/G.swift')


class CopyNested(CodeBackend):
    preserve_aliases = True

    def generate(self, api):
        self.copy_to_path(SRC, os.path.join(self.target_folder_path, 'Resources', 'res.txt'))


bad = 0
for cls in (SwiftNested, CopyNested):
    real = run_backend(cls, manifest=False)
    man = run_backend(cls, manifest=True)
    print(cls.__name__)
    print('  real run files       :', real['out_files'], 'error:', real['error'])
    print('  manifest run reports :', man['manifest'], 'error:', man['error'])
    if real['out_files'] != man['manifest'] or real['error'] != man['error']:
        bad += 1
print('expected: same outcome in both modes (file written and listed, or both refuse)')
sys.exit(1 if bad else 0)
