"""C18 finding 7: the manifest printed by `--output-manifest` does not
validate against the real run with the same arguments.  With
--expected-output-manifest a REAL run compares against every file found under
the output folder (cli._actual_outputs), not against the files the run
created, so anything already there counts as "Extra": the tsd_* backends'
mandatory template (it must live in the output folder), or the output of a
previous backend run into the same folder (js_types then js_client)."""
import json
import os
import shutil
import subprocess
import sys
import tempfile

ROOT = os.path.dirname(os.path.abspath(__file__))
ENV = dict(os.environ, PYTHONPATH=ROOT)
base = tempfile.mkdtemp()
spec = os.path.join(base, 'ns.stone')
with open(spec, 'w') as f:
    f.write('namespace ns\n\nstruct S\n    a String\n\nroute r (S, S, Void)\n')


def cli(*args):
    return subprocess.run([sys.executable, '-m', 'stone.cli'] + list(args),
                          env=ENV, capture_output=True, text=True)


bad = 0
# (a) tsd_types: the template has to be inside the output folder
out = os.path.join(base, 'out_tsd')
os.makedirs(out)
shutil.copy(os.path.join(ROOT, 'test', 'resources', 'typescript.template'),
            os.path.join(out, 't.template'))
bargs = ['tsd_types', out, spec, '--', 't.template', 'types.d.ts']
p = cli('--output-manifest', *bargs)
manifest = os.path.join(base, 'm.json')
with open(manifest, 'w') as f:
    f.write(p.stdout)
print('tsd_types manifest run reports:', json.loads(p.stdout))
before = set(os.listdir(out))
p = cli('--expected-output-manifest', manifest, *bargs)
print('real run created              :', sorted(set(os.listdir(out)) - before))
print('real run with that manifest as --expected-output-manifest: rc=%d %s'
      % (p.returncode, p.stderr.strip().replace('\n', ' | ')))
bad += p.returncode != 0

# (b) two backends into one folder
out = os.path.join(base, 'out_js')
m1 = os.path.join(base, 'm1.json')
m2 = os.path.join(base, 'm2.json')
with open(m1, 'w') as f:
    f.write(cli('--output-manifest', 'js_types', out, spec, '--', 'types.js').stdout)
with open(m2, 'w') as f:
    f.write(cli('--output-manifest', 'js_client', out, spec, '--', 'client.js').stdout)
p1 = cli('--expected-output-manifest', m1, 'js_types', out, spec, '--', 'types.js')
p2 = cli('--expected-output-manifest', m2, 'js_client', out, spec, '--', 'client.js')
print('js_types  real run vs its own manifest: rc=%d' % p1.returncode)
print('js_client real run vs its own manifest: rc=%d %s'
      % (p2.returncode, p2.stderr.strip().replace('\n', ' | ')))
bad += p2.returncode != 0
print('expected: rc=0, the manifest run reported exactly what the real run creates')
sys.exit(1 if bad else 0)
