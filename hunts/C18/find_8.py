"""C18 finding 8: a manifest run is not free of side effects on the output
folder: `--output-manifest --clean-build` removes the whole existing output
folder (Compiler.__init__ runs shutil.rmtree regardless of manifest mode) and
then writes nothing, so previously generated files are lost by what is
documented as a report-only run."""
import os
import subprocess
import sys
import tempfile

ROOT = os.path.dirname(os.path.abspath(__file__))
ENV = dict(os.environ, PYTHONPATH=ROOT)
base = tempfile.mkdtemp()
spec = os.path.join(base, 'ns.stone')
with open(spec, 'w') as f:
    f.write('namespace ns\n\nstruct S\n    a String\n')
out = os.path.join(base, 'out')


def cli(*args):
    return subprocess.run([sys.executable, '-m', 'stone.cli'] + list(args),
                          env=ENV, capture_output=True, text=True)


def files():
    return sorted(os.path.relpath(os.path.join(r, f), out)
                  for r, _, fs in os.walk(out) for f in fs)


cli('--clean-build', 'js_types', out, spec, '--', 'types.js')
before = files()
p = cli('--clean-build', '--output-manifest', 'js_types', out, spec, '--', 'types.js')
after = files()
print('files after the real run          :', before)
print('manifest run rc=%d reports         : %s' % (p.returncode, p.stdout.replace('\n', '')))
print('files after the manifest-only run :', after)
print('expected: a manifest run leaves the output folder as it found it')
sys.exit(1 if before != after else 0)
