"""C18 finding 2: paths that denote a DIRECTORY ('.', '', 'name/', 'a/..',
'./') pass the containment check.  The manifest run reports '.' / 'name' as a
generated file; the real run raises IsADirectoryError (after creating the
directory 'name') and produces no file.  Same for the Swift writer and
copy_to_path."""
import os
import sys
import tempfile
from stone.backend import CodeBackend, OutputManifest
from stone.backends.swift import SwiftBaseBackend


class B(CodeBackend):
    def generate(self, api):
        pass


class S(SwiftBaseBackend):
    def generate(self, api):
        pass


def files(d):
    return sorted(os.path.relpath(os.path.join(r, f), d)
                  for r, _, fs in os.walk(d) for f in fs)


def dirs(d):
    return sorted(os.path.relpath(os.path.join(r, x), d)
                  for r, ds, _ in os.walk(d) for x in ds)


bad = 0
src = os.path.join(tempfile.mkdtemp(), 'res.txt')
open(src, 'w').write('r')
for kind in ('output_to_relative_path', 'swift_writer', 'copy_to_path'):
    for rel in ('.', '', './', 'name/', 'ü/'):
        res = {}
        for manifest in (False, True):
            out = tempfile.mkdtemp()
            m = OutputManifest() if manifest else None
            b = (S if kind == 'swift_writer' else B)(out, [], m)
            err = None
            try:
                if kind == 'output_to_relative_path':
                    with b.output_to_relative_path(rel):
                        b.emit('x')
                elif kind == 'swift_writer':
                    b._write_output_in_target_folder('x', rel)
                else:
                    if rel in ('.', '', './'):
                        continue   # dst is the existing root: a legitimate copy into it
                    b.copy_to_path(src, os.path.join(out, rel))
            except Exception as e:
                err = type(e).__name__
            res[manifest] = (err, files(out), dirs(out), m.outputs() if m else None)
        if not res:
            continue
        (rerr, rfiles, rdirs, _), (merr, _, _, mout) = res[False], res[True]
        if rfiles != mout or rerr != merr:
            bad += 1
            print('%-24s %-8r real: err=%s files=%s dirs=%s | manifest: err=%s reports=%s'
                  % (kind, rel, rerr, rfiles, rdirs, merr, mout))
print('expected: such requests are refused before anything is created, identically in '
      'both modes (a manifest never lists "." or a directory as a generated file)')
sys.exit(1 if bad else 0)
