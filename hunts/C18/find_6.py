"""C18 finding 6: placeholders are implemented with str.format on the whole
buffer, so a placeholder NAME is parsed as a format field.  Names containing
'.', ':', '!', '[', '{' or made of digits are not replaced by their
registered text: the write raises KeyError/IndexError/ValueError.  It raises
AFTER the file was opened with 'wb', so an existing good file is truncated to
0 bytes, and the manifest run (which never formats) reports success."""
import os
import sys
from _common import run_backend
from stone.backend import CodeBackend

bad = 0
for name in ('ns.imports', 'a:b', 'a!b', 'a[0]', '0', 'a{b'):
    class B(CodeBackend):
        preserve_aliases = True

        def generate(self, api):
            with self.output_to_relative_path('f.txt'):
                self.emit('header {literal}')
                self.emit_placeholder(name)
                self.add_named_placeholder(name, 'REGISTERED TEXT\n')

    def prep(base, out):
        os.makedirs(out)
        with open(os.path.join(out, 'f.txt'), 'w') as f:
            f.write('previous good contents\n')

    real = run_backend(B, manifest=False, prep=prep)
    man = run_backend(B, manifest=True, prep=prep)
    content = open(os.path.join(real['out'], 'f.txt')).read()
    ok = (real['error'] is None and content == 'header {literal}\nREGISTERED TEXT\n')
    print('placeholder %-12r real: error=%s file=%r | manifest: error=%s reports=%s'
          % (name, real['error'], content, man['error'], man['manifest']))
    if not ok:
        bad += 1
print("expected: file == 'header {literal}\\nREGISTERED TEXT\\n' for every registered name "
      "(or the name is refused at emit_placeholder time, before any file is touched)")
sys.exit(1 if bad else 0)
