"""C18 finding 9: containment is checked on the textual path
(os.path.abspath), not on where the path resolves.  If the output folder
contains a symlink (left by an earlier step, or an earlier copy_to_path with
follow_symlinks=False), output_to_relative_path / copy_to_path / the Swift
writer write OUTSIDE the output folder, and the manifest lists a file that is
not in the folder."""
import os
import sys
import tempfile
from _common import run_backend
from stone.backend import CodeBackend
from stone.backends.swift import SwiftBaseBackend

SRC = os.path.join(tempfile.mkdtemp(), 'res.txt')
open(SRC, 'w').write('resource')


def prep(base, out):
    os.makedirs(out)
    os.makedirs(os.path.join(base, 'outside'))
    os.symlink(os.path.join(base, 'outside'), os.path.join(out, 'link'))
    with open(os.path.join(base, 'victim.txt'), 'w') as f:
        f.write('original')
    os.symlink(os.path.join(base, 'victim.txt'), os.path.join(out, 'f.txt'))


class Otr(CodeBackend):
    preserve_aliases = True

    def generate(self, api):
        with self.output_to_relative_path('link/escaped.txt'):
            self.emit('x')
        with self.output_to_relative_path('f.txt'):
            self.emit('overwritten')


class Copy(CodeBackend):
    preserve_aliases = True

    def generate(self, api):
        self.copy_to_path(SRC, os.path.join(self.target_folder_path, 'link'))


class Swift(SwiftBaseBackend):
    preserve_aliases = True

    def generate(self, api):
        self._write_output_in_target_folder('x', 'link/G.swift')


bad = 0
for cls in (Otr, Copy, Swift):
    real = run_backend(cls, manifest=False, prep=prep)
    man = run_backend(cls, manifest=True, prep=prep)
    outside = [f for f in real['new_files'] if not f.startswith('out/')]
    victim = open(os.path.join(real['base'], 'victim.txt')).read()
    print('%-5s real run: new files %s error=%s victim.txt=%r | manifest reports %s'
          % (cls.__name__, real['new_files'], real['error'], victim, man['manifest']))
    if outside or victim != 'original':
        bad += 1
print('expected: nothing is created or modified outside <base>/out (request refused)')
sys.exit(1 if bad else 0)
