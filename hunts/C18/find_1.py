"""C18 finding 1: a path that stays INSIDE the output folder but goes through
'..' of a not-yet-existing directory is neither written nor refused up front:
the real run creates a stray directory and then crashes with FileExistsError,
while the manifest run reports the file as generated."""
import sys
from _common import run_backend
from stone.backend import CodeBackend

REL = 'gen/../client.py'   # resolves to <out>/client.py


class B(CodeBackend):
    preserve_aliases = True

    def generate(self, api):
        with self.output_to_relative_path(REL):
            self.emit('x = 1')


real = run_backend(B, manifest=False)
man = run_backend(B, manifest=True)
print('path requested       :', REL)
print('real run  error      :', real['error'])
print('real run  files      :', real['out_files'])
print('real run  stray dirs :', real['out_dirs'])
print('manifest run reports :', man['manifest'], 'error:', man['error'])
print('expected: real run writes client.py (or refuses before touching the disk) '
      'and manifest == real file set')
bad = (real['out_files'] != man['manifest']) or (real['error'] and real['out_dirs'])
sys.exit(1 if bad else 0)
