"""C18 finding 5: text captured with capture_emitted_output has its braces
doubled ('{' -> '{{').  Whether it is re-emitted with emit_raw or registered
as a placeholder (the way python_type_stubs uses it), the file does not get
the emitted line byte for byte."""
import io
import os
import sys
import tempfile
from stone.backend import CodeBackend


class B(CodeBackend):
    def generate(self, api):
        pass


LINE = 'Dict = {"a": {1, 2}}  # {x} {} %s'
bad = 0
for how in ('placeholder', 'emit_raw'):
    out = tempfile.mkdtemp()
    b = B(out, [])
    with b.output_to_relative_path('f.txt'):
        buf = io.StringIO()
        with b.capture_emitted_output(buf):
            with b.indent():
                b.emit(LINE)
        if how == 'placeholder':
            b.emit_placeholder('captured')
            b.add_named_placeholder('captured', buf.getvalue())
        else:
            b.emit_raw(buf.getvalue())
    got = open(os.path.join(out, 'f.txt'), 'rb').read().decode('utf-8')
    exp = '    ' + LINE + '\n'
    print('via %-11s got %r' % (how, got))
    print('                expected %r' % exp)
    if got != exp:
        bad += 1
sys.exit(1 if bad else 0)
