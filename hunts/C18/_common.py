"""Shared helpers for the find_N.py scripts (run with PYTHONPATH=/repo)."""
import os
import tempfile
import types

from stone.compiler import Compiler


def walk_files(root):
    out = []
    for r, _, fs in os.walk(root):
        for f in fs:
            out.append(os.path.relpath(os.path.join(r, f), root).replace(os.sep, '/'))
    return sorted(out)


def walk_dirs(root):
    out = []
    for r, ds, _ in os.walk(root):
        for d in ds:
            out.append(os.path.relpath(os.path.join(r, d), root).replace(os.sep, '/'))
    return sorted(out)


def run_backend(backend_cls, manifest, prep=None):
    """Runs backend_cls through stone.compiler.Compiler in a fresh sandbox.

    Returns dict(base, out, files (relative to out's parent 'base'), out_files,
    out_dirs, manifest, error)."""
    base = tempfile.mkdtemp()
    out = os.path.join(base, 'out')
    if prep:
        prep(base, out)
    before = set(walk_files(base))
    mod = types.ModuleType('m')
    setattr(mod, backend_cls.__name__, backend_cls)
    c = Compiler(None, mod, [], out, output_manifest=manifest)
    err = None
    try:
        c.build()
    except Exception as e:  # BackendException carries the traceback text
        tb = getattr(e, 'traceback', None)
        err = tb.strip().splitlines()[-1] if tb else repr(e)
    after = set(walk_files(base))
    return dict(
        base=base, out=out,
        new_files=sorted(after - before),
        out_files=walk_files(out) if os.path.isdir(out) else [],
        out_dirs=walk_dirs(out) if os.path.isdir(out) else [],
        manifest=c.output_manifest(),
        error=err)
