"""C18 finding 3: copy_to_path decides "dst is a directory" by looking at the
disk.  In a manifest run nothing has been written, so a directory that the
real run creates (through an earlier output_to_relative_path) does not exist
and the manifest records the DIRECTORY name instead of the copied file."""
import os
import sys
import tempfile
from _common import run_backend
from stone.backend import CodeBackend

SRC = os.path.join(tempfile.mkdtemp(), 'res.txt')
open(SRC, 'w').write('resource')


class B(CodeBackend):
    preserve_aliases = True

    def generate(self, api):
        with self.output_to_relative_path('sub/gen.txt'):
            self.emit('x')
        self.copy_to_path(SRC, os.path.join(self.target_folder_path, 'sub'))


real = run_backend(B, manifest=False)
man = run_backend(B, manifest=True)
print('real run files       :', real['out_files'], 'error:', real['error'])
print('manifest run reports :', man['manifest'], 'error:', man['error'])
print('expected             : identical lists')
sys.exit(1 if real['out_files'] != man['manifest'] else 0)
