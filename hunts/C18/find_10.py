"""C18 finding 10 (minor): lines emitted to a file are silently dropped when
another output_to_relative_path block is opened before the first one closes
(one shared buffer, cleared on every enter and exit).  No error is raised."""
import os
import sys
import tempfile
from stone.backend import CodeBackend


class B(CodeBackend):
    def generate(self, api):
        pass


out = tempfile.mkdtemp()
b = B(out, [])
with b.output_to_relative_path('a.txt'):
    b.emit('a: line 1')
    with b.output_to_relative_path('b.txt'):
        b.emit('b: line 1')
    b.emit('a: line 2')
a = open(os.path.join(out, 'a.txt')).read()
bb = open(os.path.join(out, 'b.txt')).read()
print('a.txt = %r   expected %r (or an error on nesting)' % (a, 'a: line 1\na: line 2\n'))
print('b.txt = %r' % bb)
sys.exit(1 if a != 'a: line 1\na: line 2\n' else 0)
