"""C18 finding 11 (minor): emit_wrapped_text with empty / whitespace-only text
emits a bare newline: the enclosing indentation, prefix and initial_prefix are
all dropped (textwrap.fill returns '' for no words), unlike every other call
where each produced line starts with indent + prefix."""
import os
import sys
import tempfile
from stone.backend import CodeBackend


class B(CodeBackend):
    def generate(self, api):
        pass


bad = 0
for text in ('', '   ', '\n\t'):
    out = tempfile.mkdtemp()
    b = B(out, [])
    with b.output_to_relative_path('f.txt'):
        with b.indent():
            b.emit_wrapped_text(text, prefix='# ', initial_prefix=':param x: ')
            b.emit_wrapped_text('word', prefix='# ', initial_prefix=':param x: ')
    got = open(os.path.join(out, 'f.txt')).read()
    exp = '    # :param x:\n    # :param x: word\n'
    print('text %-7r -> %r' % (text, got))
    if not got.startswith('    # :param x:'):
        bad += 1
print('expected first line to carry the indentation and prefixes: %r' % '    # :param x: ...')
sys.exit(1 if bad else 0)
