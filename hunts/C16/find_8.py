"""C16 finding 8: tsd_types builds the doc "Defaults to <value>." and runs it through
process_doc(); a String default that looks like a doc reference is interpreted as one. An unknown
tag makes fmt_tag raise RuntimeError (backend does not complete); a known tag is silently rewritten.
(The field's own doc is also dropped whenever it has a default: `doc = ...` instead of `doc += ...`.)"""
import sys, os
sys.path.insert(0, os.path.dirname(os.path.abspath(__file__)))
from c16util import run_backend

SPEC = '''
namespace a

struct S
    fmt String = %s
        "How to render."
'''
T = {'t.tmpl': '/*TYPES*/\n'}
bad = []
rc, err, files = run_backend('tsd_types', {'a.stone': SPEC % '":emoji:`smile`"'},
                             ['t.tmpl', 'types.d.ts'], T)
print('default ":emoji:`smile`" -> rc', rc, '|', err.strip().split('\n')[-1] if rc else '')
if rc != 0:
    bad.append('tsd_types raised for fmt String = ":emoji:`smile`": ' + err.strip().split('\n')[-1])
for b in ('js_types', ):
    rc2, err2, _ = run_backend(b, {'a.stone': SPEC % '":emoji:`smile`"'}, ['types.js'])
    print(b, 'rc', rc2)
rc, err, files = run_backend('tsd_types', {'a.stone': SPEC % '":type:`S`"'},
                             ['t.tmpl', 'types.d.ts'], T)
if rc == 0:
    line = [l.strip() for l in files['types.d.ts'].split('\n') if 'Defaults to' in l][0]
    print('default ":type:`S`" ->', line)
    if ':type:`S`' not in line:
        bad.append('default value ":type:`S`" documented as: ' + line)
    if 'How to render' not in files['types.d.ts']:
        print('(also: the field doc "How to render." is missing from the output)')
if bad:
    print('OBSERVED:')
    for b in bad:
        print('  -', b)
    print('EXPECTED: tsd_types completes for every accepted spec (js_types does).')
    sys.exit(1)
print('no violation')
