"""C16 finding 15: inside `namespace x { ... }` tsd_types refers to the built-in / header types by
bare name (Array<...>, Object, Error, Timestamp is rejected by the front end but the others are
not), so a user type with that name captures the reference."""
import sys, os
sys.path.insert(0, os.path.dirname(os.path.abspath(__file__)))
from c16util import run_backend, ts_members, ts_declared

SPEC = '''
namespace shapes

struct Array
    "A user struct that is legitimately called Array."
    rows Int32
    cols Int32

struct Plot
    data Array
    labels List(String)
'''
rc, err, files = run_backend('tsd_types', {'a.stone': SPEC},
                             ['t.tmpl', 'types.d.ts', '--exclude_error_types'],
                             {'t.tmpl': '/*TYPES*/\n'})
assert rc == 0, err
t = files['types.d.ts']
decl = [n for k, n in ts_declared(t) if k == 'interface']
m = {n: typ for n, _, typ in ts_members(t, 'Plot')}
print('interfaces declared in namespace shapes:', decl)
print('Plot members:', m)
if 'Array' in decl and m['labels'].startswith('Array<'):
    print('OBSERVED: `labels: %s` sits next to `export interface Array {rows, cols}`; the name Array '
          'resolves to the non-generic user interface shapes.Array, not to the list type.' % m['labels'])
    print('EXPECTED: List(String) declared at its mapped type (a list of string), every referenced '
          'name resolving to the intended declaration.')
    sys.exit(1)
print('no violation')
