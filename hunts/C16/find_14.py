"""C16 finding 14: names are never checked against JavaScript/TypeScript reserved words or for
emptiness. (a) A namespace / type called delete, new, void ... is copied verbatim into
`namespace delete {`, `import { delete }`, `export type void = ...`. (b) Names made only of
separators ('_', '-') camel-case to the empty string: js_client emits `routes. = function`."""
import sys, os
sys.path.insert(0, os.path.dirname(os.path.abspath(__file__)))
from c16util import (run_backend, node_check, ts_declared, JS_RESERVED, TS_BAD_TYPE_NAMES)

bad = []
SPEC_A = '''
namespace delete

struct new
    function String

union void
    typeof
    var new

route switch(new, void, void)
'''
rc, err, files = run_backend('tsd_types', {'a.stone': SPEC_A},
                             ['t.tmpl', 'types.d.ts', '--exclude_error_types', '--export-namespaces'],
                             {'t.tmpl': '/*TYPES*/\n'})
assert rc == 0, err
for kind, name in ts_declared(files['types.d.ts']):
    if name in JS_RESERVED or (kind != 'namespace' and name in TS_BAD_TYPE_NAMES):
        bad.append('tsd_types declares %s %s' % (kind, name))
rc, err, files = run_backend('tsd_client', {'a.stone': SPEC_A},
                             ['c.tmpl', 'client.d.ts', '--import-namespaces', '--types-file', './t'],
                             {'c.tmpl': '/*IMPORT*/\nclass C {\n/*ROUTES*/\n}\n'})
assert rc == 0, err
imp = [l for l in files['client.d.ts'].split('\n') if l.startswith('import')][0]
nrc, nerr = node_check(imp + '\n')
if nrc:
    bad.append('tsd_client import line %r is rejected even as plain ES syntax: %s'
               % (imp, [l for l in nerr.split('\n') if 'Error' in l][0]))
sig = [l.strip() for l in files['client.d.ts'].split('\n') if 'public ' in l][0]
bad.append('tsd_client: ' + sig)

SPEC_B = '''
namespace _

route _-(Void, Void, Void)
route _-:2(Void, Void, Void)
'''
rc, err, files = run_backend('js_client', {'a.stone': SPEC_B}, ['routes.js'])
assert rc == 0, err
nrc, nerr = node_check(files['routes.js'])
if nrc:
    bad.append('js_client for namespace _ / route _- : node --check fails on %r'
               % [l for l in files['routes.js'].split('\n') if l.startswith('routes.')][0])
rc, err, files = run_backend('tsd_client', {'a.stone': SPEC_B}, ['c.tmpl', 'client.d.ts'],
                             {'c.tmpl': 'class C {\n/*ROUTES*/\n}\n'})
for l in files['client.d.ts'].split('\n'):
    if 'public (' in l:
        bad.append('tsd_client for namespace _ / route _- : %r' % l.strip())
if len(bad) > 1:
    print('OBSERVED (specs accepted, backends exit 0):')
    for b in bad:
        print('  -', b)
    print('EXPECTED: output that parses as JavaScript / TypeScript.')
    sys.exit(1)
print('no violation')
