"""C16 finding 9: client function names are fmt_camel(namespace + '_' + route); the conflict check
only looks inside one namespace, so routes of different namespaces can get the same name. In
js_client the second assignment overwrites the first (a route is lost); tsd_client declares the
method twice."""
import sys, os
sys.path.insert(0, os.path.dirname(os.path.abspath(__file__)))
from c16util import run_backend, node_check, eval_client

SPECS = {
    'a.stone': 'namespace team\n\nroute log_get_events(Void, Void, Void)\n',
    'b.stone': 'namespace team_log\n\nroute get_events(Void, Void, Void)\n',
}
rc, err, files = run_backend('js_client', SPECS, ['routes.js'])
assert rc == 0, err
t = files['routes.js']
assert node_check(t)[0] == 0
calls, _ = eval_client(t)
print('functions defined by js_client and the request they make:', calls)
rc, err, files = run_backend('tsd_client', SPECS, ['c.tmpl', 'client.d.ts'],
                             {'c.tmpl': 'class C {\n/*ROUTES*/\n}\n'})
assert rc == 0, err
sigs = [l.strip() for l in files['client.d.ts'].split('\n') if 'public ' in l]
print('tsd_client:', sigs)
urls = sorted(c[0][0] for c in calls.values())
if urls != ['team/log_get_events', 'team_log/get_events'] or len(set(sigs)) != len(sigs):
    print('OBSERVED: 2 routes, but js_client exposes %d function(s) reaching %r; '
          'tsd_client declares %r' % (len(calls), urls, sigs))
    print('EXPECTED: one function / method per route version '
          '(team/log_get_events and team_log/get_events are both reachable).')
    sys.exit(1)
print('no violation')
