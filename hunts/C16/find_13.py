"""C16 finding 13: in file-per-namespace mode tsd_types imports every namespace returned by
get_imported_namespaces(), including one imported only for a custom annotation; such a namespace has no
data types, so no .d.ts is generated for it and the import points at a module that does not exist."""
import sys, os, re
sys.path.insert(0, os.path.dirname(os.path.abspath(__file__)))
from c16util import run_backend

SPECS = {
    'a.stone': 'namespace a\n\nimport common\n\nstruct S\n    x String\n        @common.Important\n',
    'common.stone': 'namespace common\n\nannotation_type Noteworthy\n    importance String = "low"\n\nannotation Important = Noteworthy("high")\n',
}
rc, err, files = run_backend('tsd_types', SPECS, ['t.tmpl', '--exclude_error_types'],
                             {'t.tmpl': '/*TYPES*/\n'})
assert rc == 0, err
print('generated files:', sorted(files))
imports = re.findall(r"import \* as (\S+) from '([^']+)';", files['a.d.ts'])
print('a.d.ts imports:', imports)
missing = [m for _, m in imports if m + '.d.ts' not in files]
if missing:
    print("OBSERVED: a.d.ts imports module(s) %r but no such declaration file is generated "
          "(namespace has no types and is skipped)." % missing)
    print('EXPECTED: no output references a name that is neither declared nor (resolvably) imported.')
    sys.exit(1)
print('no violation')
