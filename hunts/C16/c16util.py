"""Shared helper for C16 experiments: run the JS/TS backends over spec text."""
import os
import subprocess
import sys
import tempfile

ROOT = os.path.dirname(os.path.abspath(__file__))
PY = '/venv/bin/python'


def run_backend(backend, specs, args=(), templates=None, cli_args=('-a', ':all')):
    """specs: {filename: text}. Returns (rc, stderr, {outfile: text})."""
    d = tempfile.mkdtemp(prefix='c16_')
    out = os.path.join(d, 'out')
    os.makedirs(out)
    paths = []
    for fn, text in specs.items():
        p = os.path.join(d, fn)
        with open(p, 'w', encoding='utf-8') as f:
            f.write(text)
        paths.append(p)
    for fn, text in (templates or {}).items():
        with open(os.path.join(out, fn), 'w', encoding='utf-8') as f:
            f.write(text)
    cmd = [PY, '-m', 'stone.cli', backend, out] + paths + list(cli_args) + ['--'] + list(args)
    env = dict(os.environ, PYTHONPATH=ROOT)
    p = subprocess.run(cmd, env=env, capture_output=True, text=True, cwd=ROOT)
    files = {}
    for base, _, fns in os.walk(out):
        for fn in fns:
            if fn in (templates or {}):
                continue
            with open(os.path.join(base, fn), encoding='utf-8') as f:
                files[os.path.relpath(os.path.join(base, fn), out)] = f.read()
    return p.returncode, p.stderr, files


def node_check(text, suffix='.mjs'):
    fd, path = tempfile.mkstemp(suffix=suffix)
    with os.fdopen(fd, 'w', encoding='utf-8') as f:
        f.write(text)
    p = subprocess.run(['node', '--check', path], capture_output=True, text=True)
    return p.returncode, p.stderr


HARNESS = r"""
const calls = [];
const mod = await import(process.argv[2]);
const ctx = { request: function () { calls.push(Array.from(arguments)); return null; } };
const out = {};
for (const k of Object.keys(mod.routes)) {
  calls.length = 0;
  mod.routes[k].call(ctx, 'ARG', 'OPTS');
  out[k] = calls.slice();
}
console.log(JSON.stringify(out));
"""


def eval_client(text):
    """Returns {function_name: [request args]} by evaluating generated js_client."""
    import json
    d = tempfile.mkdtemp(prefix='c16js_')
    mp = os.path.join(d, 'routes.mjs')
    hp = os.path.join(d, 'h.mjs')
    with open(mp, 'w', encoding='utf-8') as f:
        f.write(text)
    with open(hp, 'w', encoding='utf-8') as f:
        f.write(HARNESS)
    p = subprocess.run(['node', hp, mp], capture_output=True, text=True)
    if p.returncode != 0:
        return None, p.stderr
    return json.loads(p.stdout), ''


def all_backends(specs, js_client_args=(), js_types_args=(), tsd_types_args=(),
                 tsd_client_args=(), split=False):
    res = {}
    res['js_client'] = run_backend('js_client', specs, ['routes.js'] + list(js_client_args))
    res['js_types'] = run_backend('js_types', specs, ['types.js'] + list(js_types_args))
    ta = ['t.tmpl'] + ([] if split else ['types.d.ts']) + list(tsd_types_args)
    res['tsd_types'] = run_backend('tsd_types', specs, ta, {'t.tmpl': '/*TYPES*/\n'})
    res['tsd_client'] = run_backend(
        'tsd_client', specs, ['c.tmpl', 'client.d.ts'] + list(tsd_client_args),
        {'c.tmpl': '/*IMPORT*/\nclass C {\n/*ROUTES*/\n}\n'})
    return res


def show(specs, **kw):
    res = all_backends(specs, **kw)
    for b, (rc, err, files) in res.items():
        print('=' * 20, b, 'rc=%s' % rc)
        if rc:
            print(err[-1500:])
        for fn, t in files.items():
            print('-' * 10, fn)
            print(t)
    return res


if __name__ == '__main__':
    show({'a.stone': open(sys.argv[1]).read()})


# ---------------------------------------------------------------------------
# Tiny declaration scanners used by the find_N scripts.
import re

IDENT = re.compile(r'^[A-Za-z_$][A-Za-z0-9_$]*$')
JS_RESERVED = set('''break case catch class const continue debugger default delete do else enum
export extends false finally for function if import in instanceof new null return super switch
this throw true try typeof var void while with'''.split())
TS_BAD_TYPE_NAMES = set('any boolean never number object string symbol undefined unknown void'.split())


def ts_declared(text):
    """[(kind, name)] for namespace / interface / type declarations in a .d.ts text."""
    out = []
    for m in re.finditer(r'^\s*(?:export\s+|declare\s+)*(namespace|interface|type)\s+(\S+)',
                         text, re.M):
        name = m.group(2)
        name = re.sub(r'<.*', '', name)
        out.append((m.group(1), name))
    return out


def ts_members(text, interface):
    """member lines ('name', optional?, 'type') of `export interface <interface>`."""
    m = re.search(r'interface %s(?: extends [^{]+)? \{\n(.*?)\n\s*\}' % re.escape(interface),
                  text, re.S)
    if not m:
        return None
    out = []
    for line in m.group(1).split('\n'):
        line = line.strip()
        if not line or line.startswith(('/*', '*', '//')):
            continue
        mm = re.match(r"^(.*?)(\?)?: (.*);$", line)
        if mm:
            out.append((mm.group(1), bool(mm.group(2)), mm.group(3)))
        else:
            out.append((line, None, None))
    return out


def jsdoc_typedefs(text):
    """{name: [(type, propname)]} plus list of all typedef names in order."""
    names = []
    props = {}
    for block in re.findall(r'/\*\*.*?\*/', text, re.S):
        m = re.search(r'@typedef \{[^}]*\} (\S+)', block)
        if not m:
            continue
        names.append(m.group(1))
        props.setdefault(m.group(1), []).extend(
            re.findall(r'@property \{(.*?)\} (\S+)', block))
    return names, props
