"""C16 finding 2: Nullable(...) anywhere except directly on a struct field is mapped to the
fallback name 'Object' by tsd_helpers.fmt_type_name / js_helpers.fmt_type_name."""
import sys, os
sys.path.insert(0, os.path.dirname(os.path.abspath(__file__)))
from c16util import run_backend, ts_members, jsdoc_typedefs
import re

SPEC = '''
namespace a

alias NS = String?

struct S
    l List(String?)
    m Map(String, Int32?)

union U
    n String?
    t S?

route r(S?, S?, S?)
'''
bad = []
rc, err, files = run_backend('tsd_types', {'a.stone': SPEC}, ['t.tmpl', 'types.d.ts'],
                             {'t.tmpl': '/*TYPES*/\n'})
assert rc == 0, err
t = files['types.d.ts']
for iface in ('S', 'UN', 'UT'):
    for name, opt, typ in ts_members(t, iface):
        if typ and 'Object' in typ:
            bad.append('tsd_types  %s.%s: %s' % (iface, name, typ))
m = re.search(r'export type NS = (.*);', t)
if m.group(1) == 'Object':
    bad.append('tsd_types  alias NS = String?  ->  export type NS = Object;')

rc, err, files = run_backend('js_types', {'a.stone': SPEC}, ['types.js'])
assert rc == 0, err
_, props = jsdoc_typedefs(files['types.js'])
for typ, name in props['AS']:
    if name == 'l' and 'Object' in typ:   # (every Map is {Object} in JSDoc; not counted)
        bad.append('js_types   AS.%s: {%s}' % (name, typ))

rc, err, files = run_backend('tsd_client', {'a.stone': SPEC}, ['c.tmpl', 'client.d.ts'],
                             {'c.tmpl': 'class C {\n/*ROUTES*/\n}\n'})
assert rc == 0, err
for line in files['client.d.ts'].split('\n'):
    if 'public ' in line and 'Object' in line:
        bad.append('tsd_client ' + line.strip() + '   (route r(S?, S?, S?))')
    if 'rejects' in line or 'Error<' in line:
        if 'Object' in line:
            bad.append('tsd_client doc: ' + line.strip())

if bad:
    print('OBSERVED: nullable types are emitted as the catch-all name "Object":')
    for b in bad:
        print('  -', b)
    print('EXPECTED: the mapped inner type (string / number / a.S ...), e.g. Array<string | null>,')
    print('          n?: string, arg: a.S | null -- never the unrelated type Object.')
    sys.exit(1)
print('no violation')
