"""C16 finding 10: js_client and tsd_client refuse (RuntimeError) specs that the front end accepts
when two routes of one namespace camel-case to the same function name."""
import sys, os
sys.path.insert(0, os.path.dirname(os.path.abspath(__file__)))
from c16util import run_backend

CASES = {
    'get_x vs get/x': 'namespace a\n\nroute get_x(Void, Void, Void)\nroute get/x(Void, Void, Void)\n',
    'r:2 vs r_v2': ('namespace a\n\nroute r(Void, Void, Void)\nroute r:2(Void, Void, Void)\n'
                    'route r_v2(Void, Void, Void)\n'),
}
bad = []
for label, spec in CASES.items():
    for backend, args, tm in (('js_types', ['types.js'], None),
                              ('js_client', ['routes.js'], None),
                              ('tsd_client', ['c.tmpl', 'client.d.ts'],
                               {'c.tmpl': 'class C {\n/*ROUTES*/\n}\n'})):
        rc, err, files = run_backend(backend, {'a.stone': spec}, args, tm)
        last = err.strip().split('\n')[-1] if rc else 'ok'
        print('%-14s %-10s rc=%d %s' % (label, backend, rc, last))
        if rc and 'RuntimeError' in last:
            bad.append((label, backend, last))
if bad:
    print('OBSERVED: the spec is accepted (js_types completes) but the client backends raise:')
    for b in bad:
        print('  - %s: %s: %s' % b)
    print('EXPECTED: for every accepted spec the JavaScript and TypeScript backends complete and '
          'define one function per route version.')
    sys.exit(1)
print('no violation')
