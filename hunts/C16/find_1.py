"""C16 finding 1: hyphens are legal in Stone identifiers but are copied verbatim into
TypeScript, so tsd_types / tsd_client output is not well formed."""
import sys, os
sys.path.insert(0, os.path.dirname(os.path.abspath(__file__)))
from c16util import run_backend, ts_declared, ts_members, IDENT

SPEC = '''
namespace my-ns

struct Foo-Bar
    a-b String
    c String?

union U
    x-y String
    z

route get-thing(Foo-Bar, Void, U)
'''
bad = []
rc, err, files = run_backend('tsd_types', {'a.stone': SPEC}, ['t.tmpl', 'types.d.ts'],
                             {'t.tmpl': '/*TYPES*/\n'})
assert rc == 0, err
t = files['types.d.ts']
for kind, name in ts_declared(t):
    if not IDENT.match(name):
        bad.append('tsd_types declares %s %r (not a TypeScript identifier)' % (kind, name))
for iface in ('Foo-Bar', 'UXY'):
    for name, _, typ in ts_members(t, iface) or []:
        if not (IDENT.match(name) or name.startswith("'")):
            bad.append('tsd_types: interface %s has unquoted member %r' % (iface, name))

rc, err, files = run_backend('tsd_client', {'a.stone': SPEC},
                             ['c.tmpl', 'client.d.ts', '--import-namespaces', '--types-file', './t'],
                             {'c.tmpl': '/*IMPORT*/\nclass C {\n/*ROUTES*/\n}\n'})
assert rc == 0, err
c = files['client.d.ts']
for line in c.split('\n'):
    if line.startswith('import') and 'my-ns' in line:
        bad.append('tsd_client: ' + line.strip())
    if 'public ' in line and 'my-ns.' in line:
        bad.append('tsd_client: ' + line.strip())

if bad:
    print('OBSERVED (spec accepted by the front end, rc=0 from the backends):')
    for b in bad:
        print('  -', b)
    print('EXPECTED: well-formed TypeScript (names quoted or mangled into identifiers).')
    sys.exit(1)
print('no violation')
