"""C16 finding 12: js_helpers.fmt_obj renders String attribute values with Python repr(); for
non-printable astral characters repr() emits \\UXXXXXXXX, which is not a JavaScript escape, so
request() receives a different string (the output still passes node --check)."""
import sys, os
sys.path.insert(0, os.path.dirname(os.path.abspath(__file__)))
from c16util import run_backend, node_check, eval_client

VALUE = 'tag\U000e0001end'          # U+E0001 LANGUAGE TAG, category Cf
SPECS = {
    'a.stone': 'namespace a\n\nroute r(Void, Void, Void)\n    attrs\n        marker = "%s"\n' % VALUE,
    'cfg.stone': 'namespace stone_cfg\n\nstruct Route\n    marker String = "x"\n',
}
rc, err, files = run_backend('js_client', SPECS, ['routes.js'])
assert rc == 0, err
t = files['routes.js']
print([l for l in t.split('\n') if 'request(' in l][0])
assert node_check(t)[0] == 0
calls, _ = eval_client(t)
got = calls['aR'][0][2]
print('attribute value in spec :', ascii(VALUE))
print('value passed to request :', ascii(got))
if got != VALUE:
    print('OBSERVED: request() gets %s' % ascii(got))
    print('EXPECTED: the route\'s attribute value %s' % ascii(VALUE))
    sys.exit(1)
print('no violation')
