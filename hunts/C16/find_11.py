"""C16 finding 11: generated declaration names collide, so a struct/union is declared twice
(TypeScript merges the two interfaces; JSDoc keeps one typedef).
 tsd_types: <Union><PascalTag> member interfaces and <Struct>Reference interfaces share the
            namespace with user types.
 js_types : typedef names are fmt_pascal(namespace + name): the namespace/type boundary and
            '-'/'_' are lost, and the fixed header typedef 'UserMessage' is not reserved."""
import sys, os, collections
sys.path.insert(0, os.path.dirname(os.path.abspath(__file__)))
from c16util import run_backend, ts_declared, jsdoc_typedefs

bad = []
TS_SPEC = '''
namespace files

union Lookup
    pending
    path String

struct LookupPath
    "A user type that happens to be called like the member interface of Lookup.path"
    root String

struct Metadata
    union
        file FileMetadata
    name String

struct FileMetadata extends Metadata
    size UInt64

struct MetadataReference
    "A user type called like the generated polymorphic reference of Metadata"
    id String
'''
rc, err, files = run_backend('tsd_types', {'a.stone': TS_SPEC},
                             ['t.tmpl', 'types.d.ts', '--exclude_error_types'],
                             {'t.tmpl': '/*TYPES*/\n'})
assert rc == 0, err
cnt = collections.Counter(ts_declared(files['types.d.ts']))
for (kind, name), n in cnt.items():
    if n > 1:
        bad.append('tsd_types: %s %s declared %d times in namespace files' % (kind, name, n))

JS_SPECS = {
    'a.stone': 'namespace user\n\nstruct Message\n    body String\n',
    'b.stone': 'namespace team_log\n\nstruct Event\n    x String\n\nstruct Get-Info\n    a String\n\n'
               'struct Get_Info\n    b String\n',
    'c.stone': 'namespace team\n\nstruct LogEvent\n    y Int32\n',
}
rc, err, files = run_backend('js_types', JS_SPECS, ['types.js'])
assert rc == 0, err
names, _ = jsdoc_typedefs(files['types.js'])
for name, n in collections.Counter(names).items():
    if n > 1:
        bad.append('js_types: @typedef %s emitted %d times' % (name, n))
if bad:
    print('OBSERVED (all specs accepted, backends exit 0):')
    for b in bad:
        print('  -', b)
    print('EXPECTED: every struct and union declared exactly once.')
    sys.exit(1)
print('no violation')
