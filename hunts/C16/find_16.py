"""C16 finding 16: tsd_types / tsd_client splice their output into the template with
`template[marker_end + 1:]`, i.e. they always drop the character after the /*TYPES*/ (/*ROUTES*/,
/*IMPORT*/) marker, assuming it is a newline. With a template that closes the block on the same
line the closing brace is lost."""
import sys, os
sys.path.insert(0, os.path.dirname(os.path.abspath(__file__)))
from c16util import run_backend

SPEC = 'namespace a\n\nstruct S\n    x String\n\nroute r(S, Void, Void)\n'
bad = []
tmpl = "declare module 'sdk' {\n/*TYPES*/}\n"
rc, err, files = run_backend('tsd_types', {'a.stone': SPEC},
                             ['t.tmpl', 'types.d.ts', '--exclude_error_types'], {'t.tmpl': tmpl})
assert rc == 0, err
t = files['types.d.ts']
if t.count('{') != t.count('}'):
    bad.append('tsd_types template %r -> %d "{" vs %d "}"; output ends with %r'
               % (tmpl, t.count('{'), t.count('}'), t[-30:]))
tmpl = "declare class Sdk {\n/*ROUTES*/}\n"
rc, err, files = run_backend('tsd_client', {'a.stone': SPEC}, ['c.tmpl', 'client.d.ts'],
                             {'c.tmpl': tmpl})
assert rc == 0, err
t = files['client.d.ts']
if t.count('{') != t.count('}'):
    bad.append('tsd_client template %r -> %d "{" vs %d "}"; output ends with %r'
               % (tmpl, t.count('{'), t.count('}'), t[-40:]))
if bad:
    print('OBSERVED:')
    for b in bad:
        print('  -', b)
    print('EXPECTED: the template text around the marker is preserved; output is well formed.')
    sys.exit(1)
print('no violation')
