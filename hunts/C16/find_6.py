"""C16 finding 6: js_client / tsd_client test `route.arg_data_type.__class__ != Void`, so a route
whose argument is an alias of Void is generated with an `arg` parameter that is forwarded to
request() instead of null."""
import sys, os
sys.path.insert(0, os.path.dirname(os.path.abspath(__file__)))
from c16util import run_backend, node_check, eval_client

SPEC = '''
namespace a

alias Nothing = Void

route direct(Void, Void, Void)
route aliased(Nothing, Nothing, Nothing)
'''
rc, err, files = run_backend('js_client', {'a.stone': SPEC}, ['routes.js'])
assert rc == 0, err
t = files['routes.js']
assert node_check(t)[0] == 0
calls, e = eval_client(t)   # every function is called as f('ARG', 'OPTS')
print('request() calls:', calls)
rc, err, files = run_backend('tsd_client', {'a.stone': SPEC}, ['c.tmpl', 'client.d.ts'],
                             {'c.tmpl': 'class C {\n/*ROUTES*/\n}\n'})
assert rc == 0, err
sigs = [l.strip() for l in files['client.d.ts'].split('\n') if 'public ' in l]
print('tsd_client:', sigs)
bad = []
if calls['aDirect'] == [['a/direct', None]] and calls['aAliased'] != [['a/aliased', None]]:
    bad.append('js_client: aliased -> request%r (direct -> request%r)'
               % (tuple(calls['aAliased'][0]), tuple(calls['aDirect'][0])))
if any('aAliased(arg' in s for s in sigs):
    bad.append('tsd_client: ' + [s for s in sigs if 'aAliased' in s][0])
if bad:
    print('OBSERVED:')
    for b in bad:
        print('  -', b)
    print('EXPECTED: a route without an argument requests (url, null, ...) and is declared '
          'without an arg parameter, returning Promise<void>.')
    sys.exit(1)
print('no violation')
