"""C16 finding 5: js_helpers.fmt_type_name does not know aliases (js_types/js_client run with
preserve_aliases=True and only the outermost alias of a field is unwrapped), so an alias nested in
a List is documented as 'Object', and so is every route argument/result typed by an alias."""
import sys, os
sys.path.insert(0, os.path.dirname(os.path.abspath(__file__)))
from c16util import run_backend, jsdoc_typedefs

SPEC = '''
namespace a

alias Name = String
alias Names = List(Name)
alias SA = S

struct S
    direct List(String)
    aliased List(Name)
    nested Names?
    structs List(SA)

route r(SA, Names, Void)
'''
bad = []
rc, err, files = run_backend('js_types', {'a.stone': SPEC}, ['types.js'])
assert rc == 0, err
_, props = jsdoc_typedefs(files['types.js'])
p = {n.strip('[]'): t for t, n in props['AS']}
print('js_types AS:', p)
if p['direct'] == 'Array.<string>' and p['aliased'] != 'Array.<string>':
    bad.append('aliased List(Name): {%s} (direct List(String): {%s})' % (p['aliased'], p['direct']))
if p['nested'] != 'Array.<string>':
    bad.append('nested Names? (= List(Name)): {%s}' % p['nested'])
if p['structs'] != 'Array.<AS>':
    bad.append('structs List(SA): {%s} (expected Array.<AS>)' % p['structs'])
rc, err, files = run_backend('js_client', {'a.stone': SPEC}, ['routes.js'])
assert rc == 0, err
for line in files['routes.js'].split('\n'):
    if '@arg' in line or '@returns' in line:
        print('js_client:', line.strip())
        if 'Object' in line:
            bad.append('js_client route r(SA, Names, Void): ' + line.strip())
if bad:
    print('OBSERVED:')
    for b in bad:
        print('  -', b)
    print('EXPECTED: every field at its mapped type (Array.<string>, Array.<AS>, AS).')
    sys.exit(1)
print('no violation')
