"""C16 finding 4: tsd_types decides the shape of a union member / container element from the
outermost IR node only, so the same Stone type is declared differently depending on whether it is
written directly, through an alias, or inside a Map."""
import sys, os
sys.path.insert(0, os.path.dirname(os.path.abspath(__file__)))
from c16util import run_backend, ts_members
import re

SPEC = '''
namespace a

alias V = Void
alias SA = S

struct S
    x String

struct Res
    union
        file File
    name String

struct File extends Res
    size UInt64

union U
    v_direct
    v_alias V
    s_direct S
    s_alias SA

struct Holder
    one Res
    lst List(Res)
    mp Map(String, Res)
'''
rc, err, files = run_backend('tsd_types', {'a.stone': SPEC}, ['t.tmpl', 'types.d.ts'],
                             {'t.tmpl': '/*TYPES*/\n'})
assert rc == 0, err
t = files['types.d.ts']
bad = []


def decl(name):
    return re.search(r'export interface %s[^\n]*\{\n.*?\n\s*\}' % name, t, re.S).group(0)


vd, va = ts_members(t, 'UVDirect'), ts_members(t, 'UVAlias')
if len(vd) == 1 and len(va) == 2:
    bad.append('void tag through alias gets a value member:\n' + decl('UVAlias'))
sd, sa = decl('USDirect'), decl('USAlias')
if 'extends S' in sd and 'extends' not in sa:
    bad.append('struct member: direct form is flattened (extends S, as on the wire) but the alias '
               'form nests it:\n' + sd + '\n' + sa)
h = {n: typ for n, _, typ in ts_members(t, 'Holder')}
if 'Reference' in h['one'] and 'Reference' in h['lst'] and 'Reference' not in h['mp']:
    bad.append('struct with enumerated subtypes: field/list use the tagged references (%s) but '
               'the Map value is the bare interface without .tag: mp: %s' % (h['one'], h['mp']))
if bad:
    print('OBSERVED:')
    for b in bad:
        print(' *', b)
    print('EXPECTED: every field and tag declared at its mapped type, independent of aliasing '
          '(js_types unwraps aliases and emits no value for v_alias, and {AS} for both s_*).')
    sys.exit(1)
print('no violation')
