"""C16 finding 3: tsd_types marks a field optional only when the field's *outermost* type is
Nullable; a field typed by an alias of a nullable type is emitted as required, while js_types
(which unwraps aliases) marks the same field optional."""
import sys, os
sys.path.insert(0, os.path.dirname(os.path.abspath(__file__)))
from c16util import run_backend, ts_members, jsdoc_typedefs

SPEC = '''
namespace a

alias MaybeName = String?

struct S
    direct String?
    via_alias MaybeName
    plain String
'''
rc, err, files = run_backend('tsd_types', {'a.stone': SPEC}, ['t.tmpl', 'types.d.ts'],
                             {'t.tmpl': '/*TYPES*/\n'})
assert rc == 0, err
ts = {n: (opt, typ) for n, opt, typ in ts_members(files['types.d.ts'], 'S')}
rc, err, files = run_backend('js_types', {'a.stone': SPEC}, ['types.js'])
assert rc == 0, err
_, props = jsdoc_typedefs(files['types.js'])
js = {n.strip('[]'): n.startswith('[') for _, n in props['AS']}
print('TypeScript :', ts)
print('JSDoc      :', js)
if ts['direct'][0] and js['direct'] and js['via_alias'] and not ts['via_alias'][0]:
    print('OBSERVED: nullable field `via_alias MaybeName` (MaybeName = String?) is optional in the '
          'JSDoc typedef ([via_alias]) but REQUIRED in the TypeScript interface (via_alias: MaybeName).')
    print('EXPECTED: TypeScript marks a field optional exactly when it is nullable or defaulted.')
    sys.exit(1)
print('no violation')
