"""C16 finding 7: --attribute-comment copies the raw attribute value into the /** */ block of
js_client and tsd_client without the escaping that docs get: a '*/' in a String attribute ends the
comment (node --check fails), a newline makes both backends raise AssertionError."""
import sys, os
sys.path.insert(0, os.path.dirname(os.path.abspath(__file__)))
from c16util import run_backend, node_check

CFG = '''
namespace stone_cfg
struct Route
    note String = "x"
'''
SPEC = r'''
namespace a
route r(Void, Void, Void)
    "doc with */ is escaped"
    attrs
        note = %s
'''
bad = []
specs = {'a.stone': SPEC % '"glob **/*.txt */ only"', 'cfg.stone': CFG}
rc, err, files = run_backend('js_client', specs, ['routes.js', '-a', 'note'])
assert rc == 0, err
t = files['routes.js']
nrc, nerr = node_check(t)
if nrc != 0:
    bad.append('js_client -a note, note = "glob **/*.txt */ only": node --check fails:\n'
               + '\n'.join(nerr.split('\n')[:5]) + '\n--- generated ---\n' + t)
rc, err, files = run_backend('tsd_client', specs, ['c.tmpl', 'client.d.ts', '-a', 'note'],
                             {'c.tmpl': 'class C {\n/*ROUTES*/\n}\n'})
assert rc == 0, err
lines = files['client.d.ts'].split('\n')
for i, l in enumerate(lines):
    if 'note:' in l and '*/' in l:
        bad.append('tsd_client: comment closed early by the attribute line:\n' + '\n'.join(lines[i-2:i+5]))

specs = {'a.stone': SPEC % r'"line1\nline2"', 'cfg.stone': CFG}
for backend, args, tm in (('js_client', ['routes.js', '-a', 'note'], None),
                          ('tsd_client', ['c.tmpl', 'client.d.ts', '-a', 'note'],
                           {'c.tmpl': 'class C {\n/*ROUTES*/\n}\n'})):
    rc, err, files = run_backend(backend, specs, args, tm)
    if rc != 0:
        bad.append('%s -a note, note = "line1\\nline2": backend raised: %s'
                   % (backend, err.strip().split('\n')[-1]))
if bad:
    print('OBSERVED:')
    for b in bad:
        print(' *', b)
    print('EXPECTED: backends complete and the output parses for every accepted spec and every '
          'attribute-comment option.')
    sys.exit(1)
print('no violation')
