"""C08 finding 9: String(pattern="") is treated as 'no pattern' -- every string is accepted although only the empty string matches the empty pattern as a whole."""
import os, sys, subprocess, tempfile, datetime
ROOT = os.path.dirname(os.path.abspath(__file__))
sys.path.insert(0, ROOT)
from stone.backends.python_rsrc import stone_validators as bv
from stone.backends.python_rsrc import stone_base as bb
from stone.backends.python_rsrc import stone_serializers as ss

def build(pkg, **specs):
    """Compile the given specs with the python_types backend and make the package importable."""
    d = tempfile.mkdtemp(prefix='c08_')
    paths = []
    for name, text in specs.items():
        p = os.path.join(d, name + '.stone')
        with open(p, 'w') as fh:
            fh.write(text)
        paths.append(p)
    env = dict(os.environ, PYTHONPATH=ROOT)
    subprocess.check_call([sys.executable, '-m', 'stone.cli', 'python_types',
                           os.path.join(d, 'out', pkg)] + paths + ['--', '-p', pkg], env=env)
    sys.path.insert(0, os.path.join(d, 'out'))

def outcome(fn):
    """Returns ('ok', value) | ('ValidationError', msg) | (other exception name, msg)."""
    try:
        return ('ok', fn())
    except bv.ValidationError as e:
        return ('ValidationError', str(e))
    except BaseException as e:
        return (type(e).__name__, str(e))

BAD = []
def expect(label, got, want):
    """want is 'ok' or 'ValidationError'."""
    flag = 'as required' if got[0] == want else 'VIOLATION'
    print('%-62s observed=%-16s expected=%-16s %s   %r' % (label, got[0], want, flag, got[1]))
    if got[0] != want:
        BAD.append(label)

def finish():
    if BAD:
        print('\n%d violation(s) of C08: %s' % (len(BAD), BAD))
        sys.exit(1)
    print('\nno violation observed')
    sys.exit(0)

import re
build('f9pkg', n='''
namespace n

struct S
    e String(pattern="")?
    e2 String(pattern="(?:)")?
''')
from f9pkg import n

def setf(field, v):
    def fn():
        s = n.S()
        setattr(s, field, v)
        return getattr(s, field)
    return fn

print('reference: re.fullmatch("", "abc") = %r, re.fullmatch("", "") = %r' % (re.fullmatch('', 'abc'), re.fullmatch('', '')))
expect('S.e = ""', outcome(setf('e', '')), 'ok')
expect('S.e = "abc"   (pattern "")', outcome(setf('e', 'abc')), 'ValidationError')
expect('S.e2 = "abc"  (contrast: equivalent pattern "(?:)")', outcome(setf('e2', 'abc')), 'ValidationError')
expect('bv.String(pattern="").validate("abc")', outcome(lambda: bv.String(pattern='').validate('abc')), 'ValidationError')
finish()
