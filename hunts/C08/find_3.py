"""C08 finding 3: Float32 refuses finite values that are inside the float32 range (range constant truncated to 3.40282e38)."""
import os, sys, subprocess, tempfile, datetime
ROOT = os.path.dirname(os.path.abspath(__file__))
sys.path.insert(0, ROOT)
from stone.backends.python_rsrc import stone_validators as bv
from stone.backends.python_rsrc import stone_base as bb
from stone.backends.python_rsrc import stone_serializers as ss

def build(pkg, **specs):
    """Compile the given specs with the python_types backend and make the package importable."""
    d = tempfile.mkdtemp(prefix='c08_')
    paths = []
    for name, text in specs.items():
        p = os.path.join(d, name + '.stone')
        with open(p, 'w') as fh:
            fh.write(text)
        paths.append(p)
    env = dict(os.environ, PYTHONPATH=ROOT)
    subprocess.check_call([sys.executable, '-m', 'stone.cli', 'python_types',
                           os.path.join(d, 'out', pkg)] + paths + ['--', '-p', pkg], env=env)
    sys.path.insert(0, os.path.join(d, 'out'))

def outcome(fn):
    """Returns ('ok', value) | ('ValidationError', msg) | (other exception name, msg)."""
    try:
        return ('ok', fn())
    except bv.ValidationError as e:
        return ('ValidationError', str(e))
    except BaseException as e:
        return (type(e).__name__, str(e))

BAD = []
def expect(label, got, want):
    """want is 'ok' or 'ValidationError'."""
    flag = 'as required' if got[0] == want else 'VIOLATION'
    print('%-62s observed=%-16s expected=%-16s %s   %r' % (label, got[0], want, flag, got[1]))
    if got[0] != want:
        BAD.append(label)

def finish():
    if BAD:
        print('\n%d violation(s) of C08: %s' % (len(BAD), BAD))
        sys.exit(1)
    print('\nno violation observed')
    sys.exit(0)

import struct
build('f3pkg', n='''
namespace n

struct S
    g Float32?
''')
from f3pkg import n

FLT_MAX = struct.unpack('<f', struct.pack('<I', 0x7f7fffff))[0]   # 3.4028234663852886e+38
print('largest finite float32 = %r' % FLT_MAX)

def setf(v):
    def fn():
        s = n.S()
        s.g = v
        return s.g
    return fn

for v in (3.40282e38, 3.4028201e38, 3.4028234e38, FLT_MAX, -FLT_MAX):
    # every one of these packs into a float32 without overflow
    struct.pack('<f', v)
    expect('S.g = %r' % v, outcome(setf(v)), 'ok')
expect('S.g = 3.5e38 (really out of float32 range)', outcome(setf(3.5e38)), 'ValidationError')
# the compiler has the same constant, so the spec cannot even mention FLT_MAX
r = outcome(lambda: build('f3pkg_b', m='namespace m\n\nstruct T\n    g Float32(max_value=3.4028234e38)\n'))
expect('spec: Float32(max_value=3.4028234e38)', ('ok', None) if r[0] == 'ok' else ('rejected', r[1]), 'ok')
finish()
