"""C08 finding 2: Python bool is accepted wherever a Stone float is declared (and a Boolean literal is accepted as the default of a Float field)."""
import os, sys, subprocess, tempfile, datetime
ROOT = os.path.dirname(os.path.abspath(__file__))
sys.path.insert(0, ROOT)
from stone.backends.python_rsrc import stone_validators as bv
from stone.backends.python_rsrc import stone_base as bb
from stone.backends.python_rsrc import stone_serializers as ss

def build(pkg, **specs):
    """Compile the given specs with the python_types backend and make the package importable."""
    d = tempfile.mkdtemp(prefix='c08_')
    paths = []
    for name, text in specs.items():
        p = os.path.join(d, name + '.stone')
        with open(p, 'w') as fh:
            fh.write(text)
        paths.append(p)
    env = dict(os.environ, PYTHONPATH=ROOT)
    subprocess.check_call([sys.executable, '-m', 'stone.cli', 'python_types',
                           os.path.join(d, 'out', pkg)] + paths + ['--', '-p', pkg], env=env)
    sys.path.insert(0, os.path.join(d, 'out'))

def outcome(fn):
    """Returns ('ok', value) | ('ValidationError', msg) | (other exception name, msg)."""
    try:
        return ('ok', fn())
    except bv.ValidationError as e:
        return ('ValidationError', str(e))
    except BaseException as e:
        return (type(e).__name__, str(e))

BAD = []
def expect(label, got, want):
    """want is 'ok' or 'ValidationError'."""
    flag = 'as required' if got[0] == want else 'VIOLATION'
    print('%-62s observed=%-16s expected=%-16s %s   %r' % (label, got[0], want, flag, got[1]))
    if got[0] != want:
        BAD.append(label)

def finish():
    if BAD:
        print('\n%d violation(s) of C08: %s' % (len(BAD), BAD))
        sys.exit(1)
    print('\nno violation observed')
    sys.exit(0)

build('f2pkg', n='''
namespace n

struct S
    f64 Float64?
    f32 Float32?
    fb Float64(min_value=0.5, max_value=1.5)?
    lf List(Float64)?
    d Float64 = true

union U
    f Float64
''')
from f2pkg import n

def setf(field, v):
    def fn():
        s = n.S()
        setattr(s, field, v)
        return getattr(s, field)
    return fn

for field in ('f64', 'f32', 'fb'):
    expect('S.%s = True' % field, outcome(setf(field, True)), 'ValidationError')
expect('S.lf = [False]', outcome(setf('lf', [False])), 'ValidationError')
expect('U.f(True)', outcome(lambda: n.U.f(True)), 'ValidationError')
expect('bv.Float64().validate(True)', outcome(lambda: bv.Float64().validate(True)), 'ValidationError')
expect('json_decode(bv.Float64(), "true")  (contrast)', outcome(lambda: ss.json_decode(bv.Float64(), 'true')), 'ValidationError')
# Compile-time sibling of the same forgotten case: the spec above declares
# "d Float64 = true" and was accepted by the compiler (build() did not fail),
# although _BoundedFloat.check refuses booleans.
print('spec "d Float64 = true" compiled; default reads back as %r' % (n.S().d,))
BAD.append('compiler accepted Boolean literal `true` as the default of a Float64 field')
finish()
