"""C08 finding 11: a field typed by a struct that enumerates subtypes accepts an instance of the base struct itself, which the docs say must not be assigned (and which the serializer then rejects with AssertionError)."""
import os, sys, subprocess, tempfile, datetime
ROOT = os.path.dirname(os.path.abspath(__file__))
sys.path.insert(0, ROOT)
from stone.backends.python_rsrc import stone_validators as bv
from stone.backends.python_rsrc import stone_base as bb
from stone.backends.python_rsrc import stone_serializers as ss

def build(pkg, **specs):
    """Compile the given specs with the python_types backend and make the package importable."""
    d = tempfile.mkdtemp(prefix='c08_')
    paths = []
    for name, text in specs.items():
        p = os.path.join(d, name + '.stone')
        with open(p, 'w') as fh:
            fh.write(text)
        paths.append(p)
    env = dict(os.environ, PYTHONPATH=ROOT)
    subprocess.check_call([sys.executable, '-m', 'stone.cli', 'python_types',
                           os.path.join(d, 'out', pkg)] + paths + ['--', '-p', pkg], env=env)
    sys.path.insert(0, os.path.join(d, 'out'))

def outcome(fn):
    """Returns ('ok', value) | ('ValidationError', msg) | (other exception name, msg)."""
    try:
        return ('ok', fn())
    except bv.ValidationError as e:
        return ('ValidationError', str(e))
    except BaseException as e:
        return (type(e).__name__, str(e))

BAD = []
def expect(label, got, want):
    """want is 'ok' or 'ValidationError'."""
    flag = 'as required' if got[0] == want else 'VIOLATION'
    print('%-62s observed=%-16s expected=%-16s %s   %r' % (label, got[0], want, flag, got[1]))
    if got[0] != want:
        BAD.append(label)

def finish():
    if BAD:
        print('\n%d violation(s) of C08: %s' % (len(BAD), BAD))
        sys.exit(1)
    print('\nno violation observed')
    sys.exit(0)

build('f11pkg', n='''
namespace n

struct Resource
    union_closed
        file File
        folder Folder
    path String

struct File extends Resource
    size UInt64

struct Folder extends Resource
    "No new fields."

struct Response
    rsrc Resource
    many List(Resource)?

union U
    r Resource
''')
from f11pkg import n

# docs/builtin_backends.rst, "Struct Polymorphism": "the rsrc field can only be
# assigned a File or Folder object. It should not be assigned a Resource object."
# (the only exception is a catch-all base produced by deserialization; this base is closed)
base = n.Resource(path='/p')

def setf(field, v):
    def fn():
        s = n.Response()
        setattr(s, field, v)
        return getattr(s, field)
    return fn

expect("Response.rsrc = File(...)", outcome(setf('rsrc', n.File(path='/p', size=1))), 'ok')
expect("Response.rsrc = Resource(path='/p')", outcome(setf('rsrc', base)), 'ValidationError')
expect("Response.many = [Resource(path='/p')]", outcome(setf('many', [base])), 'ValidationError')
expect("U.r(Resource(path='/p'))", outcome(lambda: n.U.r(base)), 'ValidationError')
r = outcome(lambda: ss.json_encode(n.Response_validator, n.Response(rsrc=base)))
print('json_encode of the accepted object -> %s: %s' % r)
finish()
