"""C08 finding 8: the union validator accepts a bare stone_base.Union object (any tag, any value) for every union type, because the 'parent union allowed' test is issubclass(definition, type(val))."""
import os, sys, subprocess, tempfile, datetime
ROOT = os.path.dirname(os.path.abspath(__file__))
sys.path.insert(0, ROOT)
from stone.backends.python_rsrc import stone_validators as bv
from stone.backends.python_rsrc import stone_base as bb
from stone.backends.python_rsrc import stone_serializers as ss

def build(pkg, **specs):
    """Compile the given specs with the python_types backend and make the package importable."""
    d = tempfile.mkdtemp(prefix='c08_')
    paths = []
    for name, text in specs.items():
        p = os.path.join(d, name + '.stone')
        with open(p, 'w') as fh:
            fh.write(text)
        paths.append(p)
    env = dict(os.environ, PYTHONPATH=ROOT)
    subprocess.check_call([sys.executable, '-m', 'stone.cli', 'python_types',
                           os.path.join(d, 'out', pkg)] + paths + ['--', '-p', pkg], env=env)
    sys.path.insert(0, os.path.join(d, 'out'))

def outcome(fn):
    """Returns ('ok', value) | ('ValidationError', msg) | (other exception name, msg)."""
    try:
        return ('ok', fn())
    except bv.ValidationError as e:
        return ('ValidationError', str(e))
    except BaseException as e:
        return (type(e).__name__, str(e))

BAD = []
def expect(label, got, want):
    """want is 'ok' or 'ValidationError'."""
    flag = 'as required' if got[0] == want else 'VIOLATION'
    print('%-62s observed=%-16s expected=%-16s %s   %r' % (label, got[0], want, flag, got[1]))
    if got[0] != want:
        BAD.append(label)

def finish():
    if BAD:
        print('\n%d violation(s) of C08: %s' % (len(BAD), BAD))
        sys.exit(1)
    print('\nno violation observed')
    sys.exit(0)

build('f8pkg', n='''
namespace n

union U
    a
    s String(max_length=2)

struct S
    u U?
    lu List(U)?
    mu Map(String, U)?

union_closed W
    u U
''')
from f8pkg import n

x = bb.Union.__new__(bb.Union)       # not an instance of U, nor of a parent union declared in a spec
x._tag = 'bogus'
x._value = 12345
print('value: %r, isinstance(value, n.U) = %r' % (x, isinstance(x, n.U)))

def setf(field, v):
    def fn():
        s = n.S()
        setattr(s, field, v)
        return getattr(s, field)
    return fn

expect('S.u = bare Union', outcome(setf('u', x)), 'ValidationError')
expect('S.lu = [bare Union]', outcome(setf('lu', [x])), 'ValidationError')
expect("S.mu = {'k': bare Union}", outcome(setf('mu', {'k': x})), 'ValidationError')
expect('W.u(bare Union)', outcome(lambda: n.W.u(x)), 'ValidationError')
expect('U_validator.validate(bare Union)', outcome(lambda: n.U_validator.validate(x)), 'ValidationError')
expect('S.u = object()  (contrast, special-cased)', outcome(setf('u', object())), 'ValidationError')
finish()
