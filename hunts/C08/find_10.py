"""C08 finding 10: Float bounds are checked after the value was rounded to a float, so an integer (or Fraction) one above max_value / one below min_value is accepted and reads back as a different number."""
import os, sys, subprocess, tempfile, datetime
ROOT = os.path.dirname(os.path.abspath(__file__))
sys.path.insert(0, ROOT)
from stone.backends.python_rsrc import stone_validators as bv
from stone.backends.python_rsrc import stone_base as bb
from stone.backends.python_rsrc import stone_serializers as ss

def build(pkg, **specs):
    """Compile the given specs with the python_types backend and make the package importable."""
    d = tempfile.mkdtemp(prefix='c08_')
    paths = []
    for name, text in specs.items():
        p = os.path.join(d, name + '.stone')
        with open(p, 'w') as fh:
            fh.write(text)
        paths.append(p)
    env = dict(os.environ, PYTHONPATH=ROOT)
    subprocess.check_call([sys.executable, '-m', 'stone.cli', 'python_types',
                           os.path.join(d, 'out', pkg)] + paths + ['--', '-p', pkg], env=env)
    sys.path.insert(0, os.path.join(d, 'out'))

def outcome(fn):
    """Returns ('ok', value) | ('ValidationError', msg) | (other exception name, msg)."""
    try:
        return ('ok', fn())
    except bv.ValidationError as e:
        return ('ValidationError', str(e))
    except BaseException as e:
        return (type(e).__name__, str(e))

BAD = []
def expect(label, got, want):
    """want is 'ok' or 'ValidationError'."""
    flag = 'as required' if got[0] == want else 'VIOLATION'
    print('%-62s observed=%-16s expected=%-16s %s   %r' % (label, got[0], want, flag, got[1]))
    if got[0] != want:
        BAD.append(label)

def finish():
    if BAD:
        print('\n%d violation(s) of C08: %s' % (len(BAD), BAD))
        sys.exit(1)
    print('\nno violation observed')
    sys.exit(0)

import fractions
build('f10pkg', n='''
namespace n

struct S
    f Float64(min_value=-9007199254740992, max_value=9007199254740992)?
    h Float64(max_value=0.5)?
''')
from f10pkg import n

def setf(field, v):
    def fn():
        s = n.S()
        setattr(s, field, v)
        return getattr(s, field)
    return fn

B = 2**53
for v, want in ((B - 1, 'ok'), (B, 'ok'), (B + 1, 'ValidationError'), (-B, 'ok'), (-B - 1, 'ValidationError')):
    r = outcome(setf('f', v))
    expect('S.f = %d  (bounds +-%d)' % (v, B), r, want)
    if r[0] == 'ok' and r[1] != v:
        print('   read back %r != assigned %r' % (r[1], v))
v = fractions.Fraction(1, 2) + fractions.Fraction(1, 10**20)      # exactly > 0.5
expect('S.h = 1/2 + 1e-20 as Fraction (max_value=0.5)', outcome(setf('h', v)), 'ValidationError')
finish()
