"""C08 finding 4: a Timestamp whose tzinfo reports no offset (utcoffset() is None, i.e. a naive datetime) makes the validator crash with AttributeError instead of accepting or raising ValidationError."""
import os, sys, subprocess, tempfile, datetime
ROOT = os.path.dirname(os.path.abspath(__file__))
sys.path.insert(0, ROOT)
from stone.backends.python_rsrc import stone_validators as bv
from stone.backends.python_rsrc import stone_base as bb
from stone.backends.python_rsrc import stone_serializers as ss

def build(pkg, **specs):
    """Compile the given specs with the python_types backend and make the package importable."""
    d = tempfile.mkdtemp(prefix='c08_')
    paths = []
    for name, text in specs.items():
        p = os.path.join(d, name + '.stone')
        with open(p, 'w') as fh:
            fh.write(text)
        paths.append(p)
    env = dict(os.environ, PYTHONPATH=ROOT)
    subprocess.check_call([sys.executable, '-m', 'stone.cli', 'python_types',
                           os.path.join(d, 'out', pkg)] + paths + ['--', '-p', pkg], env=env)
    sys.path.insert(0, os.path.join(d, 'out'))

def outcome(fn):
    """Returns ('ok', value) | ('ValidationError', msg) | (other exception name, msg)."""
    try:
        return ('ok', fn())
    except bv.ValidationError as e:
        return ('ValidationError', str(e))
    except BaseException as e:
        return (type(e).__name__, str(e))

BAD = []
def expect(label, got, want):
    """want is 'ok' or 'ValidationError'."""
    flag = 'as required' if got[0] == want else 'VIOLATION'
    print('%-62s observed=%-16s expected=%-16s %s   %r' % (label, got[0], want, flag, got[1]))
    if got[0] != want:
        BAD.append(label)

def finish():
    if BAD:
        print('\n%d violation(s) of C08: %s' % (len(BAD), BAD))
        sys.exit(1)
    print('\nno violation observed')
    sys.exit(0)

build('f4pkg', n='''
namespace n

struct S
    t Timestamp("%Y-%m-%dT%H:%M:%SZ")?

union U
    t Timestamp("%Y")
''')
from f4pkg import n

class NoOffset(datetime.tzinfo):
    """Legal per the datetime docs: utcoffset() may return None, the datetime is then naive."""
    def utcoffset(self, dt): return None
    def dst(self, dt): return None
    def tzname(self, dt): return None

v = datetime.datetime(2020, 1, 2, 3, 4, 5, tzinfo=NoOffset())
print('value: %r, value.utcoffset() = %r (naive)' % (v, v.utcoffset()))

def setf():
    s = n.S()
    s.t = v
    return s.t

# A naive datetime satisfies Timestamp ("either a UTC timezone or none set at
# all"); whatever the verdict, a refusal must be ValidationError.
r = outcome(setf)
expect('S.t = datetime(tzinfo=NoOffset())', r, 'ok')
if r[0] not in ('ok', 'ValidationError'):
    print('   -> refusal is %s, not ValidationError' % r[0])
expect('U.t(datetime(tzinfo=NoOffset()))', outcome(lambda: n.U.t(v)), 'ok')
expect('bv.Timestamp.validate', outcome(lambda: bv.Timestamp('%Y').validate(v)), 'ok')
finish()
