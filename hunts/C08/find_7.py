"""C08 finding 7: constructing a union member with a value for a Void tag, or with an unknown tag, is refused with AssertionError (silently accepted / AttributeError under python -O) instead of ValidationError."""
import os, sys, subprocess, tempfile, datetime
ROOT = os.path.dirname(os.path.abspath(__file__))
sys.path.insert(0, ROOT)
from stone.backends.python_rsrc import stone_validators as bv
from stone.backends.python_rsrc import stone_base as bb
from stone.backends.python_rsrc import stone_serializers as ss

def build(pkg, **specs):
    """Compile the given specs with the python_types backend and make the package importable."""
    d = tempfile.mkdtemp(prefix='c08_')
    paths = []
    for name, text in specs.items():
        p = os.path.join(d, name + '.stone')
        with open(p, 'w') as fh:
            fh.write(text)
        paths.append(p)
    env = dict(os.environ, PYTHONPATH=ROOT)
    subprocess.check_call([sys.executable, '-m', 'stone.cli', 'python_types',
                           os.path.join(d, 'out', pkg)] + paths + ['--', '-p', pkg], env=env)
    sys.path.insert(0, os.path.join(d, 'out'))

def outcome(fn):
    """Returns ('ok', value) | ('ValidationError', msg) | (other exception name, msg)."""
    try:
        return ('ok', fn())
    except bv.ValidationError as e:
        return ('ValidationError', str(e))
    except BaseException as e:
        return (type(e).__name__, str(e))

BAD = []
def expect(label, got, want):
    """want is 'ok' or 'ValidationError'."""
    flag = 'as required' if got[0] == want else 'VIOLATION'
    print('%-62s observed=%-16s expected=%-16s %s   %r' % (label, got[0], want, flag, got[1]))
    if got[0] != want:
        BAD.append(label)

def finish():
    if BAD:
        print('\n%d violation(s) of C08: %s' % (len(BAD), BAD))
        sys.exit(1)
    print('\nno violation observed')
    sys.exit(0)

build('f7pkg', n='''
namespace n

union U
    a
    s String
''')
from f7pkg import n

expect("U('a', 5)      value for the Void member a", outcome(lambda: n.U('a', 5)), 'ValidationError')
expect("U('other', 'x') value for the catch-all", outcome(lambda: n.U('other', 'x')), 'ValidationError')
expect("U('nope')      tag that does not exist", outcome(lambda: n.U('nope')), 'ValidationError')
expect("U('s', 5)      (contrast: wrong value for a String member)", outcome(lambda: n.U('s', 5)), 'ValidationError')
# With assertions disabled the Void member accepts anything.
code = ("import sys; sys.path[:0]=%r; from f7pkg import n; u = n.U('a', 5); print('python -O:', repr(u))"
        % ([p for p in sys.path if p],))
out = subprocess.run([sys.executable, '-O', '-c', code], capture_output=True, text=True)
print((out.stdout + out.stderr).strip())
if "U('a', 5)" in out.stdout:
    BAD.append("python -O: U('a', 5) accepted")
finish()
