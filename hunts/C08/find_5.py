"""C08 finding 5: decoding a top-level Timestamp primitive never runs the Timestamp validator, so a value with a non-UTC offset is returned although every other path refuses it."""
import os, sys, subprocess, tempfile, datetime
ROOT = os.path.dirname(os.path.abspath(__file__))
sys.path.insert(0, ROOT)
from stone.backends.python_rsrc import stone_validators as bv
from stone.backends.python_rsrc import stone_base as bb
from stone.backends.python_rsrc import stone_serializers as ss

def build(pkg, **specs):
    """Compile the given specs with the python_types backend and make the package importable."""
    d = tempfile.mkdtemp(prefix='c08_')
    paths = []
    for name, text in specs.items():
        p = os.path.join(d, name + '.stone')
        with open(p, 'w') as fh:
            fh.write(text)
        paths.append(p)
    env = dict(os.environ, PYTHONPATH=ROOT)
    subprocess.check_call([sys.executable, '-m', 'stone.cli', 'python_types',
                           os.path.join(d, 'out', pkg)] + paths + ['--', '-p', pkg], env=env)
    sys.path.insert(0, os.path.join(d, 'out'))

def outcome(fn):
    """Returns ('ok', value) | ('ValidationError', msg) | (other exception name, msg)."""
    try:
        return ('ok', fn())
    except bv.ValidationError as e:
        return ('ValidationError', str(e))
    except BaseException as e:
        return (type(e).__name__, str(e))

BAD = []
def expect(label, got, want):
    """want is 'ok' or 'ValidationError'."""
    flag = 'as required' if got[0] == want else 'VIOLATION'
    print('%-62s observed=%-16s expected=%-16s %s   %r' % (label, got[0], want, flag, got[1]))
    if got[0] != want:
        BAD.append(label)

def finish():
    if BAD:
        print('\n%d violation(s) of C08: %s' % (len(BAD), BAD))
        sys.exit(1)
    print('\nno violation observed')
    sys.exit(0)

T = bv.Timestamp('%Y-%m-%dT%H:%M:%S%z')
doc = '"2020-01-01T00:00:00+0100"'
r = outcome(lambda: ss.json_decode(T, doc))
expect('json_decode(Timestamp(%%z), %s)' % doc, r, 'ValidationError')
if r[0] == 'ok':
    print('   decoded value %r; the same validator says: %r' % (r[1], outcome(lambda: T.validate(r[1]))))
# contrast: identical input, one container level down, is refused
expect('json_decode(List(Timestamp(%z)), [same])  (contrast)',
       outcome(lambda: ss.json_decode(bv.List(T), '[%s]' % doc)), 'ValidationError')
expect('json_decode(Nullable(Timestamp(%z)), same)  (contrast)',
       outcome(lambda: ss.json_decode(bv.Nullable(T), doc)), 'ValidationError')
expect('json_decode(Timestamp(%z), "+0000")  (valid)',
       outcome(lambda: ss.json_decode(T, '"2020-01-01T00:00:00+0000"')), 'ok')
finish()
