"""C08 finding 1: Python bool is accepted wherever a Stone integer (Int32/UInt32/Int64/UInt64) is declared."""
import os, sys, subprocess, tempfile, datetime
ROOT = os.path.dirname(os.path.abspath(__file__))
sys.path.insert(0, ROOT)
from stone.backends.python_rsrc import stone_validators as bv
from stone.backends.python_rsrc import stone_base as bb
from stone.backends.python_rsrc import stone_serializers as ss

def build(pkg, **specs):
    """Compile the given specs with the python_types backend and make the package importable."""
    d = tempfile.mkdtemp(prefix='c08_')
    paths = []
    for name, text in specs.items():
        p = os.path.join(d, name + '.stone')
        with open(p, 'w') as fh:
            fh.write(text)
        paths.append(p)
    env = dict(os.environ, PYTHONPATH=ROOT)
    subprocess.check_call([sys.executable, '-m', 'stone.cli', 'python_types',
                           os.path.join(d, 'out', pkg)] + paths + ['--', '-p', pkg], env=env)
    sys.path.insert(0, os.path.join(d, 'out'))

def outcome(fn):
    """Returns ('ok', value) | ('ValidationError', msg) | (other exception name, msg)."""
    try:
        return ('ok', fn())
    except bv.ValidationError as e:
        return ('ValidationError', str(e))
    except BaseException as e:
        return (type(e).__name__, str(e))

BAD = []
def expect(label, got, want):
    """want is 'ok' or 'ValidationError'."""
    flag = 'as required' if got[0] == want else 'VIOLATION'
    print('%-62s observed=%-16s expected=%-16s %s   %r' % (label, got[0], want, flag, got[1]))
    if got[0] != want:
        BAD.append(label)

def finish():
    if BAD:
        print('\n%d violation(s) of C08: %s' % (len(BAD), BAD))
        sys.exit(1)
    print('\nno violation observed')
    sys.exit(0)

build('f1pkg', n='''
namespace n

alias Tiny = UInt32(max_value=1)

struct S
    i32 Int32?
    u32 UInt32?
    i64 Int64?
    u64 UInt64?
    tiny Tiny?
    li List(Int32)?
    mi Map(String, UInt64)?

union U
    i Int32
''')
from f1pkg import n

def setf(field, v):
    def fn():
        s = n.S()
        setattr(s, field, v)
        return getattr(s, field)
    return fn

# The property lists "bool for int" as a wrong Python type; the compiler's own
# IR (_BoundedInteger.check) and the JSON decoder both refuse a boolean for an
# integer, only the runtime validator lets it through.
for field in ('i32', 'u32', 'i64', 'u64', 'tiny'):
    for v in (True, False):
        expect('S.%s = %r' % (field, v), outcome(setf(field, v)), 'ValidationError')
expect('S.li = [True]', outcome(setf('li', [True])), 'ValidationError')
expect("S.mi = {'k': False}", outcome(setf('mi', {'k': False})), 'ValidationError')
expect('U.i(True)', outcome(lambda: n.U.i(True)), 'ValidationError')
expect('bv.Int32().validate(True)', outcome(lambda: bv.Int32().validate(True)), 'ValidationError')
# for contrast: the same validator reached through the JSON decoder refuses it
expect('json_decode(bv.Int32(), "true")', outcome(lambda: ss.json_decode(bv.Int32(), 'true')), 'ValidationError')
r = outcome(setf('i32', True))
if r[0] == 'ok':
    print('read back: %r (type %s) -- not even normalised to an int' % (r[1], type(r[1]).__name__))
finish()
