"""C08 finding 6: whether a partially populated struct instance (right class, a required field unset) is accepted depends on how the SAME declared type is spelled / where it sits, not on the type."""
import os, sys, subprocess, tempfile, datetime
ROOT = os.path.dirname(os.path.abspath(__file__))
sys.path.insert(0, ROOT)
from stone.backends.python_rsrc import stone_validators as bv
from stone.backends.python_rsrc import stone_base as bb
from stone.backends.python_rsrc import stone_serializers as ss

def build(pkg, **specs):
    """Compile the given specs with the python_types backend and make the package importable."""
    d = tempfile.mkdtemp(prefix='c08_')
    paths = []
    for name, text in specs.items():
        p = os.path.join(d, name + '.stone')
        with open(p, 'w') as fh:
            fh.write(text)
        paths.append(p)
    env = dict(os.environ, PYTHONPATH=ROOT)
    subprocess.check_call([sys.executable, '-m', 'stone.cli', 'python_types',
                           os.path.join(d, 'out', pkg)] + paths + ['--', '-p', pkg], env=env)
    sys.path.insert(0, os.path.join(d, 'out'))

def outcome(fn):
    """Returns ('ok', value) | ('ValidationError', msg) | (other exception name, msg)."""
    try:
        return ('ok', fn())
    except bv.ValidationError as e:
        return ('ValidationError', str(e))
    except BaseException as e:
        return (type(e).__name__, str(e))

BAD = []
def expect(label, got, want):
    """want is 'ok' or 'ValidationError'."""
    flag = 'as required' if got[0] == want else 'VIOLATION'
    print('%-62s observed=%-16s expected=%-16s %s   %r' % (label, got[0], want, flag, got[1]))
    if got[0] != want:
        BAD.append(label)

def finish():
    if BAD:
        print('\n%d violation(s) of C08: %s' % (len(BAD), BAD))
        sys.exit(1)
    print('\nno violation observed')
    sys.exit(0)

build('f6pkg', n='''
namespace n

struct Q
    r Int32

alias AQ = Q

struct Tree
    union
        leaf Leaf
    t String

struct Leaf extends Tree
    l Int32

struct S
    direct Q?
    via_alias AQ?
    lq List(Q)?
    lt List(Tree)?

union U
    plain Q
    opt Q?
''')
from f6pkg import n

def setf(field, v):
    def fn():
        s = n.S()
        setattr(s, field, v)
        return getattr(s, field)
    return fn

# One and the same value: an instance of the right class with its required field unset.
q = n.Q()
a = outcome(setf('direct', q))
b = outcome(setf('via_alias', q))
c = outcome(lambda: n.U.plain(q))
d = outcome(lambda: n.U.opt(q))
print('S.direct (Q?)        = Q()  -> %s' % (a,))
print('S.via_alias (AQ?=Q?) = Q()  -> %s' % (b,))
print('U.plain (Q)          (Q())  -> %s' % (c,))
print('U.opt   (Q?)         (Q())  -> %s' % (d,))
# An alias is transparent and a non-null value of T? is judged as a T, so the
# verdicts inside each pair have to agree (the property judges user types by class).
expect('alias pair agrees: S.via_alias = Q() like S.direct = Q()', b, a[0])
expect('nullable pair agrees: U.opt(Q()) like U.plain(Q())', d, c[0])

# Inside a list the item check looks for required fields -- but only for the
# fields of the declared base when the item type enumerates subtypes.
e = outcome(setf('lq', [n.Q()]))
f = outcome(setf('lt', [n.Leaf(t='t')]))          # Leaf.l (required) is unset
print('S.lq = [Q()]          -> %s' % (e,))
print("S.lt = [Leaf(t='t')]  -> %s" % (f,))
expect("list pair agrees: S.lt = [Leaf(t='t')] (required l unset) like S.lq = [Q()]", f, e[0])
finish()
