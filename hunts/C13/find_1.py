#!/usr/bin/env python
"""
C13 finding 1: a caller class named "all" (Omitted("all")) inside an
enumerated-subtypes tree makes python_types emit the per-caller *own-level*
table `_all_fields_` / `_all_field_names_`, which is the very name of the
public *all-level* table.  The public table is overwritten by the omitted one.

Run:  PYTHONPATH=/repo /venv/bin/python find_1.py
Exits non-zero when the violation is observed.
"""
import importlib, json, os, subprocess, sys, tempfile

ROOT = os.path.dirname(os.path.abspath(__file__))

SPEC = '''
namespace ns

annotation OnlyAll = Omitted("all")

struct Base
    union_closed
        a A
    pub String
    sec String?
        @OnlyAll

struct A extends Base
    apub String
    asec String?
        @OnlyAll
'''

work = tempfile.mkdtemp(prefix='c13_find1_')
with open(os.path.join(work, 'ns.stone'), 'w') as f:
    f.write(SPEC)
pkg = 'c13find1pkg'
r = subprocess.run([sys.executable, '-m', 'stone.cli', 'python_types', os.path.join(work, pkg),
                    os.path.join(work, 'ns.stone'), '--', '--package', pkg],
                   env=dict(os.environ, PYTHONPATH=ROOT), capture_output=True, text=True)
assert r.returncode == 0, r.stderr
sys.path.insert(0, ROOT)
sys.path.insert(0, work)
ns = importlib.import_module(pkg + '.ns')
from stone.backends.python_rsrc import stone_serializers as ss
from stone.backends.python_rsrc import stone_validators as bv


class CP(ss.CallerPermissionsInterface):
    def __init__(self, p):
        self._p = p

    @property
    def permissions(self):
        return self._p


failures = []
val = ns.A(pub='PUBLIC-1', sec='SENTINEL-SEC', apub='PUBLIC-2', asec='SENTINEL-ASEC')

for validator, label in ((bv.StructTree(ns.Base), 'StructTree(Base)'), (bv.Struct(ns.A), 'Struct(A)')):
    out = ss.json_encode(validator, val, caller_permissions=CP([]))
    print('encode %-16s caller=[]      -> %s' % (label, out))
    doc = json.loads(out)
    if 'asec' in doc or 'sec' in doc or 'SENTINEL' in out:
        failures.append('%s: omitted field emitted for a caller WITHOUT permission "all": %s' % (label, out))
    if 'pub' not in doc or 'apub' not in doc:
        failures.append('%s: public fields missing for the public caller: %s' % (label, out))
    out = ss.json_encode(validator, val, caller_permissions=CP(['all']))
    print('encode %-16s caller=[all]   -> %s' % (label, out))
    doc = json.loads(out)
    if not all(k in doc for k in ('pub', 'apub', 'sec', 'asec')):
        failures.append('%s: caller holding "all" does not get every field: %s' % (label, out))

# strict decode: a caller without the permission supplies the omitted field
doc = '{".tag": "a", "asec": "SUPPLIED"}'
try:
    got = ss.json_decode(bv.StructTree(ns.Base), doc, caller_permissions=CP([]), strict=True)
    print('strict decode caller=[] of %s -> accepted, asec=%r' % (doc, got.asec))
    failures.append('strict decode accepted omitted field "asec" from a caller without permission "all"')
except bv.ValidationError as e:
    print('strict decode caller=[] of %s -> rejected (%s)' % (doc, e))
doc = '{".tag": "a", "pub": "p", "apub": "q"}'
try:
    ss.json_decode(bv.StructTree(ns.Base), doc, caller_permissions=CP([]), strict=True)
    print('strict decode caller=[] of %s -> accepted' % doc)
except bv.ValidationError as e:
    print('strict decode caller=[] of %s -> rejected (%s)' % (doc, e))
    failures.append('strict decode rejects the purely public document: %s' % e)

print()
print('generated tables: A._all_fields_ = %r ; A._all_field_names_ = %r' % (
    [n for n, _ in ns.A._all_fields_], sorted(ns.A._all_field_names_)))
print('EXPECTED (C13): for caller [] the encoding is {".tag","pub","apub"} with neither "sec" nor "asec"; '
      'strict decoding must refuse "asec" from that caller; for caller ["all"] all four fields are present.')
if failures:
    print('OBSERVED VIOLATIONS:')
    for f in failures:
        print('  -', f)
    sys.exit(1)
print('no violation observed')
