"""Helper for C13 experiments: compile specs -> python_types -> import."""
import importlib, json, os, shutil, subprocess, sys, tempfile, itertools

ROOT = os.path.dirname(os.path.abspath(__file__))
_counter = [0]

def build(specs):
    """specs: dict filename -> text.  Returns dict of namespace name -> module, plus pkg name."""
    _counter[0] += 1
    work = tempfile.mkdtemp(prefix='c13_')
    pkg = 'pkg%d_%d' % (os.getpid(), _counter[0])
    out = os.path.join(work, pkg)
    paths = []
    for fn, text in specs.items():
        p = os.path.join(work, fn)
        with open(p, 'w') as f:
            f.write(text)
        paths.append(p)
    env = dict(os.environ, PYTHONPATH=ROOT)
    r = subprocess.run([sys.executable, '-m', 'stone.cli', 'python_types', out] + paths +
                       ['--', '--package', pkg], env=env, capture_output=True, text=True)
    if r.returncode != 0:
        raise RuntimeError('stone failed: ' + r.stderr[-3000:])
    sys.path.insert(0, work)
    mods = {}
    for fn in os.listdir(out):
        if fn.endswith('.py') and not fn.startswith('stone_') and fn != '__init__.py':
            n = fn[:-3]
            mods[n] = importlib.import_module(pkg + '.' + n)
    mods['ss'] = importlib.import_module('stone.backends.python_rsrc.stone_serializers')
    mods['bv'] = importlib.import_module('stone.backends.python_rsrc.stone_validators')
    mods['bb'] = importlib.import_module('stone.backends.python_rsrc.stone_base')
    mods['_dir'] = out
    return mods

def cp(mods, perms):
    ss = mods['ss']
    class CP(ss.CallerPermissionsInterface):
        def __init__(self, p): self._p = list(p)
        @property
        def permissions(self): return self._p
    return CP(perms)

def subsets(perms):
    for r in range(len(perms) + 1):
        for c in itertools.permutations(perms, r):
            yield list(c)

import re as _re
def okeys(o, path=''):
    """paths of keys / tags named o_<caller>_*"""
    out = set()
    if isinstance(o, dict):
        for k, v in o.items():
            if k.startswith('o_'):
                out.add(path + '/' + k)
            if k == '.tag' and isinstance(v, str) and v.startswith('o_'):
                out.add(path + '/.tag=' + v)
            out |= okeys(v, path + '/' + k)
    elif isinstance(o, list):
        for i, v in enumerate(o):
            out |= okeys(v, path + '/%d' % i)
    return out

def check(m, validator, value, all_perms, label=''):
    """Oracle: keys named o_<caller>_... present iff caller in perms; 'xR' sentinels never in redacted output."""
    ss = m['ss']
    problems = []
    full = ss.json_compat_obj_encode(validator, value, caller_permissions=cp(m, all_perms))
    fullkeys = okeys(full)
    for perms in subsets(all_perms):
        for red in (False, True):
            for fn in (ss.json_compat_obj_encode, ss.json_encode):
                try:
                    out = fn(validator, value, caller_permissions=cp(m, perms), should_redact=red)
                except Exception as e:
                    # acceptable only if an omitted tag / required field for missing perm
                    problems.append(('EXC', perms, red, repr(e)[:200]))
                    continue
                if isinstance(out, str):
                    txt = out; out = json.loads(out)
                else:
                    txt = json.dumps(out)
                exp = set(k for k in fullkeys if all(seg.split('_')[1] in perms for seg in _re.findall(r'o_[A-Za-z0-9]+_', k)))
                got = okeys(out)
                if got != exp:
                    problems.append(('OMIT', perms, red, 'extra=%s missing=%s' % (sorted(got - exp), sorted(exp - got))))
                if red and 'xR' in txt:
                    problems.append(('LEAK', perms, red, _re.findall(r'xR\w*', txt)))
    for p in problems:
        print(label, p)
    return problems
