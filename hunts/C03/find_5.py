"""find_5: String(pattern=...) only converts re.error; a repetition count that is too large raises OverflowError out of specs_to_ir."""
import os, sys, textwrap, traceback
sys.path.insert(0, os.path.dirname(os.path.abspath(__file__)))
from stone.frontend.frontend import specs_to_ir
from stone.frontend.exception import InvalidSpec

EXPECT = "C03 demands: specs_to_ir returns an Api or raises InvalidSpec (non-empty msg, path among inputs); nothing else may escape."

def compile_specs(specs, **kw):
    """Returns (kind, detail): kind in ok / spec_error / VIOLATION."""
    paths = [p for p, _ in specs]
    try:
        api = specs_to_ir(specs, **kw)
        return "ok", api
    except InvalidSpec as e:
        if not e.msg or (e.path is not None and e.path not in paths):
            return "VIOLATION", "InvalidSpec with bad msg/path: %r %r" % (e.msg, e.path)
        return "spec_error", "%s:%s: error: %s" % (e.path, e.lineno, e.msg)
    except BaseException as e:
        tb = traceback.extract_tb(e.__traceback__)[-1]
        return "VIOLATION", "%s: %s   (raised at %s:%d in %s)" % (
            type(e).__name__, str(e)[:150], os.path.basename(tb.filename), tb.lineno, tb.name)

def report(cases, **kw):
    bad = 0
    for name, specs in cases:
        if isinstance(specs, str):
            specs = [("spec.stone", specs)]
        kind, detail = compile_specs(specs, **kw)
        print("[%s] %s" % (kind, name))
        for p, t in specs:
            shown = t if len(t) < 600 else t[:200] + " ...<%d chars>... " % len(t) + t[-100:]
            print(textwrap.indent(shown.rstrip("\n"), "    | "))
        print("    observed:", detail if kind != "ok" else "Api returned")
        if kind == "VIOLATION":
            bad += 1
    print()
    print(EXPECT)
    print("violations observed: %d of %d cases" % (bad, len(cases)))
    sys.exit(1 if bad else 0)


CASES = [
    ("pattern with huge repeat count", """\
namespace n
struct S
    f String(pattern="a{99999999999}")
"""),
    ("same in an alias", """\
namespace n
alias A = String(pattern="[a-z]{1,99999999999}")
"""),
]
report(CASES)
