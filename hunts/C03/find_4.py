"""find_4: a Timestamp format that repeats a directive makes datetime.strptime raise re.error, which is not a ValueError and escapes the frontend."""
import os, sys, textwrap, traceback
sys.path.insert(0, os.path.dirname(os.path.abspath(__file__)))
from stone.frontend.frontend import specs_to_ir
from stone.frontend.exception import InvalidSpec

EXPECT = "C03 demands: specs_to_ir returns an Api or raises InvalidSpec (non-empty msg, path among inputs); nothing else may escape."

def compile_specs(specs, **kw):
    """Returns (kind, detail): kind in ok / spec_error / VIOLATION."""
    paths = [p for p, _ in specs]
    try:
        api = specs_to_ir(specs, **kw)
        return "ok", api
    except InvalidSpec as e:
        if not e.msg or (e.path is not None and e.path not in paths):
            return "VIOLATION", "InvalidSpec with bad msg/path: %r %r" % (e.msg, e.path)
        return "spec_error", "%s:%s: error: %s" % (e.path, e.lineno, e.msg)
    except BaseException as e:
        tb = traceback.extract_tb(e.__traceback__)[-1]
        return "VIOLATION", "%s: %s   (raised at %s:%d in %s)" % (
            type(e).__name__, str(e)[:150], os.path.basename(tb.filename), tb.lineno, tb.name)

def report(cases, **kw):
    bad = 0
    for name, specs in cases:
        if isinstance(specs, str):
            specs = [("spec.stone", specs)]
        kind, detail = compile_specs(specs, **kw)
        print("[%s] %s" % (kind, name))
        for p, t in specs:
            shown = t if len(t) < 600 else t[:200] + " ...<%d chars>... " % len(t) + t[-100:]
            print(textwrap.indent(shown.rstrip("\n"), "    | "))
        print("    observed:", detail if kind != "ok" else "Api returned")
        if kind == "VIOLATION":
            bad += 1
    print()
    print(EXPECT)
    print("violations observed: %d of %d cases" % (bad, len(cases)))
    sys.exit(1 if bad else 0)


CASES = [
    ("field default", """\
namespace n
struct S
    f Timestamp("%Y %Y") = "2020 2020"
"""),
    ("example value", """\
namespace n
struct S
    f Timestamp("%H:%M %H")
    example default
        f = "10:11 10"
"""),
    ("route attribute", [("cfg.stone", """\
namespace stone_cfg
struct Route
    since Timestamp("%d-%d")?
"""), ("n.stone", """\
namespace n
route r(Void, Void, Void)
    attrs
        since = "01-01"
""")]),
    ("annotation type parameter default", """\
namespace n
annotation_type T
    p Timestamp("%m %m") = "1 1"
"""),
]
report(CASES)
