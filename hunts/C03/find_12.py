"""find_12: defaults/examples are matched against user-supplied String patterns with a backtracking regex engine; a short spec makes compilation take time exponential in the literal length (no practical termination)."""
import os, sys, textwrap, traceback
sys.path.insert(0, os.path.dirname(os.path.abspath(__file__)))
from stone.frontend.frontend import specs_to_ir
from stone.frontend.exception import InvalidSpec

EXPECT = "C03 demands: specs_to_ir returns an Api or raises InvalidSpec (non-empty msg, path among inputs); nothing else may escape."

def compile_specs(specs, **kw):
    """Returns (kind, detail): kind in ok / spec_error / VIOLATION."""
    paths = [p for p, _ in specs]
    try:
        api = specs_to_ir(specs, **kw)
        return "ok", api
    except InvalidSpec as e:
        if not e.msg or (e.path is not None and e.path not in paths):
            return "VIOLATION", "InvalidSpec with bad msg/path: %r %r" % (e.msg, e.path)
        return "spec_error", "%s:%s: error: %s" % (e.path, e.lineno, e.msg)
    except BaseException as e:
        tb = traceback.extract_tb(e.__traceback__)[-1]
        return "VIOLATION", "%s: %s   (raised at %s:%d in %s)" % (
            type(e).__name__, str(e)[:150], os.path.basename(tb.filename), tb.lineno, tb.name)

def report(cases, **kw):
    bad = 0
    for name, specs in cases:
        if isinstance(specs, str):
            specs = [("spec.stone", specs)]
        kind, detail = compile_specs(specs, **kw)
        print("[%s] %s" % (kind, name))
        for p, t in specs:
            shown = t if len(t) < 600 else t[:200] + " ...<%d chars>... " % len(t) + t[-100:]
            print(textwrap.indent(shown.rstrip("\n"), "    | "))
        print("    observed:", detail if kind != "ok" else "Api returned")
        if kind == "VIOLATION":
            bad += 1
    print()
    print(EXPECT)
    print("violations observed: %d of %d cases" % (bad, len(cases)))
    sys.exit(1 if bad else 0)


import subprocess, time
SPEC = 'namespace n\nstruct S\n    f String(pattern="(a+)+") = "%sb"\n'
def timed(k, limit):
    code = ("import sys; sys.path.insert(0, %r)\n"
            "from stone.frontend.frontend import specs_to_ir\n"
            "from stone.frontend.exception import InvalidSpec\n"
            "try:\n    specs_to_ir([('spec.stone', %r)])\nexcept InvalidSpec as e:\n    print(e.msg[:60])\n"
            % (os.path.dirname(os.path.abspath(__file__)), SPEC % ("a" * k)))
    t = time.time()
    try:
        p = subprocess.run([sys.executable, "-c", code], capture_output=True, text=True, timeout=limit)
        return time.time() - t, p.stdout.strip()
    except subprocess.TimeoutExpired:
        return None, None
print("spec: " + (SPEC % ("a" * 5 + "...")).replace("\n", "\\n"))
for k in (20, 23, 26):
    dt, out = timed(k, 120)
    print("%d a's: %.2fs -> %s" % (k, dt, out))
LIMIT = 30
dt, out = timed(45, LIMIT)
if dt is None:
    print("45 a's: no answer within %ds (time doubles with every extra character; extrapolated: weeks)" % LIMIT)
    print("C03 demands: compilation of any text terminates (with an Api or a spec error).")
    sys.exit(1)
print("45 a's answered in %.2fs: %s" % (dt, out))
sys.exit(0)
