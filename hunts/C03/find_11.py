"""find_11: a route attribute of type Bytes or Timestamp is converted by the frontend to bytes / datetime objects, which js_client passes to json.dumps -> TypeError."""
import os, sys, textwrap, traceback
sys.path.insert(0, os.path.dirname(os.path.abspath(__file__)))
from stone.frontend.frontend import specs_to_ir
from stone.frontend.exception import InvalidSpec

EXPECT = "C03 demands: specs_to_ir returns an Api or raises InvalidSpec (non-empty msg, path among inputs); nothing else may escape."

def compile_specs(specs, **kw):
    """Returns (kind, detail): kind in ok / spec_error / VIOLATION."""
    paths = [p for p, _ in specs]
    try:
        api = specs_to_ir(specs, **kw)
        return "ok", api
    except InvalidSpec as e:
        if not e.msg or (e.path is not None and e.path not in paths):
            return "VIOLATION", "InvalidSpec with bad msg/path: %r %r" % (e.msg, e.path)
        return "spec_error", "%s:%s: error: %s" % (e.path, e.lineno, e.msg)
    except BaseException as e:
        tb = traceback.extract_tb(e.__traceback__)[-1]
        return "VIOLATION", "%s: %s   (raised at %s:%d in %s)" % (
            type(e).__name__, str(e)[:150], os.path.basename(tb.filename), tb.lineno, tb.name)

def report(cases, **kw):
    bad = 0
    for name, specs in cases:
        if isinstance(specs, str):
            specs = [("spec.stone", specs)]
        kind, detail = compile_specs(specs, **kw)
        print("[%s] %s" % (kind, name))
        for p, t in specs:
            shown = t if len(t) < 600 else t[:200] + " ...<%d chars>... " % len(t) + t[-100:]
            print(textwrap.indent(shown.rstrip("\n"), "    | "))
        print("    observed:", detail if kind != "ok" else "Api returned")
        if kind == "VIOLATION":
            bad += 1
    print()
    print(EXPECT)
    print("violations observed: %d of %d cases" % (bad, len(cases)))
    sys.exit(1 if bad else 0)


import subprocess, tempfile, shutil

def run_cli(backend, files, backend_args, cli_args=()):
    """files: list of (name, text-or-bytes). Returns (exit_code, stderr)."""
    root = tempfile.mkdtemp(prefix="c03_")
    try:
        paths = []
        for name, content in files:
            p = os.path.join(root, name)
            with open(p, "wb") as f:
                f.write(content if isinstance(content, bytes) else content.encode("utf-8"))
            paths.append(p)
        env = dict(os.environ, PYTHONPATH=os.path.dirname(os.path.abspath(__file__)))
        paths = [p for p in paths if p.endswith(".stone")]
        backend_args = [a.replace("@ROOT@", root) for a in backend_args]
        cmd = [sys.executable, "-m", "stone.cli"] + list(cli_args) + [backend, os.path.join(root, "out")] + paths + ["--"] + backend_args
        p = subprocess.run(cmd, capture_output=True, text=True, env=env)
        return p.returncode, p.stderr.replace(root + "/", "")
    finally:
        shutil.rmtree(root, ignore_errors=True)

def cli_cases(cases):
    bad = 0
    for case in cases:
        name, backend, files, bargs = case[:4]
        code, err = run_cli(backend, files, bargs, *case[4:])
        lines = [l for l in err.strip().splitlines() if l.strip()]
        crashed = "Traceback (most recent call last)" in err
        print("[%s] %s  (stone.cli %s)" % ("VIOLATION" if crashed else "fine", name, backend))
        for fn, t in files:
            body = t if isinstance(t, str) else repr(t)
            print(textwrap.indent(body.rstrip("\n"), "    | %s: " % fn))
        if len(case) > 4: print("    cli args:", " ".join(case[4]))
        print("    observed: exit status %d; stderr ends with: %s" % (code, " / ".join(lines[-2:])[:300] if lines else "<empty>"))
        bad += crashed
    return bad

CFG_TS = "namespace stone_cfg\nstruct Route\n    since Timestamp(\"%Y-%m-%d\")?\n"
CFG_B = "namespace stone_cfg\nstruct Route\n    key Bytes?\n"
bad = cli_cases([
    ("Timestamp route attribute", "js_client", [("cfg.stone", CFG_TS), ("n.stone", 'namespace n\nroute r(Void, Void, Void)\n    attrs\n        since = "2020-01-02"\n')], ["routes.js"], ["-a", "since"]),
    ("Bytes route attribute", "js_client", [("cfg.stone", CFG_B), ("n.stone", 'namespace n\nroute r(Void, Void, Void)\n    attrs\n        key = "abc"\n')], ["routes.js"], ["-a", ":all"]),
])
print()
print("C03 demands: an Api returned by the frontend is consumable by the built-in backends (or the spec is rejected with InvalidSpec).")
print("violations observed: %d" % bad)
sys.exit(1 if bad else 0)
