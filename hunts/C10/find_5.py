"""C10 finding 5: a Float field accepts the boolean literals as default (true -> 1.0)."""
import importlib, json, os, subprocess, sys, tempfile, textwrap

ROOT = os.path.dirname(os.path.abspath(__file__))
sys.path.insert(0, ROOT)
from stone.frontend.frontend import specs_to_ir


def build(specs, pkg):
    """Compile the specs to IR, generate python_types into a temp dir, import it."""
    specs = {k: textwrap.dedent(v) for k, v in specs.items()}
    api = specs_to_ir(list(specs.items()))
    tmp_root = os.path.join(ROOT, '_find_tmp')
    os.makedirs(tmp_root, exist_ok=True)
    d = tempfile.mkdtemp(prefix='c10_find_', dir=tmp_root)
    paths = []
    for name, text in specs.items():
        p = os.path.join(d, name)
        with open(p, 'w') as f:
            f.write(text)
        paths.append(p)
    subprocess.check_call(
        [sys.executable, '-m', 'stone.cli', 'python_types', os.path.join(d, pkg)] + paths +
        ['--', '--package', pkg],
        cwd=ROOT, env=dict(os.environ, PYTHONPATH=ROOT))
    sys.path.insert(0, d)
    mods = {ns: importlib.import_module('%s.%s' % (pkg, ns)) for ns in api.namespaces}
    ss = importlib.import_module(pkg + '.stone_serializers')
    return api, mods, ss


def roundtrip(ss, validator, doc):
    """Strict decode + encode. Returns (ok, detail)."""
    doc = json.loads(json.dumps(doc))
    try:
        obj = ss.json_compat_obj_decode(validator, doc, strict=True)
    except Exception as e:
        return False, 'strict decode failed: %s: %s' % (type(e).__name__, e)
    back = json.loads(json.dumps(ss.json_compat_obj_encode(validator, obj)))
    if json.dumps(back, sort_keys=True) != json.dumps(doc, sort_keys=True):
        return False, 're-encoded as %s' % json.dumps(back, sort_keys=True)
    return True, 'ok'


failures = []


def report(what, observed, expected):
    failures.append(what)
    print('VIOLATION: %s\n    observed: %s\n    expected: %s' % (what, observed, expected))


def finish():
    if failures:
        print('%d violation(s) of C10' % len(failures))
        sys.exit(1)
    print('no violation observed')
    sys.exit(0)

SPEC = {'a.stone': '''
    namespace a
    struct S
        a Float64 = true
        b Float32 = false
        example default
'''}
try:
    api, mods, ss = build(SPEC, 'find5pkg')
except Exception as e:
    print('compiler refused the spec (%s): no violation' % e)
    finish()
m = mods['a']
inst = m.S()
print('declared: a Float64 = true, b Float32 = false')
print('S().a -> %r, S().b -> %r' % (inst.a, inst.b))
print('S[default] =', json.dumps(api.namespaces['a'].data_type_by_name['S'].get_examples()['default'].value))
# The same literal is refused everywhere else a float is expected:
from stone.ir import Float64
try:
    Float64().check(True); print('Float64().check(True) accepted')
except ValueError as e:
    print('Float64().check(True) ->', e)
try:
    inst.a = True
    print('generated class: S().a = True accepted, reads back %r' % inst.a)
except Exception as e:
    print('generated class: S().a = True ->', e)
if inst.a is not True:
    report('default `a Float64 = true` accepted by the compiler', 'field reads %r' % inst.a,
           'the spec is refused (a boolean is not a float: Float64.check and the JSON decoder both refuse it), '
           'or the read returns exactly the declared `true`')
try:
    ss.json_compat_obj_decode(m.S_validator, {'a': True}, strict=True)
    print('decoder accepted {"a": true}')
except Exception as e:
    print('decoder on {"a": true} ->', e)
finish()
