"""C10 finding 2: Timestamp example text accepted by the compiler that the runtime rejects
(non-UTC offset) or does not reproduce (non-canonical text such as un-padded numbers)."""
import importlib, json, os, subprocess, sys, tempfile, textwrap

ROOT = os.path.dirname(os.path.abspath(__file__))
sys.path.insert(0, ROOT)
from stone.frontend.frontend import specs_to_ir


def build(specs, pkg):
    """Compile the specs to IR, generate python_types into a temp dir, import it."""
    specs = {k: textwrap.dedent(v) for k, v in specs.items()}
    api = specs_to_ir(list(specs.items()))
    tmp_root = os.path.join(ROOT, '_find_tmp')
    os.makedirs(tmp_root, exist_ok=True)
    d = tempfile.mkdtemp(prefix='c10_find_', dir=tmp_root)
    paths = []
    for name, text in specs.items():
        p = os.path.join(d, name)
        with open(p, 'w') as f:
            f.write(text)
        paths.append(p)
    subprocess.check_call(
        [sys.executable, '-m', 'stone.cli', 'python_types', os.path.join(d, pkg)] + paths +
        ['--', '--package', pkg],
        cwd=ROOT, env=dict(os.environ, PYTHONPATH=ROOT))
    sys.path.insert(0, d)
    mods = {ns: importlib.import_module('%s.%s' % (pkg, ns)) for ns in api.namespaces}
    ss = importlib.import_module(pkg + '.stone_serializers')
    return api, mods, ss


def roundtrip(ss, validator, doc):
    """Strict decode + encode. Returns (ok, detail)."""
    doc = json.loads(json.dumps(doc))
    try:
        obj = ss.json_compat_obj_decode(validator, doc, strict=True)
    except Exception as e:
        return False, 'strict decode failed: %s: %s' % (type(e).__name__, e)
    back = json.loads(json.dumps(ss.json_compat_obj_encode(validator, obj)))
    if json.dumps(back, sort_keys=True) != json.dumps(doc, sort_keys=True):
        return False, 're-encoded as %s' % json.dumps(back, sort_keys=True)
    return True, 'ok'


failures = []


def report(what, observed, expected):
    failures.append(what)
    print('VIOLATION: %s\n    observed: %s\n    expected: %s' % (what, observed, expected))


def finish():
    if failures:
        print('%d violation(s) of C10' % len(failures))
        sys.exit(1)
    print('no violation observed')
    sys.exit(0)

SPEC = {'a.stone': '''
    namespace a
    struct Tz
        t Timestamp("%Y-%m-%dT%H:%M:%S%z")
        example default
            t = "2015-05-12T15:50:38+0100"
    union TzU
        t Timestamp("%Y-%m-%dT%H:%M:%S%z")
        example default
            t = "2015-05-12T15:50:38-0800"
    struct Pad
        t Timestamp("%Y-%m-%d")
        h Timestamp("%H")
        example default
            t = "2015-5-1"
            h = "7"
'''}
api, mods, ss = build(SPEC, 'find2pkg')
ns = api.namespaces['a']; m = mods['a']
for type_name in ('Tz', 'TzU', 'Pad'):
    dt = ns.data_type_by_name[type_name]
    doc = dt.get_examples()['default'].value
    ok, detail = roundtrip(ss, getattr(m, type_name + '_validator'), doc)
    print('%s[default] = %s -> %s' % (type_name, json.dumps(doc), detail))
    if not ok:
        report('example %s[default] %s' % (type_name, json.dumps(doc)), detail,
               'decodes strictly and re-encodes to the same document')
finish()
