from stone.backends.python_rsrc.stone_base import *
