from stone.backends.python_rsrc.stone_serializers import *
