from stone.backends.python_rsrc.stone_validators import *
