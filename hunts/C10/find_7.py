"""C10 finding 7: a string default (or example value) that ends in a newline, or contains a line
separator other than \\n, is altered by the lexer, so reading the field does not return the
declared default."""
import importlib, json, os, subprocess, sys, tempfile, textwrap

ROOT = os.path.dirname(os.path.abspath(__file__))
sys.path.insert(0, ROOT)
from stone.frontend.frontend import specs_to_ir


def build(specs, pkg):
    """Compile the specs to IR, generate python_types into a temp dir, import it."""
    specs = {k: textwrap.dedent(v) for k, v in specs.items()}
    api = specs_to_ir(list(specs.items()))
    tmp_root = os.path.join(ROOT, '_find_tmp')
    os.makedirs(tmp_root, exist_ok=True)
    d = tempfile.mkdtemp(prefix='c10_find_', dir=tmp_root)
    paths = []
    for name, text in specs.items():
        p = os.path.join(d, name)
        with open(p, 'w') as f:
            f.write(text)
        paths.append(p)
    subprocess.check_call(
        [sys.executable, '-m', 'stone.cli', 'python_types', os.path.join(d, pkg)] + paths +
        ['--', '--package', pkg],
        cwd=ROOT, env=dict(os.environ, PYTHONPATH=ROOT))
    sys.path.insert(0, d)
    mods = {ns: importlib.import_module('%s.%s' % (pkg, ns)) for ns in api.namespaces}
    ss = importlib.import_module(pkg + '.stone_serializers')
    return api, mods, ss


def roundtrip(ss, validator, doc):
    """Strict decode + encode. Returns (ok, detail)."""
    doc = json.loads(json.dumps(doc))
    try:
        obj = ss.json_compat_obj_decode(validator, doc, strict=True)
    except Exception as e:
        return False, 'strict decode failed: %s: %s' % (type(e).__name__, e)
    back = json.loads(json.dumps(ss.json_compat_obj_encode(validator, obj)))
    if json.dumps(back, sort_keys=True) != json.dumps(doc, sort_keys=True):
        return False, 're-encoded as %s' % json.dumps(back, sort_keys=True)
    return True, 'ok'


failures = []


def report(what, observed, expected):
    failures.append(what)
    print('VIOLATION: %s\n    observed: %s\n    expected: %s' % (what, observed, expected))


def finish():
    if failures:
        print('%d violation(s) of C10' % len(failures))
        sys.exit(1)
    print('no violation observed')
    sys.exit(0)

SPEC = {'a.stone': '''
    namespace a
    struct S
        a String = "line\\n"
        b String = "x\\n\\n"
        c String = "p\\
q"
        d String(min_length=1) = "\\n"
'''}
# `c` is written with a literal U+2028 below; `d` is expected to be refused only because of the bug
spec = SPEC['a.stone'].replace('p\\\nq', 'p\u2028q')
declared = {'a': 'line\n', 'b': 'x\n\n', 'c': 'p\u2028q'}
spec_ok = spec.replace('        d String(min_length=1) = "\\n"\n', '')
api, mods, ss = build({'a.stone': spec_ok}, 'find7pkg')
inst = mods['a'].S()
for name, want in declared.items():
    got = getattr(inst, name)
    print('declared %s = %r ; S().%s -> %r' % (name, want, name, got))
    if got != want:
        report('default of S.%s' % name, repr(got), 'exactly the declared default %r' % want)
from stone.frontend.exception import InvalidSpec
import textwrap
try:
    specs_to_ir([('a.stone', textwrap.dedent(spec))])
    print('d String(min_length=1) = "\\n" accepted')
except InvalidSpec as e:
    print('d String(min_length=1) = "\\n" refused: %s' % e.msg)
    report('default `d String(min_length=1) = "\\n"`', 'refused: ' + e.msg,
           'accepted: the declared one-character string satisfies min_length=1')
finish()
