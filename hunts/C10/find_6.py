"""C10 finding 6: integer literals given as example values of Float fields stay integers in the
computed example (defaults are converted to float, example values are not), so the document the
runtime produces differs: {"a": 1} -> {"a": 1.0}."""
import importlib, json, os, subprocess, sys, tempfile, textwrap

ROOT = os.path.dirname(os.path.abspath(__file__))
sys.path.insert(0, ROOT)
from stone.frontend.frontend import specs_to_ir


def build(specs, pkg):
    """Compile the specs to IR, generate python_types into a temp dir, import it."""
    specs = {k: textwrap.dedent(v) for k, v in specs.items()}
    api = specs_to_ir(list(specs.items()))
    tmp_root = os.path.join(ROOT, '_find_tmp')
    os.makedirs(tmp_root, exist_ok=True)
    d = tempfile.mkdtemp(prefix='c10_find_', dir=tmp_root)
    paths = []
    for name, text in specs.items():
        p = os.path.join(d, name)
        with open(p, 'w') as f:
            f.write(text)
        paths.append(p)
    subprocess.check_call(
        [sys.executable, '-m', 'stone.cli', 'python_types', os.path.join(d, pkg)] + paths +
        ['--', '--package', pkg],
        cwd=ROOT, env=dict(os.environ, PYTHONPATH=ROOT))
    sys.path.insert(0, d)
    mods = {ns: importlib.import_module('%s.%s' % (pkg, ns)) for ns in api.namespaces}
    ss = importlib.import_module(pkg + '.stone_serializers')
    return api, mods, ss


def roundtrip(ss, validator, doc):
    """Strict decode + encode. Returns (ok, detail)."""
    doc = json.loads(json.dumps(doc))
    try:
        obj = ss.json_compat_obj_decode(validator, doc, strict=True)
    except Exception as e:
        return False, 'strict decode failed: %s: %s' % (type(e).__name__, e)
    back = json.loads(json.dumps(ss.json_compat_obj_encode(validator, obj)))
    if json.dumps(back, sort_keys=True) != json.dumps(doc, sort_keys=True):
        return False, 're-encoded as %s' % json.dumps(back, sort_keys=True)
    return True, 'ok'


failures = []


def report(what, observed, expected):
    failures.append(what)
    print('VIOLATION: %s\n    observed: %s\n    expected: %s' % (what, observed, expected))


def finish():
    if failures:
        print('%d violation(s) of C10' % len(failures))
        sys.exit(1)
    print('no violation observed')
    sys.exit(0)

SPEC = {'a.stone': '''
    namespace a
    struct S
        a Float64
        l List(Float32)
        m Map(String, Float64)
        d Float64 = 1
        example default
            a = 1
            l = [2, 2.5]
            m = {"k": 3}
        example big
            a = 9007199254740993
            l = []
            m = {}
    union U
        f Float64
        example default
            f = 4
'''}
api, mods, ss = build(SPEC, 'find6pkg')
ns = api.namespaces['a']; m = mods['a']
for type_name, label in (('S', 'default'), ('S', 'big'), ('U', 'default')):
    doc = ns.data_type_by_name[type_name].get_examples()[label].value
    text = json.dumps(doc, sort_keys=True)
    obj = ss.json_compat_obj_decode(getattr(m, type_name + '_validator'), json.loads(text), strict=True)
    back = json.dumps(json.loads(ss.json_encode(getattr(m, type_name + '_validator'), obj)), sort_keys=True)
    print('%s[%s] = %s\n   re-encoded  %s' % (type_name, label, text, back))
    if text != back:
        report('example %s[%s]' % (type_name, label), 're-encoded document %s' % back,
               'the same document %s (the default d = 1 is stored as 1.0, the example values are not)' % text)
finish()
