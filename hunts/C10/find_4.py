"""C10 finding 4: a union example whose label equals the name of a void tag (or `other`).
The label then resolves to the explicit example when it is referenced (also when a tag *default*
is materialised into a struct example), while get_examples() silently replaces the explicit
example with the implicit one of the tag."""
import importlib, json, os, subprocess, sys, tempfile, textwrap

ROOT = os.path.dirname(os.path.abspath(__file__))
sys.path.insert(0, ROOT)
from stone.frontend.frontend import specs_to_ir


def build(specs, pkg):
    """Compile the specs to IR, generate python_types into a temp dir, import it."""
    specs = {k: textwrap.dedent(v) for k, v in specs.items()}
    api = specs_to_ir(list(specs.items()))
    tmp_root = os.path.join(ROOT, '_find_tmp')
    os.makedirs(tmp_root, exist_ok=True)
    d = tempfile.mkdtemp(prefix='c10_find_', dir=tmp_root)
    paths = []
    for name, text in specs.items():
        p = os.path.join(d, name)
        with open(p, 'w') as f:
            f.write(text)
        paths.append(p)
    subprocess.check_call(
        [sys.executable, '-m', 'stone.cli', 'python_types', os.path.join(d, pkg)] + paths +
        ['--', '--package', pkg],
        cwd=ROOT, env=dict(os.environ, PYTHONPATH=ROOT))
    sys.path.insert(0, d)
    mods = {ns: importlib.import_module('%s.%s' % (pkg, ns)) for ns in api.namespaces}
    ss = importlib.import_module(pkg + '.stone_serializers')
    return api, mods, ss


def roundtrip(ss, validator, doc):
    """Strict decode + encode. Returns (ok, detail)."""
    doc = json.loads(json.dumps(doc))
    try:
        obj = ss.json_compat_obj_decode(validator, doc, strict=True)
    except Exception as e:
        return False, 'strict decode failed: %s: %s' % (type(e).__name__, e)
    back = json.loads(json.dumps(ss.json_compat_obj_encode(validator, obj)))
    if json.dumps(back, sort_keys=True) != json.dumps(doc, sort_keys=True):
        return False, 're-encoded as %s' % json.dumps(back, sort_keys=True)
    return True, 'ok'


failures = []


def report(what, observed, expected):
    failures.append(what)
    print('VIOLATION: %s\n    observed: %s\n    expected: %s' % (what, observed, expected))


def finish():
    if failures:
        print('%d violation(s) of C10' % len(failures))
        sys.exit(1)
    print('no violation observed')
    sys.exit(0)

SPEC = {'a.stone': '''
    namespace a
    union U
        x
        y Int32
        example x
            y = 3
    struct S
        u U = x
        example default
    union O
        v
        w Int32
        example other
            w = 3
'''}
api, mods, ss = build(SPEC, 'find4pkg')
ns = api.namespaces['a']; m = mods['a']
S = ns.data_type_by_name['S']
doc = json.loads(json.dumps(S.get_examples()['default'].value))
inst = m.S()
print('S.u declared default: tag x;  S().u ->', inst.u)
print('computed example S[default] (u omitted in the spec, so it shows the default):', json.dumps(doc))
# what the runtime says the never-set field holds
runtime_u = json.loads(json.dumps(ss.json_compat_obj_encode(m.U_validator, inst.u)))
print('runtime: encode(S().u) ->', json.dumps(runtime_u))
if doc.get('u') != runtime_u:
    report('S[default] materialises the tag default `u U = x`',
           'example carries "u": %s' % json.dumps(doc.get('u')),
           'the declared default, i.e. "u": %s' % json.dumps(runtime_u))
# the explicit example labelled `x` is gone from get_examples()
ux = json.loads(json.dumps(ns.data_type_by_name['U'].get_examples()['x'].value))
print('U.get_examples()["x"] ->', json.dumps(ux), ' (spec says: y = 3)')
if ux != {'.tag': 'y', 'y': 3}:
    report('explicit example U[x]', json.dumps(ux), 'the example written in the spec: {".tag": "y", "y": 3}')
# with the label `other` the explicit, valid example is replaced by one that cannot be decoded
oo = ns.data_type_by_name['O'].get_examples()['other'].value
ok, detail = roundtrip(ss, m.O_validator, oo)
print('O.get_examples()["other"] ->', json.dumps(oo), '->', detail, ' (spec says: w = 3)')
if not ok:
    report('explicit (not implicit) example O[other]', '%s, %s' % (json.dumps(oo), detail),
           '{".tag": "w", "w": 3}, which decodes strictly')
finish()
