"""C10 finding 1: examples/defaults that reference the catch-all tag `other` produce
struct/union examples that the generated runtime refuses to decode strictly."""
import importlib, json, os, subprocess, sys, tempfile, textwrap

ROOT = os.path.dirname(os.path.abspath(__file__))
sys.path.insert(0, ROOT)
from stone.frontend.frontend import specs_to_ir


def build(specs, pkg):
    """Compile the specs to IR, generate python_types into a temp dir, import it."""
    specs = {k: textwrap.dedent(v) for k, v in specs.items()}
    api = specs_to_ir(list(specs.items()))
    tmp_root = os.path.join(ROOT, '_find_tmp')
    os.makedirs(tmp_root, exist_ok=True)
    d = tempfile.mkdtemp(prefix='c10_find_', dir=tmp_root)
    paths = []
    for name, text in specs.items():
        p = os.path.join(d, name)
        with open(p, 'w') as f:
            f.write(text)
        paths.append(p)
    subprocess.check_call(
        [sys.executable, '-m', 'stone.cli', 'python_types', os.path.join(d, pkg)] + paths +
        ['--', '--package', pkg],
        cwd=ROOT, env=dict(os.environ, PYTHONPATH=ROOT))
    sys.path.insert(0, d)
    mods = {ns: importlib.import_module('%s.%s' % (pkg, ns)) for ns in api.namespaces}
    ss = importlib.import_module(pkg + '.stone_serializers')
    return api, mods, ss


def roundtrip(ss, validator, doc):
    """Strict decode + encode. Returns (ok, detail)."""
    doc = json.loads(json.dumps(doc))
    try:
        obj = ss.json_compat_obj_decode(validator, doc, strict=True)
    except Exception as e:
        return False, 'strict decode failed: %s: %s' % (type(e).__name__, e)
    back = json.loads(json.dumps(ss.json_compat_obj_encode(validator, obj)))
    if json.dumps(back, sort_keys=True) != json.dumps(doc, sort_keys=True):
        return False, 're-encoded as %s' % json.dumps(back, sort_keys=True)
    return True, 'ok'


failures = []


def report(what, observed, expected):
    failures.append(what)
    print('VIOLATION: %s\n    observed: %s\n    expected: %s' % (what, observed, expected))


def finish():
    if failures:
        print('%d violation(s) of C10' % len(failures))
        sys.exit(1)
    print('no violation observed')
    sys.exit(0)

SPEC = {'a.stone': '''
    namespace a
    union O
        x
        example explicit
            other = null
    union W
        o O
        example default
            o = other
    struct ByDefault
        o O = other
        example default
    struct ByRef
        o O
        l List(O)
        example default
            o = other
            l = [x, other]
'''}
api, mods, ss = build(SPEC, 'find1pkg')
ns = api.namespaces['a']; m = mods['a']
# the default itself is fine at runtime ...
d = m.ByDefault().o
print('ByDefault().o ->', d)
for type_name, label in [('O', 'explicit'), ('W', 'default'), ('ByDefault', 'default'), ('ByRef', 'default')]:
    dt = ns.data_type_by_name[type_name]
    doc = dt.get_examples()[label].value
    ok, detail = roundtrip(ss, getattr(m, type_name + '_validator'), doc)
    print('%s[%s] = %s -> %s' % (type_name, label, json.dumps(doc), detail))
    if not ok:
        report('example %s[%s] (not the implicit catch-all example) %s' % (type_name, label, json.dumps(doc)),
               detail, 'decodes strictly and re-encodes to the same document')
finish()
