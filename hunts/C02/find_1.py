"""A built-in annotation on an undocumented field invents the doc text '... None'."""
from _common import ir, Report

api = ir('''
    namespace ns
    annotation Dep = Deprecated()
    annotation Prev = Preview()
    annotation Om = Omitted("internal")
    struct S
        f String
            @Dep
        g String?
            @Om
    union U
        x
            @Prev
''')
ns = api.namespaces['ns']
r = Report('C02: docs of annotated, undocumented fields')
S, U = ns.data_type_by_name['S'], ns.data_type_by_name['U']
# No doc is declared for any of these members, so the description must not
# contain the word "None" as documentation text.
for t, name in ((S, 'f'), (S, 'g'), (U, 'x')):
    f = [x for x in t.fields if x.name == name][0]
    r.expect('%s.%s.doc contains the literal text "None"' % (t.name, name),
             'None' in (f.doc or ''), False)
    print('     (doc = %r, raw_doc = %r)' % (f.doc, f.raw_doc))
r.done()
