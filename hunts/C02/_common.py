"""Shared helper for the find_N.py scripts (run with PYTHONPATH=/repo)."""
import textwrap
from stone.frontend.frontend import specs_to_ir


def ir(*texts, **kw):
    specs = [('f%d.stone' % i, textwrap.dedent(t)) for i, t in enumerate(texts)]
    return specs_to_ir(specs, **kw)


class Report:
    def __init__(self, title):
        self.title = title
        self.bad = 0
        print('== ' + title)

    def expect(self, what, observed, expected):
        ok = observed == expected
        if not ok:
            self.bad += 1
        print('%s %s\n     observed: %r\n     expected: %r' % (
            'ok  ' if ok else 'FAIL', what, observed, expected))

    def done(self):
        print('%d violation(s)' % self.bad)
        raise SystemExit(1 if self.bad else 0)
