"""Route attribute values are not normalised the way schema defaults are."""
import datetime
from _common import ir, Report

api = ir('''
    namespace stone_cfg
    struct Route
        ts Timestamp("%Y-%m-%d") = "2020-01-02"
        bb Bytes = "abc"
        fl Float64 = 1
''', '''
    namespace x
    route defaulted(Void, Void, Void)
    route given(Void, Void, Void)
        attrs
            ts = "2020-01-02"
            bb = "abc"
            fl = 1
''')
x = api.namespaces['x']
d = x.route_by_name['defaulted'].attrs
g = x.route_by_name['given'].attrs
r = Report('C02: the same declared attribute value has one representation '
           '(backend_ref: None, bool, float, int, str, TagRef)')
for k in ('ts', 'bb', 'fl'):
    r.expect('attrs[%r]: type when given explicitly vs. type of the identical schema default' % k,
             type(g[k]).__name__, type(d[k]).__name__)
    print('     (given %r, defaulted %r)' % (g[k], d[k]))
r.done()
