"""Examples given in a patch: the text is dropped and values silently replace declared ones."""
from _common import ir, Report

api = ir('''
    namespace x
    struct P
        a String
        example default
            a = "declared"
        example second
            "original text"
            a = "A"
''', '''
    namespace x
    patch struct P
        c Int32
        example default
            "text given in the patch"
            c = 5
        example second
            a = "overwritten by patch"
            c = 6
''')
P = api.namespaces['x'].data_type_by_name['P']
ex = P.get_examples()
r = Report('C02: declared examples (text and values) survive patching')
r.expect("text of example 'default' (only the patch gives one)", ex['default'].text, 'text given in the patch')
r.expect("value of field a in example 'second' (declared twice: must be refused or keep the original)",
         ex['second'].value['a'], 'A')
r.done()
