"""Types of the stone_cfg namespace stay reachable although the namespace is removed from the API."""
from _common import ir, Report

api = ir('''
    namespace stone_cfg
    struct Route
        key1 String = "d"
    alias Host = String
''', '''
    namespace x
    import stone_cfg
    struct S
        r stone_cfg.Route
        h stone_cfg.Host
    route r1(S, Void, Void)
''')
x = api.namespaces['x']
S = x.data_type_by_name['S']
r = Report('C02: every reachable type is registered in a namespace of the API')
for f in S.fields:
    dt = f.data_type
    ns = api.namespaces.get(dt.namespace.name)
    table = {}
    if ns is not None:
        table = dict(ns.data_type_by_name)
        table.update(ns.alias_by_name)
    r.expect("type of x.S.%s (%s.%s) is registered in api.namespaces[%r]" % (
        f.name, dt.namespace.name, dt.name, dt.namespace.name),
        table.get(dt.name) is dt, True)
imported = [n.name for n in x.get_imported_namespaces()]
r.expect('namespaces imported by x that are missing from api.namespaces',
         [n for n in imported if n not in api.namespaces], [])
print("     (python_types then emits 'from <pkg> import stone_cfg' for a module it never writes)")
r.done()
