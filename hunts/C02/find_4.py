"""A built-in generic type written with a namespace prefix resolves its arguments in that
namespace and records no import."""
from _common import ir, Report

api = ir('''
    namespace other
    struct Foo
        o String
''', '''
    namespace x
    import other
    struct Foo
        mine Int32
    struct S
        a other.List(Foo)
        b List(Foo)
''')
x = api.namespaces['x']
S = x.data_type_by_name['S']
a, b = S.fields
r = Report("C02: 'Foo' written in namespace x names x.Foo; referenced namespaces are imported")
r.expect("item type of x.S.b  (List(Foo))",
         '%s.%s' % (b.data_type.data_type.namespace.name, b.data_type.data_type.name), 'x.Foo')
r.expect("item type of x.S.a  (other.List(Foo))",
         '%s.%s' % (a.data_type.data_type.namespace.name, a.data_type.data_type.name), 'x.Foo')
used = {a.data_type.data_type.namespace.name, b.data_type.data_type.namespace.name} - {'x'}
r.expect('namespaces whose types x.S uses but x does not list as imported',
         sorted(used - {n.name for n in x.get_imported_namespaces()}), [])
r.done()
