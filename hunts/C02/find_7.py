"""With a route whitelist the filtered API keeps references to routes and types it dropped."""
from _common import ir, Report

SPECS = ('''
    namespace stone_cfg
    import m
    struct Route
        mode m.Mode = b
''', '''
    namespace m
    union Mode
        a
        b
''', '''
    namespace x
    struct OldArg
        o String
    struct NewArg
        n String
    struct Base
        b String
    struct Kid extends Base
        k String
    route old(OldArg, Void, Void) deprecated by new:2
        attrs
            mode = a
    route new:2(NewArg, Base, Void)
''')
r = Report('C02 (closure): everything reachable from the filtered API is registered in it')

api = ir(*SPECS, route_whitelist_filter={'route_whitelist': {'x': ['old']}, 'datatype_whitelist': {}})
x = api.namespaces['x']
old = x.routes_by_name['old'].at_version[1]
by = old.deprecated.by
r.expect("route named by old.deprecated.by (%s) is a route of namespace x" % by.name_with_version(),
         any(q is by for q in x.routes), True)
r.expect("argument type of that route (%s) is registered in x" % by.arg_data_type.name,
         x.data_type_by_name.get(by.arg_data_type.name) is by.arg_data_type, True)
mode = old.attrs['mode'].union_data_type
r.expect("union of the route attribute value old.attrs['mode'] (m.Mode) is registered in m",
         api.namespaces['m'].data_type_by_name.get('Mode') is mode, True)

api = ir(*SPECS, route_whitelist_filter={'route_whitelist': {'x': ['new:2']}, 'datatype_whitelist': {}})
x = api.namespaces['x']
base = x.data_type_by_name['Base']
r.expect('subtypes of x.Base that are not data types of x',
         [s.name for s in base.subtypes if x.data_type_by_name.get(s.name) is not s], [])
r.done()
