"""String literals lose characters in the lexer (indentation stripping applied to every string)."""
from _common import ir, Report

api = ir('''
    namespace stone_cfg
    struct Route
        k String
''', '''
    namespace ns
        "Ns    doc"
    struct S
        "First    line"
        a String = "a    b"
        b String = "tail\\n"
        c String = "\\n"
        example default
            a = "one        two"
    struct T
        d String(pattern="x    y")
        e Timestamp("%Y    %m")
        f String(
            pattern="q    r")
    route r(Void, Void, Void)
        "Route    doc"
        attrs
            k = "v        w"
''')
ns = api.namespaces['ns']
S = ns.data_type_by_name['S']
F = {f.name: f for f in S.fields + ns.data_type_by_name['T'].fields}
r = Report('C02: string literals are carried over verbatim')
r.expect('default of S.a', F['a'].default, 'a    b')
r.expect('default of S.b', F['b'].default, 'tail\n')
r.expect('default of S.c', F['c'].default, '\n')
r.expect('pattern of T.d', F['d'].data_type.pattern, 'x    y')
r.expect('format of T.e', F['e'].data_type.format, '%Y    %m')
r.expect('pattern of T.f (continuation line)', F['f'].data_type.pattern, 'q    r')
r.expect('example value of S.a', S.get_examples()['default'].value['a'], 'one        two')
r.expect('route attr k', ns.routes[0].attrs['k'], 'v        w')
r.expect('raw doc of S', S.raw_doc, 'First    line')
r.expect('raw doc of route r', ns.routes[0].raw_doc, 'Route    doc')
r.expect('namespace doc', ns.doc, 'Ns    doc\n')
r.done()
