"""A declared union example whose label equals a void tag is replaced by the implicit example."""
from _common import ir, Report

api = ir('''
    namespace x
    union U
        a
        b String
        example a
            "my text"
            b = "hello"
    struct S
        u U
        example default
            u = a
''')
x = api.namespaces['x']
U, S = x.data_type_by_name['U'], x.data_type_by_name['S']
ex = U.get_examples()['a']
r = Report("C02: declared examples are kept; implicit void-tag examples are only added")
r.expect("U example 'a' value", dict(ex.value), {'.tag': 'b', 'b': 'hello'})
r.expect("U example 'a' text", ex.text, 'my text')
r.expect("S.default.u (reference to U's example 'a') equals U.get_examples()['a']",
         dict(S.get_examples()['default'].value['u']), dict(ex.value))
r.done()
