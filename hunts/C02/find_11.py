"""An open union that extends an open union has no catch_all_field, and the inherited
'other' sits in the middle of all_fields."""
from _common import ir, Report

api = ir('''
    namespace ns
    union U
        u1
    union V extends U
        v1
    union_closed C
        c1
    union W extends C
        w1
''')
ns = api.namespaces['ns']
r = Report("C02: every open union exposes its 'other' catch-all (backend_ref: Union.catch_all_field)")
for name in ('U', 'V', 'W'):
    u = ns.data_type_by_name[name]
    r.expect('%s: closed=%r, catch_all_field is set' % (name, u.closed),
             u.catch_all_field is not None, True)
    print('     (all_fields: %r)' % [f.name for f in u.all_fields])
r.done()
