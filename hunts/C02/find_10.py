"""Duplicate keys in a map example literal are silently collapsed."""
from _common import ir, Report

api = ir('''
    namespace x
    struct S
        m Map(String, Int32)
        example default
            m = {"k": 1, "k": 2, "j": 3}
''')
ex = api.namespaces['x'].data_type_by_name['S'].get_examples()['default']
r = Report('C02: nothing declared is silently lost (duplicate example fields are refused, map keys are not)')
r.expect('number of entries of the declared map example', len(ex.value['m']), 3)
print('     (value: %r)' % (ex.value['m'],))
r.done()
