"""An inline definition under a field whose type has a namespace prefix becomes an unrelated
local type; the field keeps pointing at the foreign type."""
from _common import ir, Report

api = ir('''
    namespace y
    struct Name
        y1 String
''', '''
    namespace x
    import y
    struct Person
        name y.Name
            struct
                given String
''')
x = api.namespaces['x']
f = x.data_type_by_name['Person'].fields[0]
r = Report("C02: an inline definition defines the type of its field (lang_ref 'Nested Definitions')")
r.expect('fields of the type of x.Person.name', [g.name for g in f.data_type.fields], ['given'])
r.expect('data types of namespace x that nothing declared by name',
         [d.name for d in x.data_types if d.name not in ('Person',) and d is not f.data_type], [])
print('     (x.Person.name has type %s.%s; the inline struct was registered as x.Name)' % (
    f.data_type.namespace.name, f.data_type.name))
r.done()
