"""C04 finding 5: Timestamp format strings are not checked; many accepted formats can be written by strftime but not read back by strptime."""
import importlib, itertools, os, subprocess, sys, tempfile, traceback
ROOT = os.path.dirname(os.path.abspath(__file__))
sys.path.insert(0, ROOT)
from stone.backends.python_rsrc import stone_serializers as ss, stone_validators as bv, stone_base as bb
_n = itertools.count()

def build(spec):
    """Compile one spec text with the python_types backend and import namespace `ns`."""
    d = tempfile.mkdtemp(prefix='c04_')
    pkg = 'c04gen_%d_%d' % (os.getpid(), next(_n))
    out = os.path.join(d, pkg)
    os.makedirs(out)
    path = os.path.join(d, 'ns.stone')
    with open(path, 'w') as f:
        f.write(spec)
    r = subprocess.run([sys.executable, '-m', 'stone.cli', 'python_types', out, path, '--', '-p', pkg],
                       capture_output=True, text=True, env=dict(os.environ, PYTHONPATH=ROOT))
    if r.returncode != 0:
        raise RuntimeError('spec was rejected: ' + (r.stdout + r.stderr).strip())
    open(os.path.join(out, '__init__.py'), 'a').close()
    sys.path.insert(0, d)
    return importlib.import_module(pkg + '.ns')

VIOLATIONS = []

def roundtrip(validator, value, label):
    """Encode/decode through both entry points, strict and lenient; record violations."""
    for strict in (True, False):
        for entry in ('json_encode/json_decode', 'json_compat_obj_encode/json_compat_obj_decode'):
            where = '%s [%s, %s]' % (label, 'strict' if strict else 'lenient', entry.split('/')[0])
            try:
                if entry.startswith('json_encode'):
                    j1 = ss.json_encode(validator, value)
                    v2 = ss.json_decode(validator, j1, strict=strict)
                    j2 = ss.json_encode(validator, v2)
                else:
                    j1 = ss.json_compat_obj_encode(validator, value)
                    v2 = ss.json_compat_obj_decode(validator, j1, strict=strict)
                    j2 = ss.json_compat_obj_encode(validator, v2)
            except BaseException as e:
                VIOLATIONS.append('%s: raised %s: %s' % (where, type(e).__name__, str(e)[:200]))
                continue
            try:
                same = (v2 == value) and not (v2 != value)
            except BaseException as e:
                VIOLATIONS.append('%s: comparing decoded value raised %s: %s' % (where, type(e).__name__, e))
                continue
            if not same:
                VIOLATIONS.append('%s: decoded value differs: original %r, json %r, decoded %r' % (where, value, j1, v2))
            elif j1 != j2:
                VIOLATIONS.append('%s: re-encoding differs: %r vs %r' % (where, j1, j2))

def finish(expected):
    print('PROPERTY C04 demands: ' + expected)
    if VIOLATIONS:
        print('OBSERVED %d violation(s):' % len(VIOLATIONS))
        for v in VIOLATIONS:
            print('  - ' + v)
        sys.exit(1)
    print('no violation observed')
    sys.exit(0)

import datetime
cases = [
    # (format, datetime, comment)
    ('%F %T', datetime.datetime(2020, 2, 29, 23, 59, 59), 'C99 directives: strptime says bad directive'),
    ('%e %b %Y %H:%M:%S', datetime.datetime(2020, 2, 29, 23, 59, 59), '%e'),
    ('%s', datetime.datetime(2020, 2, 29, 23, 59, 59), 'epoch seconds'),
    ('%Y-%m-%d %H:%M:%S (%Y)', datetime.datetime(2020, 2, 29, 23, 59, 59), 'a directive used twice: re.error leaks out of the decoder'),
    ('%Y-%m-%dT%H:%M:%S%z', datetime.datetime(2020, 2, 29, 23, 59, 59), 'naive datetime with %z: strftime writes nothing, strptime requires an offset'),
    ('%Y-%m-%d %H:%M:%S %Z', datetime.datetime(2020, 2, 29, 23, 59, 59), 'naive datetime with %Z'),
    ('%c', datetime.datetime(999, 12, 31, 0, 0, 0), 'year < 1000 is only zero padded for a literal %Y'),
    ('%G-W%V-%u %H:%M:%S', datetime.datetime(1, 1, 1, 0, 0, 0), 'ISO year < 1000 is not zero padded'),
    ('%Y-%m-%dT%H:%M:%SZ', datetime.datetime(999, 12, 31, 0, 0, 0), 'control'),
]
for fmt, dt, comment in cases:
    ns = build('namespace ns\nstruct S\n    t Timestamp("%s")\n' % fmt)
    before = len(VIOLATIONS)
    roundtrip(ns.S_validator, ns.S(dt), 'Timestamp(%r) %s' % (fmt, dt.isoformat()))
    print('%-28r %-45s %s' % (fmt, comment, 'FAILS' if len(VIOLATIONS) > before else 'ok'))
finish("every accepted spec; second-precision datetimes are representable in each of these formats, so they must round-trip (or the format must be rejected at compile time)")
