"""C04 finding 1: the catch-all tag 'other' of an open union cannot be decoded after being encoded."""
import importlib, itertools, os, subprocess, sys, tempfile, traceback
ROOT = os.path.dirname(os.path.abspath(__file__))
sys.path.insert(0, ROOT)
from stone.backends.python_rsrc import stone_serializers as ss, stone_validators as bv, stone_base as bb
_n = itertools.count()

def build(spec):
    """Compile one spec text with the python_types backend and import namespace `ns`."""
    d = tempfile.mkdtemp(prefix='c04_')
    pkg = 'c04gen_%d_%d' % (os.getpid(), next(_n))
    out = os.path.join(d, pkg)
    os.makedirs(out)
    path = os.path.join(d, 'ns.stone')
    with open(path, 'w') as f:
        f.write(spec)
    r = subprocess.run([sys.executable, '-m', 'stone.cli', 'python_types', out, path, '--', '-p', pkg],
                       capture_output=True, text=True, env=dict(os.environ, PYTHONPATH=ROOT))
    if r.returncode != 0:
        raise RuntimeError('spec was rejected: ' + (r.stdout + r.stderr).strip())
    open(os.path.join(out, '__init__.py'), 'a').close()
    sys.path.insert(0, d)
    return importlib.import_module(pkg + '.ns')

VIOLATIONS = []

def roundtrip(validator, value, label):
    """Encode/decode through both entry points, strict and lenient; record violations."""
    for strict in (True, False):
        for entry in ('json_encode/json_decode', 'json_compat_obj_encode/json_compat_obj_decode'):
            where = '%s [%s, %s]' % (label, 'strict' if strict else 'lenient', entry.split('/')[0])
            try:
                if entry.startswith('json_encode'):
                    j1 = ss.json_encode(validator, value)
                    v2 = ss.json_decode(validator, j1, strict=strict)
                    j2 = ss.json_encode(validator, v2)
                else:
                    j1 = ss.json_compat_obj_encode(validator, value)
                    v2 = ss.json_compat_obj_decode(validator, j1, strict=strict)
                    j2 = ss.json_compat_obj_encode(validator, v2)
            except BaseException as e:
                VIOLATIONS.append('%s: raised %s: %s' % (where, type(e).__name__, str(e)[:200]))
                continue
            try:
                same = (v2 == value) and not (v2 != value)
            except BaseException as e:
                VIOLATIONS.append('%s: comparing decoded value raised %s: %s' % (where, type(e).__name__, e))
                continue
            if not same:
                VIOLATIONS.append('%s: decoded value differs: original %r, json %r, decoded %r' % (where, value, j1, v2))
            elif j1 != j2:
                VIOLATIONS.append('%s: re-encoding differs: %r vs %r' % (where, j1, j2))

def finish(expected):
    print('PROPERTY C04 demands: ' + expected)
    if VIOLATIONS:
        print('OBSERVED %d violation(s):' % len(VIOLATIONS))
        for v in VIOLATIONS:
            print('  - ' + v)
        sys.exit(1)
    print('no violation observed')
    sys.exit(0)

ns = build('''
namespace ns
union U
    a
    b Int32
struct S
    u U
route r(S, U, U)
''')
roundtrip(ns.U_validator, ns.U.a, 'U.a (control)')
roundtrip(ns.U_validator, ns.U.other, 'U.other')
roundtrip(ns.S_validator, ns.S(ns.U.other), 'S(u=U.other)')
roundtrip(ns.ROUTES['r'].error_type, ns.U.other, 'route error U.other')
finish("U.other is a valid value of the open union U (every tag), so decode(encode(U.other)) == U.other in every mode")
