"""C04 finding 6: values held by a union member (and top-level values) are validated but not normalized, while the encoder normalizes lists/maps."""
import importlib, itertools, os, subprocess, sys, tempfile, traceback
ROOT = os.path.dirname(os.path.abspath(__file__))
sys.path.insert(0, ROOT)
from stone.backends.python_rsrc import stone_serializers as ss, stone_validators as bv, stone_base as bb
_n = itertools.count()

def build(spec):
    """Compile one spec text with the python_types backend and import namespace `ns`."""
    d = tempfile.mkdtemp(prefix='c04_')
    pkg = 'c04gen_%d_%d' % (os.getpid(), next(_n))
    out = os.path.join(d, pkg)
    os.makedirs(out)
    path = os.path.join(d, 'ns.stone')
    with open(path, 'w') as f:
        f.write(spec)
    r = subprocess.run([sys.executable, '-m', 'stone.cli', 'python_types', out, path, '--', '-p', pkg],
                       capture_output=True, text=True, env=dict(os.environ, PYTHONPATH=ROOT))
    if r.returncode != 0:
        raise RuntimeError('spec was rejected: ' + (r.stdout + r.stderr).strip())
    open(os.path.join(out, '__init__.py'), 'a').close()
    sys.path.insert(0, d)
    return importlib.import_module(pkg + '.ns')

VIOLATIONS = []

def roundtrip(validator, value, label):
    """Encode/decode through both entry points, strict and lenient; record violations."""
    for strict in (True, False):
        for entry in ('json_encode/json_decode', 'json_compat_obj_encode/json_compat_obj_decode'):
            where = '%s [%s, %s]' % (label, 'strict' if strict else 'lenient', entry.split('/')[0])
            try:
                if entry.startswith('json_encode'):
                    j1 = ss.json_encode(validator, value)
                    v2 = ss.json_decode(validator, j1, strict=strict)
                    j2 = ss.json_encode(validator, v2)
                else:
                    j1 = ss.json_compat_obj_encode(validator, value)
                    v2 = ss.json_compat_obj_decode(validator, j1, strict=strict)
                    j2 = ss.json_compat_obj_encode(validator, v2)
            except BaseException as e:
                VIOLATIONS.append('%s: raised %s: %s' % (where, type(e).__name__, str(e)[:200]))
                continue
            try:
                same = (v2 == value) and not (v2 != value)
            except BaseException as e:
                VIOLATIONS.append('%s: comparing decoded value raised %s: %s' % (where, type(e).__name__, e))
                continue
            if not same:
                VIOLATIONS.append('%s: decoded value differs: original %r, json %r, decoded %r' % (where, value, j1, v2))
            elif j1 != j2:
                VIOLATIONS.append('%s: re-encoding differs: %r vs %r' % (where, j1, j2))

def finish(expected):
    print('PROPERTY C04 demands: ' + expected)
    if VIOLATIONS:
        print('OBSERVED %d violation(s):' % len(VIOLATIONS))
        for v in VIOLATIONS:
            print('  - ' + v)
        sys.exit(1)
    print('no violation observed')
    sys.exit(0)

import fractions
ns = build('''
namespace ns
union U
    l List(Int32)
    fl List(Float64)
    fm Map(String, Float64)
    f Float64
struct S
    l List(Int32)
    fl List(Float64)
alias AL = List(Float64)
route r(AL, AL, AL)
''')
U, S = ns.U, ns.S
big = 2 ** 53 + 1
# control: struct fields normalize on assignment, so what is stored round-trips
roundtrip(ns.S_validator, S((1, 2), [big]), 'S(l=(1,2), fl=[2**53+1]) (control)')
U.l((1, 2)); U.fl([big]); U.f(fractions.Fraction(1, 2))  # all accepted by the constructor
roundtrip(ns.U_validator, U.l((1, 2)), 'U.l((1, 2)) tuple')
roundtrip(ns.U_validator, U.fl([big]), 'U.fl([2**53+1]) int in List(Float64)')
roundtrip(ns.U_validator, U.fm({'k': big}), 'U.fm({k: 2**53+1})')
roundtrip(ns.U_validator, U.f(fractions.Fraction(1, 2)), 'U.f(Fraction(1, 2))')
roundtrip(ns.ROUTES['r'].arg_type, [big], 'route arg List(Float64) [2**53+1]')
roundtrip(ns.ROUTES['r'].arg_type, (1.0,), 'route arg List(Float64) (1.0,)')
finish("these values pass validation, so the decoded value must equal the value that was encoded")
