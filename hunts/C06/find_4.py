"""C06 finding 4: strict mode accepts unknown keys that merely start with '.tag' (and '.tag' itself on non-tagged structs)."""
import json, os, subprocess, sys, tempfile
sys.path.insert(0, '/repo')
from stone.backends.python_rsrc import stone_serializers as ss, stone_validators as bv

def build(spec_text):
    """Compile a Stone spec with the python_types backend and import the result."""
    d = tempfile.mkdtemp(prefix='c06_')
    spec = os.path.join(d, 'ns.stone')
    with open(spec, 'w') as f:
        f.write(spec_text)
    pkg = os.path.join(d, 'genpkg')
    os.makedirs(pkg)
    env = dict(os.environ, PYTHONPATH='/repo')
    subprocess.check_call([sys.executable, '-m', 'stone.cli', 'python_types', pkg, spec,
                           '--', '-p', 'genpkg'], env=env, stdout=subprocess.DEVNULL)
    sys.path.insert(0, d)
    import importlib
    return importlib.import_module('genpkg.ns')

def decode(dt, doc, strict, text=False):
    """Returns ('OK', value) | ('VE', msg) | ('EXC', 'Type: msg')."""
    try:
        if text:
            return ('OK', ss.json_decode(dt, doc, strict=strict))
        return ('OK', ss.json_decode(dt, json.dumps(doc), strict=strict))
    except bv.ValidationError as e:
        return ('VE', str(e))
    except BaseException as e:  # anything else is a property violation
        return ('EXC', '%s: %s' % (type(e).__name__, str(e)[:80]))

bad = []
def expect(kind, dt, doc, why, text=False, modes=(True, False)):
    """kind: 'reject' (must raise ValidationError) or 'accept' (must return a value)."""
    for strict in modes:
        r = decode(dt, doc, strict, text)
        want = 'VE' if kind == 'reject' else 'OK'
        shown = doc if not text else (doc[:40] + ('...(%d chars)' % len(doc) if len(doc) > 40 else ''))
        if r[0] != want:
            bad.append(1)
            print('VIOLATION [%s] doc=%s\n    observed: %s %r\n    expected: %s  (%s)' % (
                'strict' if strict else 'lenient', shown if text else json.dumps(doc), r[0], r[1] if r[0] != 'OK' else r[1],
                'ValidationError' if kind == 'reject' else 'accepted', why))
        else:
            print('ok        [%s] doc=%s -> %s' % ('strict' if strict else 'lenient', shown if text else json.dumps(doc), r[0]))

def finish():
    print('\n%d violation(s)' % len(bad))
    sys.exit(1 if bad else 0)

ns = build('''namespace ns
struct Simple
    a Int32
struct Base
    union
        leaf Leaf
    name String
struct Leaf extends Base
    size UInt64
union U
    s Simple
''')
S = (True,)
why = 'unknown field in strict mode must be rejected'
expect('accept', ns.Simple_validator, {"a": 1}, 'reference encoding', modes=S)
expect('reject', ns.Simple_validator, {"a": 1, "zz": 1}, 'control: unknown field', modes=S)
expect('reject', ns.Simple_validator, {"a": 1, ".tagzz": 1}, why, modes=S)
expect('reject', ns.Simple_validator, {"a": 1, ".tag_anything": [1, {}]}, why, modes=S)
expect('reject', ns.Simple_validator, {"a": 1, ".tag": 5}, why + ' (Simple is not a tagged type; .tag is not even a string)', modes=S)
expect('reject', ns.Base_validator, {".tag": "leaf", "name": "n", "size": 1, ".tagx": 2}, why, modes=S)
expect('reject', ns.U_validator, {".tag": "s", "a": 1, ".tagged": None}, why, modes=S)
expect('reject', ns.Leaf_validator, {".tag": 5, "name": "n", "size": 1}, why + ' (.tag of wrong kind)', modes=S)
finish()
