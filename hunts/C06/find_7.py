"""C06 finding 7 (lower confidence): explicit null for a nullable union member is accepted for primitive members but refused for list/map/union/struct-tree members."""
import json, os, subprocess, sys, tempfile
sys.path.insert(0, '/repo')
from stone.backends.python_rsrc import stone_serializers as ss, stone_validators as bv

def build(spec_text):
    """Compile a Stone spec with the python_types backend and import the result."""
    d = tempfile.mkdtemp(prefix='c06_')
    spec = os.path.join(d, 'ns.stone')
    with open(spec, 'w') as f:
        f.write(spec_text)
    pkg = os.path.join(d, 'genpkg')
    os.makedirs(pkg)
    env = dict(os.environ, PYTHONPATH='/repo')
    subprocess.check_call([sys.executable, '-m', 'stone.cli', 'python_types', pkg, spec,
                           '--', '-p', 'genpkg'], env=env, stdout=subprocess.DEVNULL)
    sys.path.insert(0, d)
    import importlib
    return importlib.import_module('genpkg.ns')

def decode(dt, doc, strict, text=False):
    """Returns ('OK', value) | ('VE', msg) | ('EXC', 'Type: msg')."""
    try:
        if text:
            return ('OK', ss.json_decode(dt, doc, strict=strict))
        return ('OK', ss.json_decode(dt, json.dumps(doc), strict=strict))
    except bv.ValidationError as e:
        return ('VE', str(e))
    except BaseException as e:  # anything else is a property violation
        return ('EXC', '%s: %s' % (type(e).__name__, str(e)[:80]))

bad = []
def expect(kind, dt, doc, why, text=False, modes=(True, False)):
    """kind: 'reject' (must raise ValidationError) or 'accept' (must return a value)."""
    for strict in modes:
        r = decode(dt, doc, strict, text)
        want = 'VE' if kind == 'reject' else 'OK'
        shown = doc if not text else (doc[:40] + ('...(%d chars)' % len(doc) if len(doc) > 40 else ''))
        if r[0] != want:
            bad.append(1)
            print('VIOLATION [%s] doc=%s\n    observed: %s %r\n    expected: %s  (%s)' % (
                'strict' if strict else 'lenient', shown if text else json.dumps(doc), r[0], r[1] if r[0] != 'OK' else r[1],
                'ValidationError' if kind == 'reject' else 'accepted', why))
        else:
            print('ok        [%s] doc=%s -> %s' % ('strict' if strict else 'lenient', shown if text else json.dumps(doc), r[0]))

def finish():
    print('\n%d violation(s)' % len(bad))
    sys.exit(1 if bad else 0)

ns = build('''namespace ns
union Inf
    pos
struct Res
    union
        f File
    name String
struct File extends Res
    size UInt64
union U
    ostr String?
    oint Int32?
    olist List(Int32)?
    omap Map(String, Int32)?
    ou Inf?
    ores Res?
''')
U = ns.U_validator
res = {}
for tag in ["ostr", "oint", "olist", "omap", "ou", "ores"]:
    expect('accept', U, {".tag": tag}, 'tag-only nullable member')
    for strict in (True, False):
        res[(tag, strict)] = decode(U, {".tag": tag, tag: None}, strict)[0]
        print('   {".tag": "%s", "%s": null} [%s] -> %s' % (tag, tag, 'strict' if strict else 'lenient', res[(tag, strict)]))
if len(set(res.values())) != 1:
    bad.append(1)
    print('VIOLATION: the same form (explicit null for a nullable member) is accepted for some member types and '
          'refused for others. If explicit null is valid (as it is for nullable struct fields), the list/map/union/'
          'struct-tree cases refuse a valid document; if it is invalid, the String?/Int32? cases accept an invalid one.')
finish()
