"""C06 finding 9 (lower confidence): Timestamp decoding is laxer than the declared strftime format."""
import json, os, subprocess, sys, tempfile
sys.path.insert(0, '/repo')
from stone.backends.python_rsrc import stone_serializers as ss, stone_validators as bv

def build(spec_text):
    """Compile a Stone spec with the python_types backend and import the result."""
    d = tempfile.mkdtemp(prefix='c06_')
    spec = os.path.join(d, 'ns.stone')
    with open(spec, 'w') as f:
        f.write(spec_text)
    pkg = os.path.join(d, 'genpkg')
    os.makedirs(pkg)
    env = dict(os.environ, PYTHONPATH='/repo')
    subprocess.check_call([sys.executable, '-m', 'stone.cli', 'python_types', pkg, spec,
                           '--', '-p', 'genpkg'], env=env, stdout=subprocess.DEVNULL)
    sys.path.insert(0, d)
    import importlib
    return importlib.import_module('genpkg.ns')

def decode(dt, doc, strict, text=False):
    """Returns ('OK', value) | ('VE', msg) | ('EXC', 'Type: msg')."""
    try:
        if text:
            return ('OK', ss.json_decode(dt, doc, strict=strict))
        return ('OK', ss.json_decode(dt, json.dumps(doc), strict=strict))
    except bv.ValidationError as e:
        return ('VE', str(e))
    except BaseException as e:  # anything else is a property violation
        return ('EXC', '%s: %s' % (type(e).__name__, str(e)[:80]))

bad = []
def expect(kind, dt, doc, why, text=False, modes=(True, False)):
    """kind: 'reject' (must raise ValidationError) or 'accept' (must return a value)."""
    for strict in modes:
        r = decode(dt, doc, strict, text)
        want = 'VE' if kind == 'reject' else 'OK'
        shown = doc if not text else (doc[:40] + ('...(%d chars)' % len(doc) if len(doc) > 40 else ''))
        if r[0] != want:
            bad.append(1)
            print('VIOLATION [%s] doc=%s\n    observed: %s %r\n    expected: %s  (%s)' % (
                'strict' if strict else 'lenient', shown if text else json.dumps(doc), r[0], r[1] if r[0] != 'OK' else r[1],
                'ValidationError' if kind == 'reject' else 'accepted', why))
        else:
            print('ok        [%s] doc=%s -> %s' % ('strict' if strict else 'lenient', shown if text else json.dumps(doc), r[0]))

def finish():
    print('\n%d violation(s)' % len(bad))
    sys.exit(1 if bad else 0)

ns = build('''namespace ns
struct S
    t Timestamp("%Y-%m-%dT%H:%M:%SZ")
struct R
    t Timestamp("%a, %d %b %Y %H:%M:%S +0000")
''')
expect('accept', ns.S_validator, {"t": "2015-05-12T15:50:38Z"}, 'reference encoding')
expect('reject', ns.S_validator, {"t": "2015-05-12T15:50:38"}, 'control: literal Z missing')
expect('reject', ns.S_validator, {"t": "2015-5-1T1:5:8Z"}, 'strftime never produces unpadded fields for %m/%d/%H/%M/%S')
expect('reject', ns.S_validator, {"t": "2015-05-12t15:50:38z"}, 'literal T and Z are matched case-insensitively')
expect('reject', ns.S_validator, {"t": "２０１５-05-12T15:50:38Z"}, 'full-width Unicode digits are not strftime output')
expect('accept', ns.R_validator, {"t": "Tue, 12 May 2015 15:50:38 +0000"}, 'reference encoding')
expect('reject', ns.R_validator, {"t": "Mon, 12 May 2015 15:50:38 +0000"}, '12 May 2015 was a Tuesday; %a is parsed and then ignored')
finish()
