"""C05 finding 1: struct field keys and union tags are re-cased on the wire.

Run: PYTHONPATH=/repo /venv/bin/python find_1.py
"""
import importlib, json, os, subprocess, sys, tempfile, textwrap

SPEC = '''
namespace ns

struct S
    fooBar Int64
    HTTPCode Int64
    x__y Int64
    a-b Int64?

union U
    someTag
    otherTag Int64
    stTag S

struct A
    union_closed
        theB B
    w Int64

struct B extends A
    x Int64
'''

def build(spec):
    d = tempfile.mkdtemp(prefix='c05f1_')
    p = os.path.join(d, 'ns.stone')
    with open(p, 'w') as f:
        f.write(textwrap.dedent(spec))
    out = os.path.join(d, 'genpkg1')
    os.mkdir(out)
    r = subprocess.run([sys.executable, '-m', 'stone.cli', 'python_types', out, p,
                        '--', '-p', 'genpkg1'], capture_output=True, text=True)
    assert r.returncode == 0, r.stdout + r.stderr
    sys.path.insert(0, d)
    return importlib.import_module('genpkg1.ns')

from stone.backends.python_rsrc import stone_serializers as ss

m = build(SPEC)
bad = []

def check(name, got, want):
    ok = got == want
    print('%-12s observed %s' % (name, json.dumps(got, sort_keys=True)))
    print('%-12s expected %s  %s' % ('', json.dumps(want, sort_keys=True), 'ok' if ok else 'MISMATCH'))
    if not ok:
        bad.append(name)

# python attribute names are snake_cased by the backend; the wire names must be the spec's
s = m.S(foo_bar=1, http_code=2, x_y=3, a_b=4)
check('struct S', json.loads(ss.json_encode(m.S_validator, s)),
      {'fooBar': 1, 'HTTPCode': 2, 'x__y': 3, 'a-b': 4})
check('U.someTag', json.loads(ss.json_encode(m.U_validator, m.U.some_tag)),
      {'.tag': 'someTag'})
check('U.otherTag', json.loads(ss.json_encode(m.U_validator, m.U.other_tag(5))),
      {'.tag': 'otherTag', 'otherTag': 5})
check('U.stTag', json.loads(ss.json_encode(m.U_validator, m.U.st_tag(s))),
      {'.tag': 'stTag', 'fooBar': 1, 'HTTPCode': 2, 'x__y': 3, 'a-b': 4})
# for contrast: enumerated-subtype tags are NOT re-cased (this one is right)
check('A/theB', json.loads(ss.json_encode(m.A_validator, m.B(w=1, x=2))),
      {'.tag': 'theB', 'w': 1, 'x': 2})

if bad:
    print('\nVIOLATION: wire keys/tags differ from the names in the API description for: %s' % ', '.join(bad))
    sys.exit(1)
print('no violation')
