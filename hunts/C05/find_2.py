"""C05 finding 2: a Float32/Float64 value that is a Python bool (accepted by the
Float validator, exactly like it is for the Integer validators) is written as a
JSON boolean, not a JSON number, when it is a union member value or a top-level
value. Integers get the bool -> int normalisation in encode_primitive; floats do not.

Run: PYTHONPATH=/repo /venv/bin/python find_2.py
"""
import importlib, json, os, subprocess, sys, tempfile, textwrap

SPEC = '''
namespace ns

union U
    i Int64
    f Float64
    nf Float32?

struct S
    f Float64
    u U
'''

def build(spec):
    d = tempfile.mkdtemp(prefix='c05f2_')
    p = os.path.join(d, 'ns.stone')
    with open(p, 'w') as f:
        f.write(textwrap.dedent(spec))
    out = os.path.join(d, 'genpkg2')
    os.mkdir(out)
    r = subprocess.run([sys.executable, '-m', 'stone.cli', 'python_types', out, p,
                        '--', '-p', 'genpkg2'], capture_output=True, text=True)
    assert r.returncode == 0, r.stdout + r.stderr
    sys.path.insert(0, d)
    return importlib.import_module('genpkg2.ns')

from stone.backends.python_rsrc import stone_serializers as ss, stone_validators as bv

m = build(SPEC)
bad = []

def is_number(x):
    return isinstance(x, (int, float)) and not isinstance(x, bool)

def check(name, text, pick):
    v = pick(json.loads(text))
    ok = is_number(v)
    print('%-34s -> %-34s %s' % (name, text, 'ok (number)' if ok else 'MISMATCH: JSON %s, expected a number (1 / 1.0)' % type(v).__name__))
    if not ok:
        bad.append(name)

# the validators accept the value, so it is a valid value of the type
bv.Float64().validate(True)

check('Int64 union member True (control)', ss.json_encode(m.U_validator, m.U.i(True)), lambda d: d['i'])
check('Float64 struct field True (control)', ss.json_encode(m.S_validator, m.S(f=True, u=m.U.i(0))), lambda d: d['f'])
check('Float64 union member True', ss.json_encode(m.U_validator, m.U.f(True)), lambda d: d['f'])
check('Float32? union member False', ss.json_encode(m.U_validator, m.U.nf(False)), lambda d: d['nf'])
check('union nested in struct', ss.json_encode(m.S_validator, m.S(f=0.5, u=m.U.f(True))), lambda d: d['u']['f'])
check('top-level Float64 True', ss.json_encode(bv.Float64(), True), lambda d: d)

if bad:
    print('\nVIOLATION: "Float{32,64} -> Number" broken for: %s' % ', '.join(bad))
    sys.exit(1)
print('no violation')
