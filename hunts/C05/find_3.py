"""C05 finding 3: Timestamps with a year below 1000 are not written in their
declared format. encode_primitive delegates to datetime.strftime(), whose %Y is
not zero-padded on glibc, so year 999 with format "%Y-%m-%d" is written "999-01-01"
(and year 1 as "1-01-01"). The declared format (as read by strptime with the very
same format string, and as Python documents %Y: "0001, 0002, ..., 9999") demands
"0999-01-01"; the runtime's own json_decode rejects what json_encode wrote.

Run: PYTHONPATH=/repo /venv/bin/python find_3.py
"""
import datetime, importlib, json, os, subprocess, sys, tempfile, textwrap

SPEC = '''
namespace ns

struct S
    t Timestamp("%Y-%m-%dT%H:%M:%SZ")

union U
    d Timestamp("%Y-%m-%d")
'''

def build(spec):
    d = tempfile.mkdtemp(prefix='c05f3_')
    p = os.path.join(d, 'ns.stone')
    with open(p, 'w') as f:
        f.write(textwrap.dedent(spec))
    out = os.path.join(d, 'genpkg3')
    os.mkdir(out)
    r = subprocess.run([sys.executable, '-m', 'stone.cli', 'python_types', out, p,
                        '--', '-p', 'genpkg3'], capture_output=True, text=True)
    assert r.returncode == 0, r.stdout + r.stderr
    sys.path.insert(0, d)
    return importlib.import_module('genpkg3.ns')

from stone.backends.python_rsrc import stone_serializers as ss, stone_validators as bv

m = build(SPEC)
bad = []

def check(name, validator, value, got, want):
    ok = got == want
    print('%-10s observed %s' % (name, json.dumps(got)))
    print('%-10s expected %s  %s' % ('', json.dumps(want), 'ok' if ok else 'MISMATCH'))
    try:
        ss.json_decode(validator, json.dumps(got))
        print('%-10s json_decode of the observed text: accepted' % '')
    except bv.ValidationError as e:
        print('%-10s json_decode of the observed text: REJECTED (%s)' % ('', e))
    if not ok:
        bad.append(name)

s = m.S(t=datetime.datetime(999, 12, 31, 23, 59, 59))
check('S year999', m.S_validator, s, json.loads(ss.json_encode(m.S_validator, s)),
      {'t': '0999-12-31T23:59:59Z'})
u = m.U.d(datetime.datetime.min)
check('U year1', m.U_validator, u, json.loads(ss.json_encode(m.U_validator, u)),
      {'.tag': 'd', 'd': '0001-01-01'})
s2 = m.S(t=datetime.datetime(1000, 1, 1))
check('S year1000', m.S_validator, s2, json.loads(ss.json_encode(m.S_validator, s2)),
      {'t': '1000-01-01T00:00:00Z'})

if bad:
    print('\nVIOLATION: timestamp not in its declared format for: %s' % ', '.join(bad))
    sys.exit(1)
print('no violation')
