"""C05 finding 4: a required struct field whose type is an alias of Void is never
written. The frontend rejects "v Void" on a struct field but accepts the same
type through an alias, the generated class accepts None for it, and
encode_struct drops every field whose value is None, so the key is missing
although the document says Void -> null and "each specified field has a key".
(The same value inside a List or Map IS written as null.)

Run: PYTHONPATH=/repo /venv/bin/python find_4.py
"""
import importlib, json, os, subprocess, sys, tempfile, textwrap

SPEC = '''
namespace ns

alias Nothing = Void

struct S
    v Nothing
    lv List(Nothing)
    x Int64
'''

def build(spec):
    d = tempfile.mkdtemp(prefix='c05f4_')
    p = os.path.join(d, 'ns.stone')
    with open(p, 'w') as f:
        f.write(textwrap.dedent(spec))
    out = os.path.join(d, 'genpkg4')
    os.mkdir(out)
    r = subprocess.run([sys.executable, '-m', 'stone.cli', 'python_types', out, p,
                        '--', '-p', 'genpkg4'], capture_output=True, text=True)
    assert r.returncode == 0, r.stdout + r.stderr
    sys.path.insert(0, d)
    return importlib.import_module('genpkg4.ns')

from stone.backends.python_rsrc import stone_serializers as ss

m = build(SPEC)
s = m.S(lv=[None], x=1)
s.v = None          # the only value of the type; required field, now set
m.S_validator.validate(s)   # the runtime considers the value complete and valid

got = json.loads(ss.json_encode(m.S_validator, s))
want = {'v': None, 'lv': [None], 'x': 1}
print('observed', json.dumps(got, sort_keys=True))
print('expected', json.dumps(want, sort_keys=True))
if got != want:
    print('\nVIOLATION: required field "v" (Void -> null) has no key in the encoded struct')
    sys.exit(1)
print('no violation')
