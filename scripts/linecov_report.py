#!/venv/bin/python
"""Which lines of /repo/stone do the workloads reach?

usage: scripts/linecov_report.py run <outdir> [tier] [IDs...]   run the checks with VERIF_LINECOV=1 (no evidence written)
       scripts/linecov_report.py report <outdir> [file-substring]  per-file reach and the unreached line ranges

Calibration tool: shows where the generators do not drive the code (where a change would go unnoticed).
Children started by the checks (fresh interpreters for C09/C12, CLI subprocesses, node) are not traced.
"""
import json
import os
import subprocess
import sys

VERIF = os.path.dirname(os.path.dirname(os.path.abspath(__file__)))
sys.path.insert(0, VERIF)
from vf.mon import linecov  # noqa: E402

ALL = ['C%02d' % i for i in range(1, 21)]


def main():
    cmd, out = sys.argv[1], sys.argv[2]
    if cmd == 'run':
        tier = sys.argv[3] if len(sys.argv) > 3 else 'quick'
        ids = sys.argv[4:] or ALL
        for c in ids:
            env = dict(os.environ, VERIF_LINECOV='1', VERIF_LINECOV_OUT=out, VERIF_NO_EVIDENCE='1')
            r = subprocess.run(['/venv/bin/python', '-m', 'vf.run', c, tier], cwd=VERIF, env=env,
                               capture_output=True, text=True)
            print(c, 'exit', r.returncode, r.stdout.strip().split('\n')[-1][:150], flush=True)
        return
    hits = {}
    by_check = {}
    for fn in sorted(os.listdir(out)):
        if fn.endswith('.json'):
            d = json.load(open(os.path.join(out, fn)))
            for f, lns in d.items():
                hits.setdefault(f, set()).update(lns)
                by_check.setdefault(f, {})[fn.split('_')[0]] = len(lns)
    sub = sys.argv[3] if len(sys.argv) > 3 else None
    repo = os.environ.get('VERIF_REPO', '/repo')
    rows = []
    for root, _, files in os.walk(os.path.join(repo, 'stone')):
        for f in files:
            if not f.endswith('.py') or '/ply' in root:
                continue
            rel = os.path.relpath(os.path.join(root, f), repo)
            ex = linecov.executable_lines(os.path.join(root, f))
            got = hits.get(rel, set()) & ex
            rows.append((rel, len(got), len(ex), sorted(ex - got)))
    rows.sort()
    for rel, g, e, missing in rows:
        if sub and sub not in rel:
            continue
        print('%-55s %4d/%4d %5.1f%%' % (rel, g, e, 100.0 * g / max(e, 1)))
        if sub:
            src = open(os.path.join(repo, rel)).read().split('\n')
            rng, start, prev = [], None, None
            for ln in missing:
                if prev is None or ln != prev + 1:
                    if start is not None:
                        rng.append((start, prev))
                    start = ln
                prev = ln
            if start is not None:
                rng.append((start, prev))
            for a, b in rng:
                print('    %4d-%-4d %s' % (a, b, src[a - 1].strip()[:110]))


if __name__ == '__main__':
    main()
