#!/venv/bin/python
"""Re-run the quick tier of the catching checks against every stored seeded change.

usage: scripts/seeded_regress.py [-j N] [--seeds 0,1] [--all-checks] [name-prefix ...]

For each seeded/<name>/: a scratch worktree of /repo HEAD under /tmp/wt_regress/<name>, the patch applied
(plain, then --3way), each check that meta.json lists as "caught" run with VERIF_REPO=<worktree> and
VERIF_NO_EVIDENCE=1 (nothing is written to evidence/), the worktree removed. A seed counts as caught when at
least one listed check exits 1 with a VIOLATION line on at least one of the seeds tried.
Writes nothing under /verif except its stdout; never touches /repo's working tree.
"""
import concurrent.futures as cf
import json
import os
import shutil
import subprocess
import sys

VERIF = os.path.dirname(os.path.dirname(os.path.abspath(__file__)))
WT = '/tmp/wt_regress'


def sh(cmd, **kw):
    return subprocess.run(cmd, shell=isinstance(cmd, str), capture_output=True, text=True, **kw)


def one(name, seeds, all_checks, workers):
    d = os.path.join(VERIF, 'seeded', name)
    meta = json.load(open(os.path.join(d, 'meta.json')))
    wt = os.path.join(WT, name)
    sh(['git', '-C', '/repo', 'worktree', 'remove', '--force', wt])
    shutil.rmtree(wt, ignore_errors=True)
    r = sh(['git', '-C', '/repo', 'worktree', 'add', '--detach', wt, 'HEAD'])
    if r.returncode:
        return name, 'worktree-failed', r.stderr[-300:]
    try:
        patch = os.path.join(d, 'patch.diff')
        r = sh(['git', '-C', wt, 'apply', patch])
        if r.returncode:
            r = sh(['git', '-C', wt, 'apply', '--3way', patch])
            if r.returncode:
                return name, 'patch-stale', r.stderr[-300:]
        checks = [c for c, v in meta.get('checks', {}).items() if v.get('verdict') == 'caught']
        if all_checks:
            checks = sorted(meta.get('checks', {}))
        if not checks:
            checks = [meta['property']]
        out = {}
        for c in checks:
            for s in seeds:
                env = dict(os.environ, VERIF_REPO=wt, VERIF_NO_EVIDENCE='1', VERIF_SEED=str(s),
                           VERIF_WORKERS=str(workers))
                r = sh(['/venv/bin/python', '-m', 'vf.run', c, 'quick'], cwd=VERIF, env=env)
                hit = r.returncode == 1 and 'VIOLATION property=' in r.stdout
                out.setdefault(c, []).append('caught' if hit else 'exit%d' % r.returncode)
                if hit:
                    break
        caught = any('caught' in v for v in out.values())
        return name, 'caught' if caught else 'MISSED', out
    finally:
        sh(['git', '-C', '/repo', 'worktree', 'remove', '--force', wt])
        shutil.rmtree(wt, ignore_errors=True)


def main():
    args = sys.argv[1:]
    jobs, seeds, all_checks, prefixes = 4, [0, 1, 2], False, []
    while args:
        a = args.pop(0)
        if a == '-j':
            jobs = int(args.pop(0))
        elif a == '--seeds':
            seeds = [int(x) for x in args.pop(0).split(',')]
        elif a == '--all-checks':
            all_checks = True
        else:
            prefixes.append(a)
    names = sorted(n for n in os.listdir(os.path.join(VERIF, 'seeded'))
                   if os.path.exists(os.path.join(VERIF, 'seeded', n, 'patch.diff')))
    if prefixes:
        names = [n for n in names if any(n.startswith(p) for p in prefixes)]
    os.makedirs(WT, exist_ok=True)
    workers = max(2, 16 // jobs)
    tally = {}
    with cf.ThreadPoolExecutor(jobs) as ex:
        for name, verdict, info in ex.map(lambda n: one(n, seeds, all_checks, workers), names):
            tally[verdict] = tally.get(verdict, 0) + 1
            print('%-70s %-12s %s' % (name, verdict, json.dumps(info)[:300]), flush=True)
    sh(['git', '-C', '/repo', 'worktree', 'prune'])
    shutil.rmtree(WT, ignore_errors=True)
    print('TOTAL', json.dumps(tally))
    return 0 if set(tally) <= {'caught'} else 1


if __name__ == '__main__':
    sys.exit(main())
