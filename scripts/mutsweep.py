#!/venv/bin/python
"""Mechanical mutation sweep: how many small source changes that the repository's tests accept do the checks notice?

usage: scripts/mutsweep.py gen   <outdir> [--per-file N] [--seed S] [file ...]   enumerate + sample mutants
       scripts/mutsweep.py tests <outdir> [-j N]                                  phase 1: repository test suite
       scripts/mutsweep.py checks <outdir> [-j N] [--workers W]                   phase 2: mapped quick checks
       scripts/mutsweep.py report <outdir>

Every mutant lives in its own copy of /repo's working tree under <outdir>/m/<id>/ (outside /repo and /verif) and is
deleted as soon as it is decided. Checks are run with VERIF_REPO=<copy> VERIF_NO_EVIDENCE=1, so nothing under
/verif/evidence is touched. Results accumulate in <outdir>/results.jsonl; the diff of every mutant is kept in
<outdir>/diffs/<id>.diff for triage. This is a calibration tool, not a registered check.
"""
import ast
import concurrent.futures as cf
import json
import os
import random
import shutil
import subprocess
import sys

VERIF = os.path.dirname(os.path.dirname(os.path.abspath(__file__)))
REPO = '/repo'

FILE_CHECKS = {
    'stone/frontend/lexer.py': ['C01', 'C03', 'C02', 'C11'],
    'stone/frontend/parser.py': ['C01', 'C03', 'C02', 'C11'],
    'stone/frontend/ast.py': ['C01', 'C02', 'C03'],
    'stone/frontend/frontend.py': ['C01', 'C03', 'C11'],
    'stone/frontend/ir_generator.py': ['C01', 'C02', 'C03', 'C10', 'C11', 'C20'],
    'stone/ir/data_types.py': ['C01', 'C02', 'C03', 'C10', 'C09', 'C13'],
    'stone/ir/api.py': ['C02', 'C01', 'C11', 'C19', 'C20', 'C12'],
    'stone/backends/python_rsrc/stone_serializers.py': ['C04', 'C05', 'C06', 'C07', 'C13', 'C10'],
    'stone/backends/python_rsrc/stone_validators.py': ['C08', 'C04', 'C06', 'C07', 'C13'],
    'stone/backends/python_rsrc/stone_base.py': ['C09', 'C04', 'C08', 'C13', 'C14'],
    'stone/backends/python_types.py': ['C09', 'C10', 'C04', 'C08', 'C13', 'C15', 'C12'],
    'stone/backends/python_helpers.py': ['C09', 'C14', 'C15'],
    'stone/backends/python_type_mapping.py': ['C15'],
    'stone/backends/python_type_stubs.py': ['C15', 'C12'],
    'stone/backends/python_client.py': ['C14', 'C12'],
    'stone/backends/js_client.py': ['C16', 'C12'],
    'stone/backends/js_types.py': ['C16', 'C12'],
    'stone/backends/js_helpers.py': ['C16'],
    'stone/backends/tsd_client.py': ['C16', 'C12'],
    'stone/backends/tsd_types.py': ['C16', 'C12'],
    'stone/backends/tsd_helpers.py': ['C16'],
    'stone/backends/swift.py': ['C17', 'C12'],
    'stone/backends/swift_helpers.py': ['C17'],
    'stone/backends/swift_types.py': ['C17', 'C12'],
    'stone/backends/swift_client.py': ['C17', 'C12'],
    'stone/backends/obj_c.py': ['C17'],
    'stone/backends/obj_c_helpers.py': ['C17'],
    'stone/backends/obj_c_types.py': ['C17', 'C12'],
    'stone/backends/obj_c_client.py': ['C17', 'C12'],
    'stone/backends/helpers.py': ['C09', 'C16', 'C17'],
    'stone/backend.py': ['C18', 'C09', 'C16', 'C17', 'C12'],
    'stone/cli.py': ['C19', 'C18', 'C11', 'C03'],
    'stone/cli_helpers.py': ['C19'],
    'stone/compiler.py': ['C18', 'C19'],
}

CMP = {ast.Lt: '<=', ast.LtE: '<', ast.Gt: '>=', ast.GtE: '>', ast.Eq: '!=', ast.NotEq: '==',
       ast.Is: 'is not', ast.IsNot: 'is', ast.In: 'not in', ast.NotIn: 'in'}
CMP_SRC = {ast.Lt: '<', ast.LtE: '<=', ast.Gt: '>', ast.GtE: '>=', ast.Eq: '==', ast.NotEq: '!=',
           ast.Is: 'is', ast.IsNot: 'is not', ast.In: 'in', ast.NotIn: 'not in'}
ATTR_SWAP = {'all_fields': 'fields', 'fields': 'all_fields', 'all_required_fields': 'all_fields',
             'all_optional_fields': 'all_fields', 'min_value': 'max_value', 'max_value': 'min_value',
             'min_length': 'max_length', 'max_length': 'min_length', 'min_items': 'max_items',
             'max_items': 'min_items', 'arg_data_type': 'result_data_type',
             'result_data_type': 'error_data_type', 'error_data_type': 'arg_data_type',
             'parent_type': 'data_type', 'closed': 'catch_all_field', 'name': 'doc'}


class Src:
    def __init__(self, text):
        self.text = text
        self.lines = text.split('\n')
        self.off = [0]
        for ln in self.lines:
            self.off.append(self.off[-1] + len(ln.encode()) + 1)
        self.bytes = text.encode()

    def pos(self, lineno, col):
        return self.off[lineno - 1] + col

    def seg(self, node):
        return self.bytes[self.pos(node.lineno, node.col_offset):
                          self.pos(node.end_lineno, node.end_col_offset)].decode()

    def replace(self, a, b, new):
        return (self.bytes[:a] + new.encode() + self.bytes[b:]).decode()


def enumerate_mutants(path, text):
    """yield (kind, lineno, description, new_text)"""
    src = Src(text)
    tree = ast.parse(text)
    parents = {}
    for n in ast.walk(tree):
        for c in ast.iter_child_nodes(n):
            parents[c] = n
    out = []

    def in_docstring_or_message(node):
        # do not mutate inside raise statements / error-message construction: messages are not part of any property
        p = node
        while p in parents:
            p = parents[p]
            if isinstance(p, (ast.Raise, ast.Assert)):
                return True
        return False

    for node in ast.walk(tree):
        if in_docstring_or_message(node):
            continue
        if isinstance(node, ast.Compare) and len(node.ops) == 1:
            op = node.ops[0]
            left_end = src.pos(node.left.end_lineno, node.left.end_col_offset)
            right_start = src.pos(node.comparators[0].lineno, node.comparators[0].col_offset)
            between = src.bytes[left_end:right_start].decode()
            old = CMP_SRC[type(op)]
            if old in between and between.count(old) == 1 and '(' not in between and ')' not in between:
                new = between.replace(old, CMP[type(op)])
                out.append(('cmp', node.lineno, '%s -> %s' % (old, CMP[type(op)]),
                            src.replace(left_end, right_start, new)))
        elif isinstance(node, ast.BoolOp) and len(node.values) >= 2:
            a = src.pos(node.values[0].end_lineno, node.values[0].end_col_offset)
            b = src.pos(node.values[1].lineno, node.values[1].col_offset)
            between = src.bytes[a:b].decode()
            old = 'and' if isinstance(node.op, ast.And) else 'or'
            new = 'or' if old == 'and' else 'and'
            if between.strip(' \n\\()') == old and '(' not in between and ')' not in between:
                out.append(('boolop', node.lineno, '%s -> %s' % (old, new),
                            src.replace(a, b, between.replace(old, new))))
        elif isinstance(node, ast.UnaryOp) and isinstance(node.op, ast.Not):
            a = src.pos(node.lineno, node.col_offset)
            b = src.pos(node.operand.lineno, node.operand.col_offset)
            if src.bytes[a:b].decode().strip() == 'not':
                out.append(('not', node.lineno, 'drop not', src.replace(a, b, '')))
        elif isinstance(node, (ast.If, ast.While)) and not isinstance(node.test, ast.Constant):
            t = node.test
            a, b = src.pos(t.lineno, t.col_offset), src.pos(t.end_lineno, t.end_col_offset)
            out.append(('negate', node.lineno, 'negate condition',
                        src.replace(a, b, 'not (%s)' % src.bytes[a:b].decode())))
        elif isinstance(node, ast.Constant) and not isinstance(parents.get(node), ast.Expr):
            a, b = src.pos(node.lineno, node.col_offset), src.pos(node.end_lineno, node.end_col_offset)
            if node.value is True or node.value is False:
                out.append(('bool', node.lineno, '%s flipped' % node.value, src.replace(a, b, str(not node.value))))
            elif isinstance(node.value, int) and 0 <= node.value <= 4 and src.bytes[a:b].decode().isdigit():
                out.append(('int', node.lineno, '%d -> %d' % (node.value, node.value + 1),
                            src.replace(a, b, str(node.value + 1))))
        elif isinstance(node, ast.Attribute) and node.attr in ATTR_SWAP and isinstance(node.ctx, ast.Load):
            b = src.pos(node.end_lineno, node.end_col_offset)
            a = b - len(node.attr)
            if src.bytes[a:b].decode() == node.attr:
                out.append(('attr', node.lineno, '.%s -> .%s' % (node.attr, ATTR_SWAP[node.attr]),
                            src.replace(a, b, ATTR_SWAP[node.attr])))
        if isinstance(node, (ast.Expr, ast.Assign, ast.AugAssign, ast.Continue, ast.Break, ast.Delete)) \
                and node.lineno == node.end_lineno:
            if isinstance(node, ast.Expr) and isinstance(node.value, ast.Constant):
                continue   # docstring
            if isinstance(node, ast.Expr) and 'emit' in src.seg(node)[:40] and random.random() < 0.7:
                continue   # far too many emit lines in backends; keep a sample
            if isinstance(node, ast.Assign) and isinstance(parents.get(node), (ast.Module, ast.ClassDef)):
                continue
            a, b = src.pos(node.lineno, node.col_offset), src.pos(node.end_lineno, node.end_col_offset)
            out.append(('delstmt', node.lineno, 'delete: ' + src.seg(node)[:70], src.replace(a, b, 'pass')))
        if isinstance(node, ast.Return) and node.value is not None and node.lineno == node.end_lineno \
                and isinstance(node.value, (ast.BoolOp, ast.Compare, ast.Call)):
            pass
    good = []
    for kind, ln, desc, new in out:
        try:
            compile(new, path, 'exec')
        except Exception:
            continue
        good.append((kind, ln, desc, new))
    return good


def sh(cmd, **kw):
    return subprocess.run(cmd, capture_output=True, text=True, **kw)


def load(outdir):
    res = {}
    p = os.path.join(outdir, 'results.jsonl')
    if os.path.exists(p):
        for ln in open(p):
            r = json.loads(ln)
            res.setdefault(r['id'], {}).update(r)
    return res


def append(outdir, rec):
    with open(os.path.join(outdir, 'results.jsonl'), 'a') as f:
        f.write(json.dumps(rec) + '\n')


def materialise(outdir, m):
    d = os.path.join(outdir, 'm', m['id'])
    shutil.rmtree(d, ignore_errors=True)
    os.makedirs(os.path.dirname(d), exist_ok=True)
    sh(['rsync', '-a', '--exclude', '.git', '--exclude', '__pycache__', '--exclude', '*.egg-info', REPO + '/', d + '/'])
    text = open(os.path.join(REPO, m['file'])).read()
    muts = [x for x in enumerate_mutants_cached(m['file'], text) if (x[0], x[1], x[2]) == (m['kind'], m['line'], m['desc'])]
    if not muts:
        return None
    new = muts[m.get('nth', 0)][3] if len(muts) > m.get('nth', 0) else muts[0][3]
    open(os.path.join(d, m['file']), 'w').write(new)
    return d


_cache = {}


def enumerate_mutants_cached(path, text):
    if path not in _cache:
        random.seed(12345)
        _cache[path] = enumerate_mutants(path, text)
    return _cache[path]


def cmd_gen(outdir, args):
    per_file, seed, files = 12, 0, []
    while args:
        a = args.pop(0)
        if a == '--per-file':
            per_file = int(args.pop(0))
        elif a == '--seed':
            seed = int(args.pop(0))
        else:
            files.append(a)
    files = files or sorted(FILE_CHECKS)
    os.makedirs(os.path.join(outdir, 'diffs'), exist_ok=True)
    rng = random.Random(seed)
    plan = []
    for f in files:
        text = open(os.path.join(REPO, f)).read()
        muts = enumerate_mutants_cached(f, text)
        # scale with file size: per_file is the count for a 500-line file
        n = max(3, min(len(muts), int(per_file * max(0.4, len(text.split('\n')) / 500.0))))
        idxs = rng.sample(range(len(muts)), n)
        for i in sorted(idxs):
            kind, ln, desc, new = muts[i]
            same = [j for j, x in enumerate(muts) if (x[0], x[1], x[2]) == (kind, ln, desc)]
            mid = '%s_%d_%s_%d' % (os.path.basename(f)[:-3], ln, kind, i)
            plan.append({'id': mid, 'file': f, 'kind': kind, 'line': ln, 'desc': desc, 'nth': same.index(i)})
        print('%-55s sites=%d sampled=%d' % (f, len(muts), n))
    json.dump(plan, open(os.path.join(outdir, 'plan.json'), 'w'), indent=1)
    print('planned', len(plan), 'mutants')


def run_tests(outdir, m):
    d = materialise(outdir, m)
    if d is None:
        return {'id': m['id'], 'tests': 'unmaterialisable'}
    try:
        diff = sh(['diff', '-u', os.path.join(REPO, m['file']), os.path.join(d, m['file'])]).stdout
        open(os.path.join(outdir, 'diffs', m['id'] + '.diff'), 'w').write(diff)
        env = dict(os.environ, PYTHONPATH=d, PYTHONHASHSEED='0')
        try:
            r = sh(['/venv/bin/python', '-m', 'pytest', '-x', '-q', '-p', 'no:cacheprovider', '--timeout=300'],
                   cwd=d, env=env, timeout=900)
            ok = r.returncode == 0
            tail = r.stdout.strip().split('\n')[-1][:200]
        except subprocess.TimeoutExpired:
            ok, tail = False, 'timeout'
        return {'id': m['id'], 'tests': 'pass' if ok else 'fail', 'tests_tail': tail}
    finally:
        shutil.rmtree(d, ignore_errors=True)


def run_checks(outdir, m, workers, seeds=(0,)):
    d = materialise(outdir, m)
    if d is None:
        return {'id': m['id'], 'checks': {}}
    try:
        res = {}
        for c in FILE_CHECKS[m['file']]:
            for s in seeds:
                env = dict(os.environ, VERIF_REPO=d, VERIF_NO_EVIDENCE='1', VERIF_SEED=str(s),
                           VERIF_WORKERS=str(workers))
                try:
                    r = sh(['/venv/bin/python', '-m', 'vf.run', c, 'quick'], cwd=VERIF, env=env, timeout=1500)
                    code = r.returncode
                    sig = [ln.strip()[:300] for ln in r.stdout.split('\n') if ln.strip().startswith('signature=')][:3]
                    if code == 2:
                        sig = [ln[:300] for ln in r.stdout.split('\n') if ln.startswith('INCONCLUSIVE')][:1]
                except subprocess.TimeoutExpired:
                    code, sig = 99, ['timeout']
                res[c] = {'exit': code, 'sig': sig}
            if res[c]['exit'] == 1:
                break      # caught: stop at the first catching check
        caught = any(v['exit'] == 1 for v in res.values())
        incon = any(v['exit'] not in (0, 1) for v in res.values())
        return {'id': m['id'], 'checks': res, 'verdict': 'caught' if caught else ('inconclusive' if incon else 'missed')}
    finally:
        shutil.rmtree(d, ignore_errors=True)


def main():
    cmd, outdir, args = sys.argv[1], sys.argv[2], sys.argv[3:]
    os.makedirs(outdir, exist_ok=True)
    if cmd == 'gen':
        return cmd_gen(outdir, args)
    plan = json.load(open(os.path.join(outdir, 'plan.json')))
    jobs, workers = 6, 4
    while args:
        a = args.pop(0)
        if a == '-j':
            jobs = int(args.pop(0))
        elif a == '--workers':
            workers = int(args.pop(0))
    done = load(outdir)
    if cmd == 'tests':
        todo = [m for m in plan if 'tests' not in done.get(m['id'], {})]
        with cf.ThreadPoolExecutor(jobs) as ex:
            for r in ex.map(lambda m: run_tests(outdir, m), todo):
                append(outdir, r)
                print(r['id'], r['tests'], r.get('tests_tail', ''), flush=True)
    elif cmd == 'checks':
        todo = [m for m in plan if done.get(m['id'], {}).get('tests') == 'pass' and 'verdict' not in done.get(m['id'], {})]
        print('survivors to check:', len(todo), flush=True)
        with cf.ThreadPoolExecutor(jobs) as ex:
            for r in ex.map(lambda m: run_checks(outdir, m, workers), todo):
                append(outdir, r)
                print(r['id'], r.get('verdict'), json.dumps({k: v['exit'] for k, v in r['checks'].items()}), flush=True)
    elif cmd == 'report':
        byid = {m['id']: m for m in plan}
        tally = {}
        for mid, r in sorted(done.items()):
            v = r.get('verdict') or ('killed-by-tests' if r.get('tests') == 'fail' else r.get('tests', '?'))
            tally[v] = tally.get(v, 0) + 1
        print(json.dumps(tally))
        for mid, r in sorted(done.items()):
            if r.get('verdict') in ('missed', 'inconclusive'):
                m = byid.get(mid, {})
                print('%-12s %-48s %s:%s %s' % (r['verdict'], mid, m.get('file'), m.get('line'), m.get('desc')))


if __name__ == '__main__':
    sys.exit(main())
