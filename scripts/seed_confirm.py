#!/venv/bin/python
"""Confirm a candidate seeded change and store it under seeded/<name>/.

usage: scripts/seed_confirm.py <srcdir> <name> <PROP> "<needs to manifest>" [--checks C02,C01] [--seeds 0,1,2]

<srcdir> holds patch.diff and demo.py written by a sub-agent. In a scratch worktree of /repo HEAD (under /tmp,
removed afterwards): demo.py must exit 0 without the change and non-zero with it, the repository's pinned test
command must pass with it, then the quick tier of each named check runs with VERIF_REPO=<worktree>
(VERIF_NO_EVIDENCE=1). Nothing is applied to /repo.
"""
import json
import os
import shutil
import subprocess
import sys

VERIF = os.path.dirname(os.path.dirname(os.path.abspath(__file__)))


def sh(cmd, **kw):
    return subprocess.run(cmd, capture_output=True, text=True, **kw)


def main():
    src, name, prop, needs = sys.argv[1:5]
    args = sys.argv[5:]
    checks, seeds = [prop], [0, 1, 2]
    while args:
        a = args.pop(0)
        if a == '--checks':
            checks = args.pop(0).split(',')
        elif a == '--seeds':
            seeds = [int(x) for x in args.pop(0).split(',')]
    wt = '/tmp/wt_confirm/' + name
    sh(['git', '-C', '/repo', 'worktree', 'remove', '--force', wt])
    shutil.rmtree(wt, ignore_errors=True)
    os.makedirs('/tmp/wt_confirm', exist_ok=True)
    r = sh(['git', '-C', '/repo', 'worktree', 'add', '--detach', wt, 'HEAD'])
    assert r.returncode == 0, r.stderr
    head = sh(['git', '-C', '/repo', 'rev-parse', '--short', 'HEAD']).stdout.strip()
    try:
        env = dict(os.environ, PYTHONPATH=wt, PYTHONHASHSEED='0')
        demo = os.path.join(src, 'demo.py')
        d0 = sh(['/venv/bin/python', demo], env=env, cwd='/tmp', timeout=600)
        r = sh(['git', '-C', wt, 'apply', os.path.join(src, 'patch.diff')])
        if r.returncode:
            print('PATCH DOES NOT APPLY', r.stderr)
            return 1
        d1 = sh(['/venv/bin/python', demo], env=env, cwd='/tmp', timeout=600)
        t = sh(['/venv/bin/python', '-m', 'pytest', '-q', '-p', 'no:cacheprovider', '--timeout=900'], cwd=wt, env=env)
        suite = t.stdout.strip().split('\n')[-1]
        print('demo without change: exit', d0.returncode)
        print('demo with change:    exit', d1.returncode, '|', (d1.stdout + d1.stderr).strip().split('\n')[-1][:200])
        print('suite with change:  ', suite)
        ok = d0.returncode == 0 and d1.returncode != 0 and t.returncode == 0
        if not ok:
            print('NOT CONFIRMED')
            return 1
        res = {}
        for c in checks:
            runs = []
            sigs = []
            for s in seeds:
                e2 = dict(os.environ, VERIF_REPO=wt, VERIF_NO_EVIDENCE='1', VERIF_SEED=str(s))
                r = sh(['/venv/bin/python', '-m', 'vf.run', c, 'quick'], cwd=VERIF, env=e2)
                hit = r.returncode == 1 and 'VIOLATION property=' in r.stdout
                runs.append('caught' if hit else 'exit%d' % r.returncode)
                for ln in r.stdout.split('\n'):
                    if ln.strip().startswith('signature='):
                        sigs.append(ln.strip()[:260])
                if r.returncode == 2:
                    sigs.append([ln[:300] for ln in r.stdout.split('\n') if ln.startswith('INCONCLUSIVE')][:1])
            n = runs.count('caught')
            res[c] = {'verdict': 'caught' if n == len(runs) else ('caught on %d of %d quick seeds' % (n, len(runs)) if n else 'missed'),
                      'runs': runs, 'signatures': sorted(set(map(str, sigs)))[:4]}
            print(c, res[c]['verdict'], runs)
            for s in res[c]['signatures'][:3]:
                print('    ', s)
        dst = os.path.join(VERIF, 'seeded', name)
        os.makedirs(dst, exist_ok=True)
        shutil.copy(os.path.join(src, 'patch.diff'), dst)
        shutil.copy(demo, dst)
        if os.path.exists(os.path.join(src, 'notes.md')):
            shutil.copy(os.path.join(src, 'notes.md'), dst)
        meta = {
            'property': prop, 'name': name, 'needs_to_manifest': needs, 'base_commit': head,
            'confirmed': {'patch_applies': True, 'demo_exit_without_change': d0.returncode,
                          'demo_exit_with_change': d1.returncode, 'repo_suite_with_change': suite},
            'what_i_ran': ['scratch worktree %s at %s' % (wt, head), 'demo.py before and after `git apply patch.diff`',
                           'repository test suite with the change',
                           'VERIF_REPO=<scratch> python -m vf.run <check> quick on seeds %s' % seeds],
            'checks': {c: {'verdict': ('caught' if 'caught' in v['verdict'] else 'missed'), 'detail': v['verdict'],
                           'signatures': v['signatures']} for c, v in res.items()},
        }
        json.dump(meta, open(os.path.join(dst, 'meta.json'), 'w'), indent=1)
        return 0
    finally:
        sh(['git', '-C', '/repo', 'worktree', 'remove', '--force', wt])
        shutil.rmtree(wt, ignore_errors=True)


if __name__ == '__main__':
    sys.exit(main())
