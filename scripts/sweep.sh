#!/bin/sh
# usage: scripts/sweep.sh <tier> <seeds...>   (no evidence written; prints one line per run)
tier=$1; shift
for seed in "$@"; do
  for id in C01 C02 C03 C04 C05 C06 C07 C08 C09 C10 C11 C12 C13 C14 C15 C16 C17 C18 C19 C20; do
    out=$(VERIF_SEED=$seed VERIF_NO_EVIDENCE=1 /venv/bin/python -m vf.run $id $tier 2>&1)
    code=$?
    echo "exit=$code $(echo "$out" | grep -E "^$id $tier seed" | tail -1)"
    if [ $code -ne 0 ]; then echo "$out" | grep -E "signature=|INCONCLUSIVE" | cut -c1-400 | head -12; fi
  done
done
