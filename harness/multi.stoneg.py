"""A backend module with several concrete Backend classes (the compiler runs every one of them).
Used by C18: a manifest run must list the files of all of them."""
import os

from stone.backend import Backend, CodeBackend


class AlphaTypesBackend(CodeBackend):
    def generate(self, api):
        for ns in api.namespaces.values():
            with self.output_to_relative_path('alpha/%s_types.txt' % ns.name):
                self.emit('types of %s' % ns.name)
                with self.indent():
                    for dt in ns.data_types:
                        self.emit(dt.name)
        with self.output_to_relative_path('alpha_index.txt'):
            self.emit(' '.join(sorted(api.namespaces)))


class MiddleCopyBackend(Backend):
    def generate(self, api):
        self.copy_to_path(os.path.abspath(__file__), os.path.join(self.target_folder_path, 'rsrc', 'Copied.txt'))


class ZuluRoutesBackend(CodeBackend):
    def generate(self, api):
        for ns in api.namespaces.values():
            if ns.routes:
                with self.output_to_relative_path('zulu/%s.routes' % ns.name):
                    for r in ns.routes:
                        self.emit(r.name)
