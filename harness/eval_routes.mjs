// Calls every generated js_client route function with a recording request().
// usage: node eval_routes.mjs <path to routes .mjs>
import { pathToFileURL } from 'node:url';
const mod = await import(pathToFileURL(process.argv[2]).href);
const routes = mod.routes;
const out = {};
for (const name of Object.keys(routes)) {
  const calls = [];
  const ctx = { request: (...a) => { calls.push(a); return 'RETURNED'; } };
  let ret, err = null;
  try {
    ret = routes[name].call(ctx, { sentinel: 'ARG' }, { sentinel: 'OPTIONS' });
  } catch (e) { err = String(e); }
  out[name] = { calls, ret: ret === undefined ? null : ret, err, arity: routes[name].length };
}
console.log(JSON.stringify(out));
