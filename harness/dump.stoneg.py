"""A real Stone backend that hands the Api it receives to the verification harness."""
from stone.backend import Backend

RECEIVED = []


class DumpBackend(Backend):
    preserve_aliases = True

    def generate(self, api):
        RECEIVED.append(api)
        with self.output_to_relative_path('dump.txt'):
            self.emit('namespaces: ' + ' '.join(api.namespaces))
