"""Model -> Stone spec text under a Layout.

The renderer is the only component that knows concrete syntax.  The reference
layout is one file per namespace, definitions in model order, no decoration.
A random Layout chooses file splits, file and definition permutations, inline
(anonymous) definitions, comments / blank lines / trailing spaces at line
boundaries and continuation-line variants of parenthesised lists.
"""
import random

from .model import T, PRIM_FLOATS

KEYWORDS = {'alias', 'annotation', 'annotation_type', 'attrs', 'by', 'deprecated', 'doc',
            'example', 'error', 'extends', 'import', 'namespace', 'patch', 'route', 'struct',
            'union', 'union_closed'}


def fmt_float(v):
    s = repr(float(v))
    if 'inf' in s or 'nan' in s:
        raise ValueError(v)
    if 'e' in s:
        mant, exp = s.split('e')
        exp = exp.replace('+', '')
        # lexer wants digits after optional '-', and "\d+(\.\d*)?e-?\d+"
        exp = str(int(exp))
        s = mant + 'e' + exp
    return s


def fmt_string(s):
    out = []
    for c in s:
        if c == '"':
            out.append('\\"')
        elif c == '\\':
            out.append('\\\\')
        elif c == '\n':
            out.append('\\n')
        elif c == '\t':
            out.append('\\t')
        else:
            out.append(c)
    return '"' + ''.join(out) + '"'


def fmt_literal(v):
    if v is None:
        return 'null'
    if isinstance(v, bool):
        return 'true' if v else 'false'
    if isinstance(v, int):
        return str(v)
    if isinstance(v, float):
        return fmt_float(v)
    if isinstance(v, str):
        return fmt_string(v)
    raise TypeError(v)


class Line:
    __slots__ = ('level', 'text', 'in_string', 'cont')

    def __init__(self, level, text, in_string=False, cont=False):
        self.level = level
        self.text = text
        self.in_string = in_string   # physical continuation of a multi-line string
        self.cont = cont             # continuation line inside parentheses


class Layout:
    """Layout choices.  Layout(None) is the reference layout."""

    def __init__(self, seed=None, **opts):
        self.rnd = random.Random(seed) if seed is not None else None
        self.reference = seed is None
        o = dict(split=True, perm_files=True, perm_defs=True, inline=True, decorate=True,
                 continuation=True, multiline_map=True, max_files=6)
        o.update(opts)
        self.o = o
        self.trace = []   # transformations applied (for evidence)

    def on(self, key, p=0.5):
        if self.reference or not self.o.get(key):
            return False
        return self.rnd.random() < p


class Renderer:
    def __init__(self, model, layout=None):
        self.m = model
        self.lay = layout or Layout(None)
        self.cur_ns = None

    # ---- type refs ----
    def type_ref(self, t, cont_level=None):
        """Return list of physical text fragments for a type ref.  When the
        layout asks for continuation lines returns several lines (first is the
        head).  cont_level is the level of the line holding the head."""
        s = self._type_ref_flat(t)
        return s

    def _args(self, parts):
        return '(' + ', '.join(parts) + ')' if parts else ''

    def _type_ref_flat(self, t):
        if t.kind == 'raw':
            return t.name + ('?' if t.nullable else '')
        if t.kind == 'rawref':
            base = t.name if t.ns == self.cur_ns else '%s.%s' % (t.ns, t.name)
            return base + t.args['suffix'] + ('?' if t.nullable else '')
        if t.kind == 'prim':
            parts = []
            if t.name == 'Timestamp':
                parts.append(fmt_string(t.args['format']))
            else:
                for k in ('min_value', 'max_value', 'min_length', 'max_length', 'pattern'):
                    if k in t.args and t.args[k] is not None:
                        v = t.args[k]
                        if t.name in PRIM_FLOATS and isinstance(v, float):
                            parts.append('%s=%s' % (k, fmt_float(v)))
                        else:
                            parts.append('%s=%s' % (k, fmt_literal(v)))
            s = t.name + self._args(parts)
            if not parts and self.lay.on('decorate', 0.05):
                s = t.name + '()'
        elif t.kind == 'list':
            parts = [self._type_ref_flat(t.args['item'])]
            for k in ('min_items', 'max_items'):
                if t.args.get(k) is not None:
                    parts.append('%s=%d' % (k, t.args[k]))
            s = 'List' + self._args(parts)
        elif t.kind == 'map':
            s = 'Map(%s, %s)' % (self._type_ref_flat(t.args['key']),
                                 self._type_ref_flat(t.args['value']))
        else:
            s = t.name if t.ns == self.cur_ns else '%s.%s' % (t.ns, t.name)
        return s + ('?' if t.nullable else '')

    # ---- docs ----
    def doc_lines(self, doc, level):
        """Physical lines of a doc string at the given level."""
        phys = []
        for pi, para in enumerate(doc.paras):
            if pi:
                phys.append('')
            phys.extend(para)
        esc = [fmt_string(x)[1:-1] for x in phys]
        out = []
        for i, x in enumerate(esc):
            txt = x
            if i == 0:
                txt = '"' + txt
            if i == len(esc) - 1:
                txt = txt + '"'
            out.append(Line(level, txt, in_string=(i > 0)))
        return out

    # ---- pieces ----
    def ann_ref(self, a):
        ns, name = a
        return '@' + (name if ns == self.cur_ns else '%s.%s' % (ns, name))

    def default_txt(self, f):
        if f.default is None:
            return ''
        k, v = f.default
        if k == 'tag':
            return ' = ' + v
        return ' = ' + fmt_literal(v)

    def field_lines(self, f, level, inline_def=None, is_tag=False):
        L = []
        if f.type is None:
            head = f.name
        else:
            head = '%s %s%s' % (f.name, self._type_ref_flat(f.type), self.default_txt(f))
        L.append(Line(level, head))
        for a in f.anns:
            L.append(Line(level + 1, self.ann_ref(a)))
        if f.doc is not None:
            L.extend(self.doc_lines(f.doc, level + 1))
        if inline_def is not None:
            L.extend(self.def_lines(inline_def, level + 1, anonymous=True))
        return L

    def ev_txt(self, ev):
        k = ev[0]
        if k == 'null':
            return 'null'
        if k == 'lit':
            return fmt_literal(ev[1])
        if k == 'ref':
            return ev[1]
        if k == 'list':
            return '[' + ', '.join(self.ev_txt(x) for x in ev[1]) + ']'
        if k == 'map':
            return '{' + ', '.join('%s: %s' % (fmt_string(kk), self.ev_txt(v)) for kk, v in ev[1]) + '}'
        raise AssertionError(ev)

    def example_lines(self, ex, level, names=None, with_doc=True):
        L = [Line(level, 'example ' + ex.label)]
        if ex.doc is not None and with_doc:
            L.extend(self.doc_lines(ex.doc, level + 1))
        for name, ev in ex.values.items():
            if names is not None and name not in names:
                continue
            if ev[0] == 'map' and ev[1] and self.lay.on('multiline_map', 0.4):
                L.append(Line(level + 1, '%s = {' % name))
                for i, (kk, v) in enumerate(ev[1]):
                    comma = ',' if i < len(ev[1]) - 1 else ''
                    L.append(Line(level + 2, '%s: %s%s' % (fmt_string(kk), self.ev_txt(v), comma)))
                L.append(Line(level + 1, '}'))
                self.lay.trace.append('multiline_map')
            else:
                L.append(Line(level + 1, '%s = %s' % (name, self.ev_txt(ev))))
        return L

    def def_lines(self, d, level=0, anonymous=False):
        kind = d.kind
        L = []
        inl = self.inline_map
        if kind in ('struct', 'union'):
            kw = 'struct' if kind == 'struct' else ('union_closed' if d.closed else 'union')
            head = kw if anonymous else '%s %s' % (kw, d.name)
            if d.parent:
                pns, pname = d.parent
                head += ' extends ' + (pname if pns == self.cur_ns else '%s.%s' % (pns, pname))
            L.append(Line(level, head))
            body = []
            if d.doc is not None:
                body.extend(self.doc_lines(d.doc, level + 1))
            if kind == 'struct' and d.subtypes:
                body.append(Line(level + 1, 'union_closed' if d.subtypes['closed'] else 'union'))
                for tag, (sns, sname) in d.subtypes['items']:
                    body.append(Line(level + 2, '%s %s' % (tag, sname)))
            for f in d.fields:
                body.extend(self.field_lines(f, level + 1, inl.get(id(f))))
            patched = {f.name for f in d.patch_fields}
            for ex in d.examples:
                if getattr(ex, 'patch_only', False):
                    continue
                names = [n for n in ex.values if n not in patched]
                body.extend(self.example_lines(ex, level + 1, names))
            assert body, ('empty body', d.name)
            L.extend(body)
        elif kind == 'alias':
            L.append(Line(level, 'alias %s = %s' % (d.name, self._type_ref_flat(d.type))))
            for a in d.anns:
                L.append(Line(level + 1, self.ann_ref(a)))
            if d.doc is not None:
                L.extend(self.doc_lines(d.doc, level + 1))
        elif kind == 'route':
            name = d.name + ('' if d.version == 1 else ':%d' % d.version)
            io = [self._type_ref_flat(d.arg), self._type_ref_flat(d.result), self._type_ref_flat(d.error)]
            tail = ''
            if d.deprecated is True:
                tail = ' deprecated'
            elif d.deprecated:
                bn, bv = d.deprecated
                tail = ' deprecated by %s%s' % (bn, '' if bv == 1 else ':%d' % bv)
            if self.lay.on('continuation', 0.35):
                self.lay.trace.append('continuation_route')
                style = self.lay.rnd.choice(['each', 'first_same', 'close_own'])
                if style == 'each':
                    L.append(Line(level, 'route %s(' % name))
                    L.append(Line(level + 1, io[0] + ',', cont=True))
                    L.append(Line(level + 1, io[1] + ',', cont=True))
                    L.append(Line(level + 1, io[2] + ')' + tail, cont=True))
                elif style == 'first_same':
                    L.append(Line(level, 'route %s(%s,' % (name, io[0])))
                    L.append(Line(level + 1, '%s, %s)%s' % (io[1], io[2], tail), cont=True))
                else:
                    L.append(Line(level, 'route %s(' % name))
                    L.append(Line(level + 1, ', '.join(io), cont=True))
                    L.append(Line(level + 1, ')' + tail, cont=True))
            else:
                L.append(Line(level, 'route %s(%s)%s' % (name, ', '.join(io), tail)))
            if d.doc is not None:
                L.extend(self.doc_lines(d.doc, level + 1))
            if d.attrs:
                L.append(Line(level + 1, 'attrs'))
                for k, v in d.attrs.items():
                    L.append(Line(level + 2, '%s = %s' % (k, self.ev_txt(v) if v[0] != 'tag' else v[1])))
                    if getattr(d, 'dup_attr', None) == k:
                        L.append(Line(level + 2, '%s = %s' % (k, self.ev_txt(v) if v[0] != 'tag' else v[1])))
        elif kind == 'annotation':
            if isinstance(d.atype, str):
                tn = d.atype
            else:
                _, ans, an = d.atype
                tn = an if (ans == self.cur_ns and not getattr(d, 'qualify_own', False)) \
                    else '%s.%s' % (ans, an)
            parts = [fmt_literal(a) for a in d.args]
            parts += ['%s=%s' % (k, fmt_literal(v)) for k, v in d.kwargs.items()]
            L.append(Line(level, 'annotation %s = %s(%s)' % (d.name, tn, ', '.join(parts))))
        elif kind == 'annotation_type':
            L.append(Line(level, 'annotation_type %s' % d.name))
            body = []
            if d.doc is not None:
                body.extend(self.doc_lines(d.doc, level + 1))
            for p in d.params:
                body.extend(self.field_lines(p, level + 1))
            assert body, ('empty body', d.name)
            L.extend(body)
        else:
            raise AssertionError(kind)
        return L

    def patch_lines(self, d):
        kw = 'struct' if d.kind == 'struct' else ('union_closed' if d.closed else 'union')
        # the reference layout writes a patch of several fields as two consecutive patch blocks of the
        # same type (a type may be patched more than once; the fields append in order)
        groups = [list(d.patch_fields)]
        if self.lay.reference and len(d.patch_fields) >= 2 and len(d.name) % 2 == 0:
            k = len(d.patch_fields) // 2
            groups = [d.patch_fields[:k], d.patch_fields[k:]]
        L = []
        for gi, fields in enumerate(groups):
            if gi:
                L.append(Line(0, ''))
            L.append(Line(0, 'patch %s %s' % (kw, d.name)))
            for f in fields:
                L.extend(self.field_lines(f, 1, self.inline_map.get(id(f))))
            patched = {f.name for f in fields}
            for ex in d.examples:
                names = [n for n in ex.values if n in patched]
                if names:
                    L.extend(self.example_lines(ex, 1, names, with_doc=False))
        return L

    # ---- layout ----
    def choose_inline(self, ns):
        """field id -> def rendered anonymously under that field."""
        self.inline_map = getattr(self, 'inline_map', {})
        inlined = set()
        if not self.lay.on('inline', 0.5):
            return inlined
        hosts = set()
        defs = [d for d in ns.defs if d.kind in ('struct', 'union')]
        rnd = self.lay.rnd
        for d in defs:
            if rnd.random() > 0.3 or (d.ns, d.name) in hosts:
                continue
            if d.patch_fields:
                continue
            cands = []
            for h in defs:
                if h is d or (h.ns, h.name) in inlined:
                    continue
                for f in self.m.own_fields(h):
                    if f.type is not None and f.type.kind == 'ref' and f.type.ns == ns.name \
                            and f.type.name == d.name and id(f) not in self.inline_map:
                        cands.append((h, f))
            if not cands:
                continue
            h, f = rnd.choice(cands)
            self.inline_map[id(f)] = d
            inlined.add((d.ns, d.name))
            hosts.add((h.ns, h.name))
            self.lay.trace.append('inline_' + d.kind)
        return inlined

    def decorate(self, lines):
        """Turn logical lines into text, inserting comments / blanks / trailing spaces."""
        lay = self.lay
        out = []
        rnd = lay.rnd
        for i, ln in enumerate(lines):
            if not ln.in_string and lay.on('decorate', 0.12):
                k = rnd.choice(['blank', 'comment', 'comment_odd', 'spaces_only', 'two_blank'])
                if ln.cont and k in ('spaces_only',):
                    k = 'blank'
                if k == 'blank':
                    out.append('')
                elif k == 'two_blank':
                    out.extend(['', ''])
                elif k == 'comment':
                    out.append(' ' * (4 * ln.level) + '# note "quoted" struct x')
                elif k == 'comment_odd':
                    out.append(' ' * rnd.choice([0, 1, 3, 6, 11]) + '#odd indent comment')
                else:
                    out.append(' ' * rnd.choice([1, 4, 7]))
                lay.trace.append('decor_' + k)
            txt = ' ' * (4 * ln.level) + ln.text if (ln.text or not ln.in_string) else ''
            if ln.in_string and not ln.text:
                txt = ''
            if i + 1 < len(lines) and lines[i + 1].in_string:
                pass   # inside a multi-line string: nothing may be appended
            elif lay.on('decorate', 0.08):
                k = rnd.choice(['trail_space', 'trail_comment'])
                if k == 'trail_space':
                    txt += ' ' * rnd.choice([1, 2, 5])
                else:
                    txt += '  # trailing'
                lay.trace.append('decor_' + k)
            out.append(txt)
        return out

    def render(self):
        m, lay = self.m, self.lay
        rnd = lay.rnd
        files = []   # (path, [Line])
        multi_doc_files = []   # (path, namespace, doc index) of files carrying one of several namespace docs
        self.inline_map = {}
        self.empty_body = set()
        for ns in m.namespaces:
            self.cur_ns = ns.name
            inlined = self.choose_inline(ns)
            items = []
            for d in ns.defs:
                if (d.ns, d.name) in inlined and d.kind in ('struct', 'union'):
                    continue
                items.append(('def', d))
            for d in ns.defs:
                if d.kind in ('struct', 'union') and d.patch_fields:
                    items.append(('patch', d))
            nfiles = 1
            if lay.on('split', 0.6):
                nfiles = rnd.randint(2, lay.o['max_files'])
                lay.trace.append('split_%d' % nfiles)
            if lay.on('perm_defs', 0.7):
                rnd.shuffle(items)
                lay.trace.append('perm_defs')
            buckets = [[] for _ in range(nfiles)]
            for it in items:
                buckets[rnd.randrange(nfiles) if nfiles > 1 else 0].append(it)
            # a namespace documented in several files: the docs concatenate in file order (one doc per file)
            ndocs = len(ns.docs)
            if ndocs > 1 and nfiles < ndocs:
                buckets += [[] for _ in range(ndocs - nfiles)]
                nfiles = ndocs
            rr = rnd or random.Random(0)
            imp_file = [rr.randrange(nfiles) if nfiles > 1 else 0 for _ in ns.imports]
            if ndocs > 1:
                doc_files = sorted(rr.sample(range(nfiles), ndocs)) if not lay.reference else list(range(ndocs))
            else:
                doc_files = [rr.randrange(nfiles) if nfiles > 1 else 0]
            for fi in range(nfiles):
                L = [Line(0, 'namespace ' + ns.name)]
                if ns.docs and fi in doc_files:
                    L.extend(self.doc_lines(ns.docs[doc_files.index(fi)], 1))
                    if ndocs > 1:
                        multi_doc_files.append(('%s_%d.stone' % (ns.name, fi), ns.name, doc_files.index(fi)))
                for imp, f in zip(ns.imports, imp_file):
                    if f == fi:
                        L.append(Line(0, 'import ' + imp))
                for kind, d in buckets[fi]:
                    L.append(Line(0, ''))
                    L.extend(self.def_lines(d) if kind == 'def' else self.patch_lines(d))
                files.append(('%s_%d.stone' % (ns.name, fi) if nfiles > 1 else ns.name + '.stone', L))
        if m.cfg:
            self.cur_ns = 'stone_cfg'
            L = [Line(0, 'namespace stone_cfg')]
            for imp in m.cfg_imports:
                L.append(Line(0, 'import ' + imp))
            L.append(Line(0, ''))
            L.append(Line(0, 'struct Route'))
            for f in m.cfg_fields:
                L.extend(self.field_lines(f, 1))
            if not m.cfg_fields:
                L.append(Line(1, '"no attributes"'))
            for xl in (getattr(m, 'cfg_extra', '') or '').split('\n'):
                if xl:
                    L.append(Line(0, ''))
                    L.append(Line(0, xl)) if not xl.startswith(' ') else L.append(Line(1, xl.strip()))
            files.append(('stone_cfg.stone', L))
        if lay.on('perm_files', 0.8):
            rnd.shuffle(files)
            lay.trace.append('perm_files')
        # documented: namespace docs concatenate in file order.  Layouts keep the relative order of the files
        # that carry the docs of one namespace (so that every layout means the same), unless the layout is
        # asked to permute them - then the order actually rendered is recorded for the expectation
        lay.doc_order = {}
        for nsname in {x[1] for x in multi_doc_files}:
            paths = {x[0]: x[2] for x in multi_doc_files if x[1] == nsname}
            pos = [i for i, f in enumerate(files) if f[0] in paths]
            mine = [files[i] for i in pos]
            if lay.o.get('permute_doc_files') and not lay.reference:
                rnd.shuffle(mine)
                lay.trace.append('perm_doc_files')
            else:
                mine.sort(key=lambda f: paths[f[0]])
            for i, f in zip(pos, mine):
                files[i] = f
            lay.doc_order[nsname] = [paths[f[0]] for f in mine]
        out = []
        for path, L in files:
            if lay.reference or not lay.o.get('decorate'):
                txt = '\n'.join((' ' * (4 * ln.level) + ln.text) if ln.text else '' for ln in L)
            else:
                txt = '\n'.join(self.decorate(L))
            if not lay.reference and lay.on('decorate', 0.3):
                pass  # no trailing newline variant
            else:
                txt += '\n'
            out.append((path, txt))
        return out


def render(model, layout=None):
    r = Renderer(model, layout)
    files = r.render()
    return files
