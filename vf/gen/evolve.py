"""Backwards-compatible edits of a model (docs/evolve_spec.rst): A -> B."""
import copy

from .model import (T, FieldDef, StructDef, UnionDef, AliasDef, RouteDef, prim, ref, VOID, Doc, Gen)
from .values import ValueGen, SV, UV, Uninhabited

EDITS = ['add_nullable_field', 'add_defaulted_field', 'add_tag', 'void_tag_to_nullable_type',
         'void_tag_to_type', 'add_subtype', 'add_route', 'rename_type', 'introduce_alias', 'inline_alias']


class Evolution:
    def __init__(self, a, rnd, n_edits):
        self.a = a
        self.b = copy.deepcopy(a)
        self.rnd = rnd
        self.applied = []          # (edit, site description)
        self.new_fields = set()    # (ns, struct name in B, field)
        self.new_tags = set()      # (ns, union name in B, tag)
        self.retyped_tags = {}     # (ns, union name in B, tag) -> 'nullable' | 'required'
        self.new_types = set()     # (ns, name in B)
        self.rename = {}           # (ns, name in A) -> name in B
        self.counter = 90000
        self.g = Gen(rnd.randrange(1 << 30), self_profile())
        self.g.m = self.b
        self.g.counter = 91000
        for _ in range(n_edits * 4):
            if len(self.applied) >= n_edits:
                break
            e = rnd.choice(EDITS)
            try:
                site = getattr(self, e)()
            except Exception:
                site = None
            if site:
                self.applied.append((e, site))
        self.g.ensure_bodies()

    def nm(self, base):
        self.counter += 1
        return '%s%d' % (base, self.counter)

    def used_positions(self, d):
        """How is type d used in B (for the nesting-position tag of evidence)?"""
        uses = set()
        for x in self.b.defs():
            if x.kind in ('struct', 'union'):
                if x.parent == (d.ns, d.name):
                    uses.add('parent')
                for f in self.b.own_fields(x):
                    t = f.type
                    if t is None:
                        continue
                    p = 'union_member' if x.kind == 'union' else 'field'
                    while t.kind in ('list', 'map'):
                        p = 'list_element' if t.kind == 'list' else 'map_value'
                        t = t.args['item'] if t.kind == 'list' else t.args['value']
                    if t.kind == 'ref' and (t.ns, t.name) == (d.ns, d.name):
                        uses.add(p)
            elif x.kind == 'route':
                for slot in (x.arg, x.result, x.error):
                    if slot.kind == 'ref' and (slot.ns, slot.name) == (d.ns, d.name):
                        uses.add('route_slot')
        if d.kind == 'struct' and self.b.is_leaf(d):
            uses.add('subtype')
        return '+'.join(sorted(uses)) or 'top'

    # ---- edits ----
    def _structs(self):
        return [d for d in self.b.defs('struct')]

    def add_nullable_field(self):
        d = self.rnd.choice(self._structs())
        members = [x for x in self._structs() if not x.subtypes and not self.b.is_leaf(x) and
                   any(f.type is not None and self.b.target(f.type) is x
                       for u in self.b.defs('union') for f in self.b.own_fields(u))]
        if members and self.rnd.random() < 0.4:
            d = self.rnd.choice(members)      # a struct that travels as a union member
        ns = self.b.ns(d.ns)
        t = self.g.type_expr(ns, depth=1)
        if not self.b.is_nullable(t):
            t = t.copy(nullable=True)
        if not t.nullable:
            return None
        name = self.nm('newf')
        if self.rnd.random() < 0.5:
            # name the new field after a union tag under which this struct travels (its fields are
            # flattened next to ".tag", so the key of the new field equals the tag)
            chain_names = {f.name for s_ in self.b.defs('struct') for f in self.b.own_fields(s_)
                           if s_ is d or (d.ns, d.name) in [(a.ns, a.name) for a in self.b.ancestors(s_)] or
                           (s_.ns, s_.name) in [(a.ns, a.name) for a in self.b.ancestors(d)]}
            tags = [f.name for u in self.b.defs('union') for f in self.b.own_fields(u)
                    if f.type is not None and self.b.target(f.type) is d and f.name not in chain_names]
            if tags and not d.subtypes and not self.b.is_leaf(d):
                name = self.rnd.choice(tags)
        d.fields.append(FieldDef(name=name, type=t, default=None, doc=None, anns=[]))
        self.new_fields.add((d.ns, d.name, name))
        return 'struct:' + self.used_positions(d)

    def add_defaulted_field(self):
        d = self.rnd.choice(self._structs())
        ns = self.b.ns(d.ns)
        for _ in range(5):
            t = self.g.prim_type(allow=('int', 'float', 'string', 'bool'))
            dflt = self.g.default_for(t)
            if dflt:
                name = self.nm('newd')
                d.fields.append(FieldDef(name=name, type=t, default=dflt, doc=None, anns=[]))
                self.new_fields.add((d.ns, d.name, name))
                return 'struct:' + self.used_positions(d)
        return None

    def _open_unions(self):
        return [d for d in self.b.defs('union') if not d.closed]

    def add_tag(self):
        us = self._open_unions()
        if not us:
            return None
        d = self.rnd.choice(us)
        # children inherit the tag: it must not clash along the tree
        name = self.nm('newt')
        t = None if self.rnd.random() < 0.4 else self.g.type_expr(self.b.ns(d.ns), depth=1)
        d.fields.append(FieldDef(name=name, type=t, default=None, doc=None, anns=[]))
        self.new_tags.add((d.ns, d.name, name))
        return 'union:' + self.used_positions(d) + (':void' if t is None else ':typed')

    def _void_tags(self):
        used_as_default = set()
        for s in self.b.defs('struct'):
            for f in self.b.own_fields(s):
                if f.default and f.default[0] == 'tag':
                    used_as_default.add(f.default[1])
        for r in self.b.defs('route'):
            for v in r.attrs.values():
                if v[0] == 'tag':
                    used_as_default.add(v[1])
        for f in self.b.cfg_fields:
            if f.default and f.default[0] == 'tag':
                used_as_default.add(f.default[1])
        out = []
        for d in self.b.defs('union'):
            for f in d.fields:
                if f.type is None and f.name not in used_as_default and not f.anns and \
                        (d.ns, d.name, f.name) not in self.new_tags:
                    out.append((d, f))
        return out

    def void_tag_to_nullable_type(self):
        c = self._void_tags()
        if not c:
            return None
        d, f = self.rnd.choice(c)
        t = self.g.type_expr(self.b.ns(d.ns), depth=1)
        if not self.b.is_nullable(t):
            t = t.copy(nullable=True)
        if not t.nullable:
            return None
        f.type = t
        self.retyped_tags[(d.ns, d.name, f.name)] = 'nullable'
        return 'union:' + self.used_positions(d)

    def void_tag_to_type(self):
        c = self._void_tags()
        if not c:
            return None
        d, f = self.rnd.choice(c)
        t = self.g.type_expr(self.b.ns(d.ns), depth=1, allow_nullable=False)
        if self.b.is_nullable(t):
            return None
        f.type = t
        self.retyped_tags[(d.ns, d.name, f.name)] = 'required'
        return 'union:' + self.used_positions(d)

    def add_subtype(self):
        roots = [d for d in self.b.defs('struct') if d.subtypes and not d.subtypes['closed']]
        if not roots:
            return None
        root = self.rnd.choice(roots)
        ns = self.b.ns(root.ns)
        name = 'NewLeaf%d' % (self.counter + 1)
        self.counter += 1
        fields = []
        for _ in range(self.rnd.randint(0, 2)):
            fields.append(FieldDef(name=self.nm('newlf'), type=self.g.type_expr(ns, depth=1),
                                   default=None, doc=None, anns=[]))
        leaf = StructDef(name=name, ns=root.ns, doc=Doc([['new leaf']]), parent=(root.ns, root.name),
                         fields=fields, patch_fields=[], subtypes=None, examples=[])
        ns.defs.append(leaf)
        root.subtypes['items'].append((self.nm('newsub'), (root.ns, name)))
        self.new_types.add((root.ns, name))
        return 'root:' + self.used_positions(root)

    def add_route(self):
        ns = self.rnd.choice(self.b.namespaces)
        rs = [d for d in ns.defs if d.kind == 'route']
        attrs = copy.deepcopy(rs[0].attrs) if rs else None
        if attrs is None:
            if any(f.default is None and not f.type.nullable for f in self.b.cfg_fields):
                return None
            attrs = {}
        ns.defs.append(RouteDef(name=self.nm('newroute'), ns=ns.name, version=1, doc=None,
                                arg=self.g.route_io(ns, 'arg'), result=self.g.route_io(ns, 'result'),
                                error=VOID, deprecated=None, attrs=attrs))
        return 'namespace'

    def rename_type(self):
        cands = [d for d in self.b.defs() if d.kind in ('struct', 'union') and
                 (d.ns, d.name) not in self.new_types and (d.ns, d.name) not in self.rename.values()]
        cands = [d for d in cands if not any(v == d.name for v in self.rename.values())]
        if not cands:
            return None
        d = self.rnd.choice(cands)
        old = d.name
        orig = [k for k, v in self.rename.items() if k[0] == d.ns and v == old]
        new = 'Renamed%d' % (self.counter + 1)
        self.counter += 1
        pos = self.used_positions(d)
        self._rename_everywhere(d.ns, old, new)
        self.rename[(d.ns, old) if not orig else orig[0]] = new
        return d.kind + ':' + pos

    def _rename_everywhere(self, ns, old, new):
        def fix_t(t):
            if t is None:
                return
            if t.kind == 'ref' and t.ns == ns and t.name == old:
                t.name = new
            for k in ('item', 'key', 'value'):
                if k in t.args:
                    fix_t(t.args[k])
        for x in self.b.defs():
            if x.kind in ('struct', 'union'):
                if x.ns == ns and x.name == old:
                    x.name = new
                if x.parent == (ns, old):
                    x.parent = (ns, new)
                for f in self.b.own_fields(x):
                    fix_t(f.type)
                    if f.doc is not None:
                        f.doc = None     # docs may mention the old name
                x.doc = None
                if x.kind == 'struct' and x.subtypes:
                    x.subtypes['items'] = [(tg, ((ns, new) if sn == (ns, old) else sn))
                                           for tg, sn in x.subtypes['items']]
            elif x.kind == 'alias':
                fix_t(x.type)
            elif x.kind == 'route':
                for slot in ('arg', 'result', 'error'):
                    fix_t(getattr(x, slot))
                x.doc = None
        for f in self.b.cfg_fields:
            fix_t(f.type)
        self.new_fields = {((n, new, f) if (n, s) == (ns, old) else (n, s, f)) for n, s, f in self.new_fields}
        self.new_tags = {((n, new, f) if (n, s) == (ns, old) else (n, s, f)) for n, s, f in self.new_tags}
        self.retyped_tags = {((n, new, f) if (n, s) == (ns, old) else (n, s, f)): v
                             for (n, s, f), v in self.retyped_tags.items()}
        # make sure empty bodies keep a doc
        for x in self.b.defs():
            if x.kind in ('struct', 'union') and not x.fields and not x.patch_fields and \
                    not getattr(x, 'subtypes', None) and x.doc is None:
                x.doc = Doc([['empty']])

    def introduce_alias(self):
        sites = []
        for d in self.b.defs():
            if d.kind in ('struct', 'union'):
                for f in d.fields:
                    if f.type is not None and f.type.kind in ('prim', 'list', 'map') and not f.anns \
                            and f.default is None:
                        sites.append((d, f))
        if not sites:
            return None
        d, f = self.rnd.choice(sites)
        name = 'NewAlias%d' % (self.counter + 1)
        self.counter += 1
        base = f.type.copy(nullable=False)
        self.b.ns(d.ns).defs.append(AliasDef(name=name, ns=d.ns, doc=None, type=base, anns=[]))
        f.type = ref(d.ns, name, nullable=f.type.nullable)
        return d.kind + '_field'

    def inline_alias(self):
        sites = []
        for d in self.b.defs():
            if d.kind in ('struct', 'union'):
                for f in d.fields:
                    if f.type is not None and f.type.kind == 'ref':
                        tgt = self.b.lookup(f.type.ns, f.type.name)
                        if tgt.kind == 'alias' and not tgt.anns and not f.anns and \
                                tgt.ns == d.ns and f.default is None:
                            sites.append((d, f, tgt))
        if not sites:
            return None
        d, f, tgt = self.rnd.choice(sites)
        nt = copy.deepcopy(tgt.type)
        if f.type.nullable and self.b.is_nullable(nt) and not nt.nullable:
            return None
        nt.nullable = nt.nullable or f.type.nullable
        f.type = nt
        return d.kind + '_field'

    # ---- name translation ----
    def a_name(self, ns, b_name):
        for (n, old), new in self.rename.items():
            if n == ns and new == b_name:
                return old
        return b_name

    def b_name(self, ns, a_name):
        return self.rename.get((ns, a_name), a_name)


def self_profile():
    from .model import make_profile
    return make_profile(p_container=0.3, p_nullable=0.3, max_depth=2, p_foreign=0.3)


class EvoGen(ValueGen):
    """Value generator over B that prefers the edited sites."""

    def __init__(self, evo, rnd):
        super().__init__(evo.b, rnd, max_depth=3)
        self.evo = evo

    def struct_value(self, d, depth, exact=False):
        m = self.m
        if d.subtypes and not exact and depth < self.max_depth and self.rnd.random() < 0.5:
            new = [m.lookup(*sn) for _, sn in d.subtypes['items'] if sn in self.evo.new_types]
            for leaf in new:
                try:
                    return super().struct_value(leaf, depth, exact=True)
                except Uninhabited:
                    pass
        av = super().struct_value(d, depth, exact)
        vd = m.lookup(av.ns, av.name)
        for f in m.struct_all_fields(vd):
            owner = [s for s in m.chain(vd) if f in m.own_fields(s)]
            key = (owner[0].ns, owner[0].name, f.name) if owner else None
            if key in self.evo.new_fields and f.name not in av.fields and depth < self.max_depth \
                    and self.rnd.random() < 0.8:
                try:
                    v = self.value(f.type, depth + 1, avoid_null=True)
                    if v is not None:
                        av.fields[f.name] = v
                except Uninhabited:
                    pass
        return av

    def union_value(self, d, depth, tag=None):
        if tag is None and depth < self.max_depth and self.rnd.random() < 0.6:
            pref = []
            for u in self.m.chain(d):
                for f in self.m.own_fields(u):
                    k = (u.ns, u.name, f.name)
                    if k in self.evo.new_tags or k in self.evo.retyped_tags:
                        pref.append(f.name)
            self.rnd.shuffle(pref)
            for t in pref:
                try:
                    return super().union_value(d, depth, tag=t)
                except Uninhabited:
                    pass
        return super().union_value(d, depth, tag)
