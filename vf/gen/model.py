"""Seeded generator of API models ("what was declared").

A model is plain Python data, never a Stone IR object.  It is valid by
construction under docs/lang_ref.rst plus the rules the reference leaves
implicit but the compiler visibly enforces:

* canonical-name uniqueness (case/underscore-insensitive across types, aliases,
  routes, annotations, annotation types and the namespace name);
* ``other`` reserved in unions; tags/fields unique along an inheritance chain;
* a struct that enumerates subtypes has no parent, lists all direct subtypes,
  subtypes live in the same namespace and are leaves;
* a closed union cannot extend an open one;
* Void only in route slots and (implicitly) tags; no nullable of nullable;
* defaults only on primitive / union typed, non-nullable fields;
* examples give every required field, reference only labels that exist;
* redactors only on non-alias-reference fields whose element type is a
  non-void primitive and only once along an alias chain; <=1 Omitted;
  Deprecated xor Preview;
* ``stone_cfg`` holds only ``Route`` and no routes; imports form a DAG.

Every name carries a per-model counter so that each declared item is
identifiable (a dropped / duplicated / mis-wired item is attributable).
"""
import hashlib
import random
from collections import OrderedDict

PRIM_INTS = {
    'Int32': (-2 ** 31, 2 ** 31 - 1),
    'UInt32': (0, 2 ** 32 - 1),
    'Int64': (-2 ** 63, 2 ** 63 - 1),
    'UInt64': (0, 2 ** 64 - 1),
}
F32 = 3.40282e38
PRIM_FLOATS = {'Float32': (-F32, F32), 'Float64': (None, None)}

# (pattern, full matches, prefix-only matches, non matches)
PATTERNS = [
    ('[a-z]+', ['abc', 'z', 'qq'], ['ab1', 'z-'], ['1ab', '']),
    ('^ab', ['ab'], ['abc', 'ab '], ['ba', 'a']),
    ('a|bc', ['a', 'bc'], ['ab', 'bcd'], ['c', '']),
    ('\\d{2,3}', ['12', '123'], ['1234', '12x'], ['1', 'x']),
    ('x"y\\\\z', ['x"y\\z'], ['x"y\\zz'], ['xy', '']),
    ('[A-Z][a-z]*', ['A', 'Ab', 'Zebra'], ['AB', 'Ab9'], ['a', '']),
]

TS_FORMATS = [
    '%Y-%m-%dT%H:%M:%SZ',
    '%Y-%m-%d',
    '%a, %d %b %Y %H:%M:%S +0000',
    '%Y%m%d%H%M%S',
]

WORDS = ['alpha', 'beta', 'gamma', 'delta', 'kappa', 'sigma', 'omega', 'theta',
         'zeta', 'rho', 'tau', 'phi', 'chi', 'psi', 'eta', 'iota', 'mu', 'nu',
         'xi', 'pi', 'upsilon', 'epsilon', 'omicron']
NS_NAMES = ['files', 'users', 'sharing', 'team', 'common', 'paper', 'auth_x', 'check_it']
CALLERS = ['internal', 'admin', 'beta', 'ops']

DOC_WORDS = ['the', 'quick', 'value', 'of', 'this', 'item', 'is', 'used', 'when',
             'a', 'caller', 'asks', 'for', 'more', 'data', 'naïve', 'café', '日本',
             'x<y', 'a&b', "it's", '100%', '{0}', '{name}', '%s', '#tag', 'semi;colon',
             '😀', 'é']


# text that is harmless in a spec but fragile inside generated string literals
HOSTILE_DOC_WORDS = ['"""', '""""', '"""""', '"' * 7, 'q""', "''''", "'''", '\\u12', '\\x4', '\\N{dash}', 'back\\slash', 'end\\', '*/', '/*',
                     '${x}', '`tick`', '<b>', '@param', '"""quoted"""']


KEYWORD_DOC_WORDS = ['namespace', 'namespace of', 'struct', 'union', 'route', 'alias', 'import', 'example',
                     'attrs', 'patch struct', 'annotation', 'union_closed']


def stable_seed(*parts):
    h = hashlib.sha256(repr(parts).encode()).digest()
    return int.from_bytes(h[:8], 'big')


# --------------------------------------------------------------------------
# Type expressions

class T:
    """Type expression.  kind in prim|list|map|ref."""
    __slots__ = ('kind', 'name', 'ns', 'args', 'nullable')

    def __init__(self, kind, name=None, ns=None, args=None, nullable=False):
        self.kind = kind
        self.name = name
        self.ns = ns
        self.args = args or {}
        self.nullable = nullable

    def copy(self, **kw):
        t = T(self.kind, self.name, self.ns, dict(self.args), self.nullable)
        for k, v in kw.items():
            setattr(t, k, v)
        return t

    def key(self):
        def a(v):
            return v.key() if isinstance(v, T) else v
        return (self.kind, self.name, self.ns,
                tuple(sorted((k, a(v)) for k, v in self.args.items())), self.nullable)

    def __repr__(self):
        if self.kind == 'prim':
            s = self.name
            if self.args:
                s += '(' + ', '.join('%s=%r' % kv for kv in sorted(self.args.items())) + ')'
        elif self.kind == 'list':
            s = 'List(%r' % (self.args['item'],)
            for k in ('min_items', 'max_items'):
                if self.args.get(k) is not None:
                    s += ', %s=%r' % (k, self.args[k])
            s += ')'
        elif self.kind == 'map':
            s = 'Map(%r, %r)' % (self.args['key'], self.args['value'])
        else:
            s = '%s.%s' % (self.ns, self.name)
        return s + ('?' if self.nullable else '')


def prim(name, nullable=False, **args):
    return T('prim', name, None, {k: v for k, v in args.items() if v is not None}, nullable)


def ref(ns, name, nullable=False):
    return T('ref', name, ns, None, nullable)


VOID = prim('Void')


class Obj:
    def __init__(self, **kw):
        self.__dict__.update(kw)

    def __repr__(self):
        return '%s(%s)' % (type(self).__name__, ', '.join(
            '%s=%r' % kv for kv in self.__dict__.items()))


class FieldDef(Obj):
    """name, type (T or None for void tag), default (None | ('lit', v) | ('tag', t)),
    doc (Doc or None), anns [(ns, name)]"""


class StructDef(Obj):
    kind = 'struct'
    # name, ns, doc, parent, fields, patch_fields, subtypes, examples, patch_file_hint


class UnionDef(Obj):
    kind = 'union'
    # name, ns, doc, closed, parent, fields, patch_fields, examples


class AliasDef(Obj):
    kind = 'alias'
    # name, ns, doc, type, anns


class RouteDef(Obj):
    kind = 'route'
    # name, ns, version, doc, arg, result, error, deprecated, attrs


class AnnDef(Obj):
    kind = 'annotation'
    # name, ns, atype (builtin str or ('custom', ns, name)), args, kwargs


class AnnTypeDef(Obj):
    kind = 'annotation_type'
    # name, ns, doc, params [FieldDef]


class ExampleDef(Obj):
    pass
    # label, doc, values OrderedDict name -> EV


class Namespace(Obj):
    pass
    # name, docs [Doc], imports [ns], defs []


class Doc:
    """A doc string as paragraphs of lines of text (no newlines inside a line)."""

    def __init__(self, paras):
        self.paras = paras

    def normalized(self):
        return '\n'.join(' '.join(lines) for lines in self.paras)

    def __repr__(self):
        return 'Doc(%r)' % (self.paras,)


class Model:
    def __init__(self):
        self.namespaces = []   # user namespaces, generation (topological) order
        self.cfg = None        # Namespace-like for stone_cfg or None
        self.cfg_fields = []   # FieldDef list of stone_cfg.Route
        self.cfg_imports = []
        self.seed = None
        self.features = OrderedDict()

    # ---- lookup helpers (reference semantics, independent of stone) ----
    def ns(self, name):
        for n in self.namespaces:
            if n.name == name:
                return n
        raise KeyError(name)

    def lookup(self, ns, name):
        for d in self.ns(ns).defs:
            if d.name == name and d.kind in ('struct', 'union', 'alias'):
                return d
        raise KeyError((ns, name))

    def find_ann(self, ns, name):
        for d in self.ns(ns).defs:
            if d.name == name and d.kind == 'annotation':
                return d
        raise KeyError((ns, name))

    def find_anntype(self, ns, name):
        for d in self.ns(ns).defs:
            if d.name == name and d.kind == 'annotation_type':
                return d
        raise KeyError((ns, name))

    def defs(self, kind=None):
        for n in self.namespaces:
            for d in n.defs:
                if kind is None or d.kind == kind:
                    yield d

    def own_fields(self, d):
        return list(d.fields) + list(d.patch_fields)

    def ancestors(self, d):
        out = []
        while d.parent:
            d = self.lookup(*d.parent)
            out.append(d)
        return out

    def chain(self, d):
        """ancestors first, then d."""
        return list(reversed(self.ancestors(d))) + [d]

    def struct_all_fields(self, d):
        req, opt = [], []
        for s in self.chain(d):
            for f in self.own_fields(s):
                (opt if (f.type.nullable or f.default is not None) else req).append(f)
        return req + opt

    def union_all_fields(self, d, with_other=True):
        """Tags in documented order: parent tags first; the implicit catch-all
        'other' belongs to the outermost open union without an open ancestor."""
        out = []
        for u in self.chain(d):
            out.extend(self.own_fields(u))
            if with_other and self.union_declares_other(u):
                out.append(FieldDef(name='other', type=None, default=None, doc=None,
                                    anns=[], implicit=True))
        return out

    def union_declares_other(self, u):
        if u.closed:
            return False
        if u.parent is None:
            return True
        return self.lookup(*u.parent).closed

    def union_is_open(self, u):
        return not u.closed

    def resolve_alias(self, t):
        """Follow aliases.  Returns (T with no alias at the top, nullable_seen, redactor anns seen)."""
        nullable = t.nullable
        while t.kind == 'ref':
            d = self.lookup(t.ns, t.name)
            if d.kind != 'alias':
                break
            t = d.type
            nullable = nullable or t.nullable
        return t, nullable

    def target(self, t):
        """Definition a ref type ultimately denotes (through aliases), or None."""
        rt, _ = self.resolve_alias(t)
        if rt.kind == 'ref':
            return self.lookup(rt.ns, rt.name)
        return None

    def is_nullable(self, t):
        return self.resolve_alias(t)[1]

    def leaves(self, root):
        return [self.lookup(*sn) for _, sn in root.subtypes['items']]

    def is_leaf(self, d):
        return d.kind == 'struct' and d.parent is not None and \
            self.lookup(*d.parent).subtypes is not None

    def feature(self, name, n=1):
        self.features[name] = self.features.get(name, 0) + n


# --------------------------------------------------------------------------
# Profiles

DEFAULT_PROFILE = dict(
    n_ns=(1, 4),
    n_types=(2, 9),
    n_routes=(0, 4),
    p_cfg=0.6,
    p_cfg_union_attr=0.4,
    p_doc=0.55,
    p_doc_ref=0.5,
    p_multiline_doc=0.4,
    p_odd_text=0.25,
    p_alias=0.22,
    p_union=0.33,
    p_subtypes=0.2,
    p_parent=0.4,
    p_foreign=0.35,
    p_default=0.3,
    p_nullable=0.25,
    p_container=0.3,
    p_annotations=0.5,
    p_field_ann=0.25,
    p_custom_ann=0.35,
    p_examples=0.6,
    p_patch=0.25,
    p_backref=0.3,
    p_route_prim_io=0.25,
    p_route_deprecated=0.3,
    p_ts_bytes_default=0.0,     # K16: emitted as str, refused by the runtime
    p_multi_pos_custom=0.0,     # K8
    p_three_part_field_ref=0.0,  # K22 (swift/objc _docf)
    p_default_via_foreign_alias=0.0,  # tag default on a field typed by a foreign alias of a union
    p_cfg_ts_bytes_attr=0.0,     # Timestamp / Bytes route attributes in stone_cfg.Route
    p_linebreak_literal=0.0,     # string literals ending in a line break / holding line separators
    p_shared_anntype_name=0.0,   # an annotation type named like one of another namespace
    p_odd_alias_name=0.0,        # alias names not in canonical Pascal case
    p_alias_of_alias=0.0,        # alias whose target is another alias
    p_ts_offset_format=0.0,      # Timestamp formats with %z (timezone-aware values)
    p_keyword_doc=0.0,           # doc lines beginning with a language keyword
    p_marker_chain=0.0,          # struct <- field-less struct <- struct chains
    p_tag_named_like_member_field=0.0,  # union tag named after a field of its struct member type
    p_prefer_redacted_alias=0.0,  # bias user-type positions towards aliases carrying a redactor
    p_alias_field_ref=0.0,       # :field:`Alias.f` (whitelist doc-ref parser)
    p_prefix_pattern_literal=0.0,  # K16
    p_ns_doc=0.5,
    max_depth=3,
    route_arg_kinds=('struct', 'union', 'void', 'alias', 'list', 'nullable', 'prim'),
    cfg_style=None,             # 'dropbox' for swift/objc attribute schema
    unique_field_names=0.8,
    p_big=0.02,
    p_tag_attr=0.5,
    route_docs_refs=True,
    p_anntype_foreign=0.3,
    max_omitted=3,
    p_hostile_doc=0.0,
    route_result_kinds=None,
    p_route_container_result=0.0,
    p_twin_subtype_trees=0.0,
    p_sparse_namespace=0.0,
    p_shared_route_name=0.0,
    p_alias_of_container_of_alias=0.0,
    p_multi_ns_doc=0.0,
    p_sibling_same_tag=0.0,
    p_alias_twin_annotations=0.0,
    p_container_of_root=0.0,
    p_shared_type_name=0.0,
    route_alias_user_only=False,
)


def make_profile(**over):
    p = dict(DEFAULT_PROFILE)
    p.update(over)
    return p


# --------------------------------------------------------------------------

class Gen:
    def __init__(self, seed, profile=None):
        self.rnd = random.Random(seed)
        self.p = profile or DEFAULT_PROFILE
        self.m = Model()
        self.m.seed = seed
        self.counter = 0
        self.depth_of = {}     # (ns,name) -> inheritance depth
        self.chain_names = {}  # root key -> set of names used along the tree
        self.root_of = {}      # (ns,name) -> root key
        self.has_example = {}  # (ns,name) -> [labels]
        self.no_extend = set()

    # ---- names ----
    def _n(self):
        self.counter += 1
        return self.counter

    def type_name(self):
        r = self.rnd
        w = r.choice(WORDS).capitalize()
        if r.random() < 0.3:
            w += r.choice(WORDS).capitalize()
        return '%s%d' % (w, self._n())

    def low_name(self):
        r = self.rnd
        w = r.choice(WORDS)
        if r.random() < 0.3:
            w += '_' + r.choice(WORDS)
        return '%s%d' % (w, self._n())

    def chance(self, key):
        return self.rnd.random() < self.p[key]

    # ---- docs ----
    def text_line(self, refs=None, nwords=None):
        r = self.rnd
        n = nwords or r.randint(1, 7)
        ws = []
        for _ in range(n):
            if r.random() < self.p['p_odd_text']:
                ws.append(r.choice(DOC_WORDS[16:]))
            else:
                ws.append(r.choice(DOC_WORDS[:16]))
        if self.p.get('p_hostile_doc') and r.random() < self.p['p_hostile_doc']:
            ws.insert(r.randint(0, len(ws)), r.choice(HOSTILE_DOC_WORDS))
            self.m.feature('hostile_doc_text')
        if refs and r.random() < self.p['p_doc_ref']:
            ws.insert(r.randint(0, len(ws)), r.choice(refs))
        if self.p['p_keyword_doc'] and r.random() < self.p['p_keyword_doc']:
            # a doc line that *begins* with a language keyword (continuation lines of
            # a multi-line doc then look like declarations to a line-oriented reader)
            ws.insert(0, r.choice(KEYWORD_DOC_WORDS))
            self.m.feature('keyword_leading_doc_line')
        ws.append('d%d' % self._n())
        return ' '.join(ws)

    def doc(self, refs=None, force=False):
        if not force and not self.chance('p_doc'):
            return None
        r = self.rnd
        if self.chance('p_multiline_doc'):
            paras = [[self.text_line(refs) for _ in range(r.randint(1, 3))]
                     for _ in range(r.randint(1, 3))]
        else:
            paras = [[self.text_line(refs)]]
        self.m.feature('doc')
        return Doc(paras)

    # ---- type expressions ----
    def prim_type(self, allow=('int', 'float', 'string', 'bool', 'bytes', 'ts')):
        r = self.rnd
        k = r.choice(allow)
        if k == 'int':
            name = r.choice(list(PRIM_INTS))
            lo, hi = PRIM_INTS[name]
            mode = r.choice(['none', 'none', 'min', 'max', 'both', 'equal', 'extreme'])
            cands = [lo, hi, 0, 1, -1, 7, 100, lo + 1, hi - 1]
            cands = [c for c in cands if lo <= c <= hi]
            mn = mx = None
            if mode == 'min':
                mn = r.choice(cands)
            elif mode == 'max':
                mx = r.choice(cands)
            elif mode == 'both':
                a, b = sorted([r.choice(cands), r.choice(cands)])
                mn, mx = a, b
            elif mode == 'equal':
                mn = mx = r.choice(cands)
            elif mode == 'extreme':
                mn, mx = lo, hi
            return prim(name, min_value=mn, max_value=mx)
        if k == 'float':
            name = r.choice(list(PRIM_FLOATS))
            mode = r.choice(['none', 'none', 'min', 'max', 'both', 'intbounds'])
            cands = [-1.5, 0.0, 0.5, 2.25, 1e10, -1e10]
            if name == 'Float32':
                cands += [F32, -F32]
            mn = mx = None
            if mode == 'min':
                mn = r.choice(cands)
            elif mode == 'max':
                mx = r.choice(cands)
            elif mode == 'both':
                mn, mx = sorted([r.choice(cands), r.choice(cands)])
            elif mode == 'intbounds':
                mn, mx = sorted([r.choice([-3, 0, 5]), r.choice([5, 10, 1000])])
            return prim(name, min_value=mn, max_value=mx)
        if k == 'string':
            mode = r.choice(['none', 'none', 'none', 'min', 'max', 'both', 'equal', 'pattern', 'pattern'])
            if mode == 'pattern':
                pat = r.choice(PATTERNS)[0]
                return prim('String', pattern=pat)
            mn = mx = None
            if mode == 'min':
                mn = r.choice([0, 1, 2])
            elif mode == 'max':
                mx = r.choice([1, 3, 20])
            elif mode == 'both':
                mn, mx = r.choice([(0, 1), (1, 3), (2, 20), (0, 5)])
            elif mode == 'equal':
                mn = mx = r.choice([1, 2, 4])
            return prim('String', min_length=mn, max_length=mx)
        if k == 'bool':
            return prim('Boolean')
        if k == 'bytes':
            return prim('Bytes')
        if self.p['p_ts_offset_format'] and r.random() < self.p['p_ts_offset_format']:
            # a format carrying the UTC offset: values are timezone-aware datetimes
            return prim('Timestamp', format=r.choice(['%Y-%m-%dT%H:%M:%S%z', '%Y%m%d %H%M%S %z']))
        return prim('Timestamp', format=r.choice(TS_FORMATS))

    def visible_namespaces(self, ns):
        return [ns.name] + list(ns.imports)

    def user_types(self, ns, kinds=('struct', 'union', 'alias'), pred=None):
        out = []
        for nsname in self.visible_namespaces(ns):
            if nsname != ns.name and not self.chance('p_foreign'):
                continue
            for d in self.m.ns(nsname).defs:
                if d.kind in kinds and (pred is None or pred(d)):
                    out.append(d)
        return out

    def type_expr(self, ns, depth=0, allow_nullable=True, allow_user=True,
                  allow_container=True):
        """Random field-position type (never Void)."""
        r = self.rnd
        t = None
        if allow_container and depth < self.p['max_depth'] and self.chance('p_container'):
            if r.random() < 0.6:
                item = self.type_expr(ns, depth + 1, True, allow_user)
                mode = r.choice(['none', 'none', 'min', 'max', 'both', 'equal'])
                mn = mx = None
                if mode == 'min':
                    mn = r.choice([0, 1, 2])
                elif mode == 'max':
                    mx = r.choice([1, 2, 5])
                elif mode == 'both':
                    mn, mx = r.choice([(0, 1), (1, 2), (1, 5), (2, 3)])
                elif mode == 'equal':
                    mn = mx = r.choice([1, 2])
                t = T('list', args={'item': item, 'min_items': mn, 'max_items': mx})
                self.m.feature('list')
            else:
                key = prim('String')
                if r.random() < 0.3:
                    key = r.choice([prim('String', min_length=1), prim('String', max_length=8),
                                    prim('String', pattern='[a-z]+')])
                val = self.type_expr(ns, depth + 1, True, allow_user)
                t = T('map', args={'key': key, 'value': val})
                self.m.feature('map')
        if t is None and allow_user and r.random() < 0.45:
            cands = self.user_types(ns)
            if cands and self.p['p_prefer_redacted_alias'] and r.random() < self.p['p_prefer_redacted_alias']:
                red = [d for d in cands if d.kind == 'alias' and
                       self.alias_chain_has_redactor(ref(d.ns, d.name))]
                cands = red or cands
            if cands:
                d = r.choice(cands)
                t = ref(d.ns, d.name)
                if d.ns != ns.name:
                    self.m.feature('foreign_ref')
        if t is None:
            t = self.prim_type()
        if allow_nullable and self.chance('p_nullable') and not self.m.is_nullable(t):
            t = t.copy(nullable=True)
            self.m.feature('nullable')
        return t

    # ---- literals for defaults / attrs ----
    def int_in(self, t):
        lo, hi = PRIM_INTS[t.name]
        mn = t.args.get('min_value', lo)
        mx = t.args.get('max_value', hi)
        cands = [mn, mx] + [c for c in (0, 1, -1, 42, mn + 1, mx - 1) if mn <= c <= mx]
        return self.rnd.choice(cands)

    def float_in(self, t, allow_int=True):
        lo, hi = PRIM_FLOATS[t.name]
        mn = t.args.get('min_value')
        mx = t.args.get('max_value')
        lo2 = mn if mn is not None else (lo if lo is not None else -1e300)
        hi2 = mx if mx is not None else (hi if hi is not None else 1e300)
        cands = [c for c in (0.0, 0.5, -1.5, 2.25, 1e10, -1e10, 1.0, 7.0) if lo2 <= c <= hi2]
        cands += [float(lo2), float(hi2)]
        v = self.rnd.choice(cands)
        if allow_int and v == int(v) and abs(v) < 2 ** 53 and self.rnd.random() < 0.4:
            return int(v)
        return v

    def string_in(self, t):
        r = self.rnd
        pat = t.args.get('pattern')
        if pat:
            for p in PATTERNS:
                if p[0] == pat:
                    return r.choice(p[1])
        mn = t.args.get('min_length') or 0
        mx = t.args.get('max_length')
        n = r.choice([mn, mx if mx is not None else mn + 3, min(mn + 1, mx if mx is not None else mn + 1)])
        alphabet = 'abcxyz' + ('é日"\\#%{}' if self.chance('p_odd_text') else '')
        s = ''.join(r.choice(alphabet) for _ in range(n))
        if n > 2 and r.random() < 0.3:
            s = s[:1] + ' ' + s[2:]
        if n >= 1 and self.p['p_linebreak_literal'] and r.random() < self.p['p_linebreak_literal']:
            # literals ending in a line break, or holding other line separators
            s = s[:-1] + r.choice(['\n', '\u2028', '\x0b'])
            self.m.feature('literal_with_line_separator')
        elif n >= 2 and not t.args and self.p['p_linebreak_literal'] and \
                r.random() < self.p['p_linebreak_literal']:
            # a run of spaces as long as a block's indentation inside the literal
            s = s[:1] + ' ' * r.choice([4, 8, 12]) + s[1:]
            self.m.feature('literal_with_inner_space_run')
        return s

    def ts_in(self, t):
        import datetime
        r = self.rnd
        dt = datetime.datetime(r.choice([1999, 2015, 2024, 2038]), r.randint(1, 12), r.randint(1, 28),
                               r.randint(0, 23), r.randint(0, 59), r.randint(0, 59))
        fmt = t.args['format']
        if fmt == '%Y-%m-%d':
            dt = dt.replace(hour=0, minute=0, second=0)
        if '%z' in fmt:
            dt = dt.replace(tzinfo=datetime.timezone.utc)
        return dt.strftime(fmt)

    def literal_for(self, t):
        """A valid literal for primitive type t (python value)."""
        if t.name in PRIM_INTS:
            return self.int_in(t)
        if t.name in PRIM_FLOATS:
            return self.float_in(t)
        if t.name == 'String':
            return self.string_in(t)
        if t.name == 'Boolean':
            return self.rnd.random() < 0.5
        if t.name == 'Bytes':
            import base64
            n = self.rnd.choice([0, 1, 2, 3, 5])
            return base64.b64encode(bytes(self.rnd.randrange(256) for _ in range(n))).decode()
        if t.name == 'Timestamp':
            return self.ts_in(t)
        raise AssertionError(t)

    def void_tags(self, u):
        return [f.name for f in self.m.union_all_fields(u) if f.type is None]

    def default_for(self, t):
        """Return a default for field type t or None if not defaultable."""
        if t.nullable:
            return None
        rt, nullable = self.m.resolve_alias(t)
        if nullable:
            return None
        if rt.kind == 'prim':
            if rt.name in ('Bytes', 'Timestamp') and not self.chance('p_ts_bytes_default'):
                return None
            if rt.name == 'String' and rt.args.get('pattern') and \
                    self.chance('p_prefix_pattern_literal'):
                # matches only as a prefix: the runtime matches whole strings
                for p in PATTERNS:
                    if p[0] == rt.args['pattern']:
                        self.m.feature('prefix_only_pattern_default')
                        return ('lit', self.rnd.choice(p[2]))
            return ('lit', self.literal_for(rt))
        if rt.kind == 'ref':
            d = self.m.lookup(rt.ns, rt.name)
            if d.kind == 'union':
                tags = self.void_tags(d)
                if tags:
                    self.m.feature('default_tag')
                    return ('tag', self.rnd.choice(tags))
        return None

    # ---- annotations ----
    def gen_annotations(self, ns):
        r = self.rnd
        if not self.chance('p_annotations'):
            return
        n_om = r.randint(0, self.p['max_omitted'])
        for c in r.sample(CALLERS, n_om):
            ns.defs.append(AnnDef(name='Om%s%d' % (c.capitalize(), self._n()), ns=ns.name,
                                  atype='Omitted', args=[c], kwargs={}))
        if r.random() < 0.6:
            ns.defs.append(AnnDef(name='Blot%d' % self._n(), ns=ns.name, atype='RedactedBlot',
                                  args=r.choice([[], ['[a-c]+'], ['(x)y'], ["q'(x)"], ['(\\w)\\d']]), kwargs={}))
        if r.random() < 0.6:
            ns.defs.append(AnnDef(name='Hash%d' % self._n(), ns=ns.name, atype='RedactedHash',
                                  args=r.choice([[], [], ['\\d+']]), kwargs={}))
        if r.random() < 0.5:
            ns.defs.append(AnnDef(name='Dep%d' % self._n(), ns=ns.name, atype='Deprecated',
                                  args=[], kwargs={}))
        if r.random() < 0.5:
            ns.defs.append(AnnDef(name='Prev%d' % self._n(), ns=ns.name, atype='Preview',
                                  args=[], kwargs={}))
        if self.chance('p_custom_ann'):
            for _ in range(r.randint(1, 2)):
                params = []
                for _ in range(r.randint(0, 3)):
                    pt = self.prim_type(allow=('int', 'float', 'string', 'bool'))
                    dflt = None
                    mode = r.choice(['req', 'default', 'nullable'])
                    if mode == 'nullable':
                        pt = pt.copy(nullable=True)
                    elif mode == 'default':
                        dflt = ('lit', self.literal_for(pt))
                        if pt.name in PRIM_FLOATS:
                            dflt = ('lit', float(dflt[1]))
                    params.append(FieldDef(name=self.low_name(), type=pt, default=dflt,
                                           doc=self.doc(), anns=[]))
                atname = 'At%s' % self.type_name()
                if self.p['p_shared_anntype_name'] and r.random() < self.p['p_shared_anntype_name']:
                    # the same annotation type name in two namespaces (names are per namespace)
                    others = [d.name for n2 in self.m.namespaces if n2 is not ns for d in n2.defs
                              if d.kind == 'annotation_type']
                    mine = {d.name for d in ns.defs}
                    others = [x for x in others if x not in mine]
                    if others:
                        atname = r.choice(others)
                        self.m.feature('annotation_type_name_shared_across_namespaces')
                at = AnnTypeDef(name=atname, ns=ns.name, doc=self.doc(),
                                params=params)
                ns.defs.append(at)
                self.m.feature('annotation_type')
            # annotations of custom types (own or imported namespace)
            ats = [d for n in self.visible_namespaces(ns) for d in self.m.ns(n).defs
                   if d.kind == 'annotation_type' and
                   (n == ns.name or self.chance('p_anntype_foreign'))]
            for _ in range(r.randint(1, 3)):
                if not ats:
                    break
                at = r.choice(ats)
                style = r.choice(['kw', 'pos', 'none'])
                args, kwargs = [], {}
                needed = [i for i, p in enumerate(at.params)
                          if p.default is None and not p.type.nullable]
                if style == 'none' and needed:
                    style = 'kw'
                if style == 'pos':
                    k = r.randint(needed[-1] + 1 if needed else 0, len(at.params))
                    if k > 1 and not self.chance('p_multi_pos_custom'):
                        style = 'kw'
                    else:
                        args = [self.ann_arg(p) for p in at.params[:k]]
                if style == 'kw':
                    for i, p in enumerate(at.params):
                        if i in needed or r.random() < 0.5:
                            kwargs[p.name] = self.ann_arg(p)
                ns.defs.append(AnnDef(name='Cu%s' % self.type_name(), ns=ns.name,
                                      atype=('custom', at.ns, at.name), args=args, kwargs=kwargs))
                self.m.feature('custom_annotation')

    def ann_arg(self, p):
        # `null` cannot be written as an annotation argument (the parser hands
        # the NullToken sentinel through); a nullable parameter is left out.
        v = self.literal_for(p.type)
        if p.type.name in PRIM_FLOATS:
            v = float(v)
        return v

    def visible_anns(self, ns):
        out = []
        for n in self.visible_namespaces(ns):
            for d in self.m.ns(n).defs:
                if d.kind == 'annotation':
                    out.append(d)
        return out

    def redactable(self, t):
        """Can a field / alias of type t carry a redactor?"""
        if t.kind == 'ref':
            return False   # alias reference (or user type): refused
        cur = t
        while cur.kind in ('list', 'map'):
            cur = cur.args['item'] if cur.kind == 'list' else cur.args['value']
        if cur.kind == 'ref':
            tgt, _ = self.m.resolve_alias(cur)
            # chain through alias inside a container: stone only unwraps
            # list/map/nullable here and then asks is_user_defined -> an alias
            # is not user-defined, so it would be accepted; we stay conservative.
            return False
        return cur.kind == 'prim' and cur.name != 'Void'

    def alias_chain_has_redactor(self, t):
        while t.kind == 'ref':
            d = self.m.lookup(t.ns, t.name)
            if d.kind != 'alias':
                return False
            if any(self.m.find_ann(*a).atype in ('RedactedBlot', 'RedactedHash') for a in d.anns):
                return True
            t = d.type
        return False

    def field_anns(self, ns, t, is_void=False, allow_omitted=True):
        if not self.chance('p_field_ann'):
            return []
        anns = self.visible_anns(ns)
        if not anns:
            return []
        r = self.rnd
        out = []
        kinds = set()
        for a in r.sample(anns, min(len(anns), r.randint(1, 3))):
            k = a.atype if isinstance(a.atype, str) else 'custom'
            if k in ('RedactedBlot', 'RedactedHash'):
                k2 = 'redactor'
                if is_void or t is None or not self.redactable(t):
                    continue
            elif k in ('Deprecated', 'Preview'):
                k2 = 'dp'
            elif k == 'Omitted':
                k2 = 'omitted'
                if not allow_omitted:
                    continue
            else:
                k2 = ('custom', a.name)
            if k2 in kinds:
                continue
            kinds.add(k2)
            out.append((a.ns, a.name))
            self.m.feature('ann_' + (k if isinstance(k, str) else 'custom'))
        return out

    # ---- definitions ----
    def doc_refs_for(self, ns, ctx=None):
        """Valid doc reference strings usable inside ns (ctx: the type whose
        doc/field doc this is, for bare :field: refs)."""
        out = [':val:`null`', ':val:`true`', ':val:`42`', ':val:`1.5`', ':val:`"text"`',
               ':link:`Stone repo https://github.com/dropbox/stone`']
        for n in self.visible_namespaces(ns):
            for d in self.m.ns(n).defs:
                pre = '' if n == ns.name else n + '.'
                if d.kind in ('struct', 'union'):
                    out.append(':type:`%s%s`' % (pre, d.name))
                    fs = self.m.own_fields(d)
                    if fs:
                        f = self.rnd.choice(fs)
                        if n == ns.name:
                            out.append(':field:`%s.%s`' % (d.name, f.name))
                        elif self.chance('p_three_part_field_ref'):
                            out.append(':field:`%s.%s.%s`' % (n, d.name, f.name))
                elif d.kind == 'alias' and n == ns.name and self.chance('p_alias_field_ref'):
                    # a field named through an alias (chain) of a struct or union
                    rt, nullable = self.m.resolve_alias(ref(n, d.name))
                    if rt.kind == 'ref' and not nullable:
                        fs = self.m.own_fields(self.m.lookup(rt.ns, rt.name))
                        if fs:
                            # (several copies: one candidate among dozens is rarely picked)
                            out.extend([':field:`%s.%s`' % (d.name, self.rnd.choice(fs).name)] * 5)
                            self.m.feature('doc_field_ref_via_alias')
                elif d.kind == 'route':
                    v = '' if d.version == 1 else ':%d' % d.version
                    out.append(':route:`%s%s%s`' % (pre, d.name, v))
        if ctx is not None:
            fs = (self.m.struct_all_fields(ctx) if ctx.kind == 'struct'
                  else [f for f in self.m.union_all_fields(ctx)])
            for f in fs[:4]:
                out.append(':field:`%s`' % f.name)
        return out

    def names_in_tree(self, key):
        return self.chain_names.setdefault(self.root_of.get(key, key), set())

    def fresh_member_name(self, owner_key, global_pool):
        r = self.rnd
        used = self.names_in_tree(owner_key)
        if global_pool and r.random() > self.p['unique_field_names']:
            c = r.choice(global_pool)
            if c not in used:
                used.add(c)
                return c
        n = self.low_name()
        used.add(n)
        global_pool.append(n)
        return n

    def gen_struct(self, ns, parent=None, n_fields=None, force_name=None):
        r = self.rnd
        name = force_name or self.type_name()
        twin_of = None
        if not force_name and self.p.get('p_shared_type_name') and r.random() < self.p['p_shared_type_name']:
            # type names are per namespace: a struct named like a struct of another namespace, and (below) a
            # struct that holds both, so that one document contains values of the two
            mine = {d.name for d in ns.defs}
            others = [d for n2 in self.m.namespaces if n2 is not ns and n2.name in ns.imports for d in n2.defs
                      if d.kind == 'struct' and not d.subtypes and d.name not in mine and not self.m.is_leaf(d)]
            if others:
                twin_of = r.choice(others)
                name = twin_of.name
                self.m.feature('struct_name_shared_across_namespaces')
        key = (ns.name, name)
        if parent is None and self.chance('p_parent'):
            cands = self.user_types(
                ns, ('struct',),
                lambda d: (d.ns, d.name) not in self.no_extend and
                self.depth_of.get((d.ns, d.name), 0) < 3)
            if cands:
                pd = r.choice(cands)
                parent = (pd.ns, pd.name)
                self.m.feature('struct_parent' + ('_foreign' if pd.ns != ns.name else ''))
        if parent:
            self.root_of[key] = self.root_of.get(parent, parent)
            self.depth_of[key] = self.depth_of.get(parent, 0) + 1
        d = StructDef(name=name, ns=ns.name, doc=None, parent=parent or None, fields=[],
                      patch_fields=[], subtypes=None, examples=[])
        nf = n_fields if n_fields is not None else r.choice([0, 1, 1, 2, 2, 3, 4, 5, 8])
        for _ in range(nf):
            d.fields.append(self.gen_field(ns, d))
        ns.defs.append(d)
        d.doc = self.doc(self.doc_refs_for(ns, d))
        self.m.feature('struct')
        if twin_of is not None:
            holder = StructDef(name=self.type_name(), ns=ns.name, doc=None, parent=None, fields=[],
                               patch_fields=[], subtypes=None, examples=[])
            for dd in (twin_of, d):
                holder.fields.append(FieldDef(name=self.fresh_member_name((holder.ns, holder.name), []),
                                              type=ref(dd.ns, dd.name, nullable=True), default=None, doc=None, anns=[]))
            ns.defs.append(holder)
        return d

    def gen_field(self, ns, owner):
        t = self.type_expr(ns)
        if self.p.get('p_container_of_root') and self.rnd.random() < self.p['p_container_of_root']:
            # a (nullable) list or map of the root of an enumerated-subtypes tree
            roots = self.user_types(ns, ('struct',), lambda d: bool(d.subtypes))
            if roots:
                d0 = self.rnd.choice(roots)
                inner = ref(d0.ns, d0.name)
                if self.rnd.random() < 0.5:
                    t = T('map', args={'key': prim('String'), 'value': inner})
                else:
                    t = T('list', args={'item': inner, 'min_items': None, 'max_items': None})
                if self.rnd.random() < 0.5:
                    t = t.copy(nullable=True)
                self.m.feature('field_container_of_subtype_root')
        fname = self.fresh_member_name((owner.ns, owner.name), self.field_pool)
        default = None
        if self.p['p_default_via_foreign_alias'] and self.rnd.random() < self.p['p_default_via_foreign_alias']:
            # a tag default on a field typed by an alias, of another namespace, of a union
            cands = []
            for n in ns.imports:
                for d in self.m.ns(n).defs:
                    if d.kind == 'alias':
                        rt, nullable = self.m.resolve_alias(ref(d.ns, d.name))
                        if rt.kind == 'ref' and not nullable:
                            u = self.m.lookup(rt.ns, rt.name)
                            if u.kind == 'union' and [x for x in self.void_tags(u) if x != 'other']:
                                cands.append((d, u))
            if not cands:
                # none yet: give an imported namespace an alias of a union it can see
                # (preferably one of a third namespace)
                for n in ns.imports:
                    nsd = self.m.ns(n)
                    us = [u for n2 in [x for x in nsd.imports if x != ns.name] + [n]
                          for u in self.m.ns(n2).defs
                          if u.kind == 'union' and [x for x in self.void_tags(u) if x != 'other']]
                    if us:
                        u = us[0] if us[0].ns != n else self.rnd.choice(us)
                        d = AliasDef(name='%sVia%d' % (self.type_name(), self._n()), ns=n, doc=None,
                                     type=ref(u.ns, u.name), anns=[])
                        nsd.defs.append(d)
                        self.m.feature('alias')
                        cands.append((d, u))
                        break
            if cands:
                d, u = self.rnd.choice(cands)
                t = ref(d.ns, d.name)
                default = ('tag', self.rnd.choice([x for x in self.void_tags(u) if x != 'other']))
                self.m.feature('tag_default_via_foreign_alias' + ('_third_ns' if u.ns != d.ns else ''))
                f = FieldDef(name=fname, type=t, default=default, doc=None, anns=[])
                return f
        if self.chance('p_default'):
            default = self.default_for(t)
            if default:
                self.m.feature('default')
        f = FieldDef(name=fname, type=t, default=default, doc=None, anns=self.field_anns(ns, t))
        f.doc = self.doc(self.doc_refs_for(ns, owner))
        return f

    def gen_subtype_tree(self, ns):
        r = self.rnd
        root = self.gen_struct(ns, parent=False, n_fields=r.choice([0, 1, 2, 3]))
        key = (ns.name, root.name)
        self.no_extend.add(key)
        items = []
        for _ in range(r.randint(1, 4)):
            leaf = self.gen_struct(ns, parent=key, n_fields=r.choice([0, 1, 2]))
            self.no_extend.add((ns.name, leaf.name))
            tag = self.fresh_member_name(key, self.field_pool)
            items.append((tag, (ns.name, leaf.name)))
        root.subtypes = {'closed': r.random() < 0.4, 'items': items}
        self.m.feature('subtypes_closed' if root.subtypes['closed'] else 'subtypes_open')
        if self.p.get('p_twin_subtype_trees') and r.random() < self.p['p_twin_subtype_trees']:
            # a second tree whose leaves carry the same subtype tags, and a struct that holds values of
            # both trees in one document (tables keyed by the tag alone would mix the trees up)
            root2 = self.gen_struct(ns, parent=False, n_fields=r.choice([0, 1]))
            key2 = (ns.name, root2.name)
            self.no_extend.add(key2)
            items2 = []
            for tag, _ in items:
                if tag in self.names_in_tree(key2):
                    continue
                leaf = self.gen_struct(ns, parent=key2, n_fields=r.choice([1, 2]))
                self.no_extend.add((ns.name, leaf.name))
                self.names_in_tree(key2).add(tag)
                items2.append((tag, (ns.name, leaf.name)))
            if items2:
                root2.subtypes = {'closed': r.random() < 0.4, 'items': items2}
                holder = self.gen_struct(ns, parent=False, n_fields=0)
                lst = lambda d_: T('list', args={'item': ref(d_.ns, d_.name), 'min_items': None, 'max_items': None})
                for d_, wrap in ((root, r.choice([lst, lambda x: ref(x.ns, x.name)])), (root2, lst)):
                    holder.fields.append(FieldDef(name=self.fresh_member_name((holder.ns, holder.name), []),
                                                  type=wrap(d_), default=None, doc=None, anns=[]))
                self.m.feature('twin_subtype_trees')
            else:
                ns.defs.remove(root2)
        return root

    def gen_union(self, ns):
        r = self.rnd
        name = self.type_name()
        key = (ns.name, name)
        closed = r.random() < 0.4
        parent = None
        if self.chance('p_parent'):
            cands = self.user_types(
                ns, ('union',),
                lambda d: (d.closed or not closed) and self.depth_of.get((d.ns, d.name), 0) < 2)
            if cands:
                pd = r.choice(cands)
                parent = (pd.ns, pd.name)
                self.root_of[key] = self.root_of.get(parent, parent)
                self.depth_of[key] = self.depth_of.get(parent, 0) + 1
                self.m.feature('union_parent_%s_of_%s' % ('closed' if closed else 'open',
                                                         'closed' if pd.closed else 'open'))
        d = UnionDef(name=name, ns=ns.name, doc=None, closed=closed, parent=parent, fields=[],
                     patch_fields=[], examples=[])
        for _ in range(r.choice([0, 1, 2, 2, 3, 4, 6])):
            tname = self.fresh_member_name(key, self.tag_pool)
            if r.random() < 0.4:
                t = None
            else:
                t = self.type_expr(ns)
            if t is not None and self.p['p_tag_named_like_member_field'] and \
                    r.random() < self.p['p_tag_named_like_member_field']:
                # a struct member's fields are flattened next to ".tag": name the tag
                # after one of them
                tgt = self.m.target(t)
                if tgt is not None and tgt.kind == 'struct':
                    used = self.names_in_tree(key)
                    cands = [x.name for x in self.m.struct_all_fields(tgt) if x.name not in used]
                    if cands:
                        tname = r.choice(cands)
                        used.add(tname)
                        self.m.feature('tag_named_like_member_field')
            f = FieldDef(name=tname, type=t, default=None, doc=None,
                         anns=self.field_anns(ns, t, is_void=(t is None)))
            f.doc = self.doc(self.doc_refs_for(ns, d))
            d.fields.append(f)
        if parent and self.p.get('p_sibling_same_tag') and r.random() < self.p['p_sibling_same_tag']:
            # two unions extending the same parent may declare the same tag with different types
            sibs = [x for x in self.m.defs('union') if x.parent == parent and x.fields]
            if sibs:
                sf = r.choice(r.choice(sibs).fields)
                if all(f_.name != sf.name for f_ in d.fields):
                    t = None if sf.type is not None and r.random() < 0.4 else self.type_expr(ns)
                    if not (t is None and sf.type is None):
                        d.fields.append(FieldDef(name=sf.name, type=t, default=None, doc=None, anns=[]))
                        self.m.feature('sibling_unions_share_tag_name')
        ns.defs.append(d)
        d.doc = self.doc(self.doc_refs_for(ns, d))
        self.m.feature('union_closed' if closed else 'union_open')
        return d

    def gen_alias(self, ns):
        r = self.rnd
        t = self.type_expr(ns)
        if self.p['p_alias_of_alias'] and r.random() < self.p['p_alias_of_alias']:
            # an alias of an alias (chains, also across namespaces and ending in user types)
            cands = self.user_types(ns, ('alias',))
            if cands:
                d0 = r.choice(cands)
                t = ref(d0.ns, d0.name)
        if self.p.get('p_alias_of_container_of_alias') and r.random() < self.p['p_alias_of_container_of_alias']:
            # an alias whose source holds another alias inside a container: Map(String, A), List(A?), ...
            cands = self.user_types(ns, ('alias',))
            if cands:
                d0 = r.choice(cands)
                inner = ref(d0.ns, d0.name)
                if r.random() < 0.3 and not self.m.is_nullable(inner):
                    inner = inner.copy(nullable=True)
                if r.random() < 0.6:
                    t = T('map', args={'key': prim('String'), 'value': inner})
                else:
                    t = T('list', args={'item': inner, 'min_items': None, 'max_items': None})
                if r.random() < 0.25:
                    t = T('list', args={'item': t, 'min_items': None, 'max_items': None})
                self.m.feature('alias_of_container_of_alias')
        anns = []
        if self.chance('p_field_ann'):
            for a in self.visible_anns(ns):
                k = a.atype if isinstance(a.atype, str) else 'custom'
                if k in ('RedactedBlot', 'RedactedHash'):
                    if any(x == 'redactor' for x, _ in anns):
                        continue
                    if not self.redactable(t):
                        continue
                    if r.random() < 0.5:
                        anns.append(('redactor', (a.ns, a.name)))
                elif k == 'custom' and r.random() < 0.4:
                    anns.append(('custom', (a.ns, a.name)))
        if self.p.get('p_alias_twin_annotations') and r.random() < self.p['p_alias_twin_annotations']:
            # two custom annotations of the same annotation type on one alias (their relative order must not
            # come from a set)
            by_type = {}
            for a in self.visible_anns(ns):
                if not isinstance(a.atype, str):
                    by_type.setdefault(tuple(a.atype), []).append(a)
            twins = [v for v in by_type.values() if len(v) >= 2]
            if twins:
                have = {x for _, x in anns}
                for a in r.choice(twins)[:3]:
                    if (a.ns, a.name) not in have:
                        anns.append(('custom', (a.ns, a.name)))
                self.m.feature('alias_with_two_annotations_of_one_type')
        aname = self.type_name()
        if self.p['p_odd_alias_name'] and r.random() < self.p['p_odd_alias_name']:
            # names that are not in canonical Pascal case: acronyms, snake case
            style = r.choice(['acronym', 'snake', 'upper_snake', 'mixed'])
            if style == 'acronym':
                aname = aname[:2].upper() + aname[2:]
            elif style == 'snake':
                aname = 'my_' + aname.lower()
            elif style == 'upper_snake':
                aname = 'MY_' + aname.upper()
            else:
                aname = aname[0] + '_' + aname[1:].capitalize()
            self.m.feature('odd_alias_name_' + style)
        d = AliasDef(name=aname, ns=ns.name, doc=self.doc(), type=t,
                     anns=[a for _, a in anns])
        ns.defs.append(d)
        self.m.feature('alias')
        if t.kind == 'ref' and self.m.lookup(t.ns, t.name).kind == 'alias':
            self.m.feature('alias_chain')
        return d

    def route_io(self, ns, slot):
        r = self.rnd
        kinds = self.p['route_arg_kinds']
        if slot != 'arg' and self.p.get('route_result_kinds'):
            kinds = self.p['route_result_kinds']
        k = r.choice(kinds)
        if slot == 'result' and self.p.get('p_route_container_result') and \
                r.random() < self.p['p_route_container_result']:
            # nested containers as a route result: List(List(String)), Map(String, List(T?)), ...
            t = None
            foreign = [d for d in self.user_types(ns, ('struct', 'union')) if d.ns != ns.name]
            if foreign and r.random() < 0.3:
                # a type of another namespace named only inside a map value
                d0 = r.choice(foreign)
                t = T('map', args={'key': prim('String'), 'value': ref(d0.ns, d0.name)})
                if r.random() < 0.3:
                    t = T('list', args={'item': t, 'min_items': None, 'max_items': None})
                self.m.feature('route_result_map_of_foreign_type')
            elif r.random() < 0.5:
                # lists nested two or three deep around a primitive or user type
                cands = self.user_types(ns, ('struct', 'union'))
                inner = ref(*[(d.ns, d.name) for d in [r.choice(cands)]][0]) if cands and r.random() < 0.3 \
                    else self.prim_type()
                t = inner
                for lvl in range(r.choice([2, 2, 3])):
                    if lvl and r.random() < 0.2 and not self.m.is_nullable(t):
                        t = t.copy(nullable=True)
                    t = T('list', args={'item': t, 'min_items': None, 'max_items': None})
            for _ in range(6):
                if t is not None and t.kind in ('list', 'map'):
                    break
                t = self.type_expr(ns, 0, allow_nullable=False)
            else:
                t = T('list', args={'item': T('list', args={'item': self.prim_type(), 'min_items': None,
                                                            'max_items': None}),
                                    'min_items': None, 'max_items': None})
            self.m.feature('route_container_result')
            return t
        if k == 'void':
            return VOID
        if k == 'prim':
            if self.chance('p_route_prim_io'):
                return self.prim_type()
            k = 'struct'
        cands_s = self.user_types(ns, ('struct',))
        cands_u = self.user_types(ns, ('union',))
        cands_a = self.user_types(ns, ('alias',))
        if self.p.get('route_alias_user_only'):
            cands_a = [a for a in cands_a if not self.m.is_nullable(ref(a.ns, a.name)) and
                       self.m.target(ref(a.ns, a.name)) is not None]
        if k == 'struct' and cands_s:
            d = r.choice(cands_s)
            return ref(d.ns, d.name)
        if k == 'union' and cands_u:
            d = r.choice(cands_u)
            return ref(d.ns, d.name)
        if k == 'alias' and cands_a:
            d = r.choice(cands_a)
            return ref(d.ns, d.name)
        if k == 'list' and (cands_s or cands_u):
            d = r.choice(cands_s + cands_u)
            return T('list', args={'item': ref(d.ns, d.name), 'min_items': None, 'max_items': None})
        if k == 'nullable' and (cands_s or cands_u):
            d = r.choice(cands_s + cands_u)
            return ref(d.ns, d.name, nullable=True)
        return VOID

    def gen_route(self, ns, existing):
        r = self.rnd
        if existing and r.random() < 0.35:
            base = r.choice(existing)
            name = base.name
            version = max(x.version for x in existing if x.name == name) + 1
            if version > 3:
                name, version = None, 1
        else:
            name, version = None, 1
        if name is None:
            name = self.low_name()
            if r.random() < 0.25:
                name += '/' + r.choice(WORDS)
            if self.p.get('p_shared_route_name') and r.random() < self.p['p_shared_route_name']:
                # the same route name (and version) in two namespaces: routes are per namespace
                mine = {x.name for x in existing}
                others = sorted({d.name for n2 in self.m.namespaces if n2 is not ns for d in n2.defs
                                 if d.kind == 'route' and d.version == 1 and d.name not in mine})
                if others:
                    name = r.choice(others)
                    self.m.feature('route_name_shared_across_namespaces')
        d = RouteDef(name=name, ns=ns.name, version=version, doc=None,
                     arg=self.route_io(ns, 'arg'), result=self.route_io(ns, 'result'),
                     error=self.route_io(ns, 'error'), deprecated=None, attrs=OrderedDict())
        if self.chance('p_route_deprecated') and existing:
            if r.random() < 0.5:
                d.deprecated = True
            else:
                by = r.choice(existing)
                d.deprecated = (by.name, by.version)
            self.m.feature('route_deprecated')
        ns.defs.append(d)
        if version > 1:
            self.m.feature('route_version')
        return d

    # ---- stone_cfg ----
    def gen_cfg(self):
        r = self.rnd
        m = self.m
        fields = []
        if self.p['cfg_style'] == 'dropbox':
            fields = [
                FieldDef(name='auth', type=prim('String'), default=('lit', 'user'), doc=None, anns=[]),
                FieldDef(name='host', type=prim('String'), default=('lit', 'api'), doc=None, anns=[]),
                FieldDef(name='style', type=prim('String'), default=('lit', 'rpc'), doc=None, anns=[]),
                FieldDef(name='scope', type=prim('String', nullable=True), default=None, doc=None, anns=[]),
            ]
        else:
            for _ in range(r.randint(1, 5)):
                allow = ('int', 'float', 'string', 'bool', 'string')
                if self.p['p_cfg_ts_bytes_attr'] and r.random() < self.p['p_cfg_ts_bytes_attr']:
                    allow = ('ts', 'bytes')      # attribute values become datetime / bytes objects
                pt = self.prim_type(allow=allow)
                mode = r.choice(['req', 'default', 'nullable'])
                if allow == ('ts', 'bytes') and mode == 'default':
                    mode = 'nullable'            # (defaults of these types are a recorded finding)
                dflt = None
                if mode == 'nullable':
                    pt = pt.copy(nullable=True)
                elif mode == 'default':
                    dflt = ('lit', self.literal_for(pt))
                fields.append(FieldDef(name=self.low_name(), type=pt, default=dflt,
                                       doc=self.doc(), anns=[]))
            if self.chance('p_cfg_union_attr'):
                unions = [d for d in m.defs('union') if self.void_tags(d)]
                if unions:
                    u = r.choice(unions)
                    mode = r.choice(['req', 'default', 'nullable'])
                    t = ref(u.ns, u.name, nullable=(mode == 'nullable'))
                    dflt = ('tag', r.choice(self.void_tags(u))) if mode == 'default' else None
                    fields.append(FieldDef(name=self.low_name(), type=t, default=dflt, doc=None, anns=[]))
                    if u.ns not in m.cfg_imports:
                        m.cfg_imports.append(u.ns)
                    m.feature('cfg_union_attr')
        m.cfg_fields = fields
        m.cfg = True
        m.feature('stone_cfg')
        for rt in m.defs('route'):
            self.fill_attrs(rt)

    def fill_attrs(self, rt):
        r = self.rnd
        for f in self.m.cfg_fields:
            optional = f.default is not None or f.type.nullable
            if optional and r.random() < 0.5:
                continue   # falls back to schema default / null
            if f.type.nullable and r.random() < 0.3:
                rt.attrs[f.name] = ('null',)
                continue
            if f.type.kind == 'ref':
                u = self.m.lookup(f.type.ns, f.type.name)
                rt.attrs[f.name] = ('tag', r.choice(self.void_tags(u)))
            else:
                if self.p['cfg_style'] == 'dropbox':
                    v = {'auth': r.choice(['user', 'app', 'team', 'noauth', 'app, user']),
                         'host': r.choice(['api', 'content', 'notify']),
                         'style': r.choice(['rpc', 'upload', 'download']),
                         'scope': r.choice(['files.read', 'account_info.write'])}[f.name]
                    rt.attrs[f.name] = ('lit', v)
                else:
                    rt.attrs[f.name] = ('lit', self.literal_for(f.type))

    # ---- examples ----
    def example_value(self, t, depth=0):
        """EV for type t or None if impossible right now."""
        r = self.rnd
        if t.nullable and (r.random() < 0.3 or depth > 3):
            return ('null',)
        if t.kind == 'prim':
            v = self.literal_for(t)
            return ('lit', v)
        if t.kind == 'list':
            mn = t.args.get('min_items') or 0
            mx = t.args.get('max_items')
            n = r.choice([mn, mn + 1, mx if mx is not None else mn + 2])
            if mx is not None:
                n = min(n, mx)
            items = []
            if self.m.resolve_alias(t.args['item'])[0].kind == 'map':
                # the example grammar has no map inside a list
                return ('list', []) if mn == 0 else (('null',) if t.nullable else None)
            for _ in range(n):
                ev = self.example_value(t.args['item'], depth + 1)
                if ev is None:
                    return ('null',) if t.nullable else (('list', []) if mn == 0 else None)
                items.append(ev)
            return ('list', items)
        if t.kind == 'map':
            kt, vt = t.args['key'], t.args['value']
            pairs = []
            seen = set()
            for _ in range(r.randint(0, 2)):
                k = self.string_in(kt)
                if k in seen:
                    continue
                seen.add(k)
                ev = self.example_value(vt, depth + 1)
                if ev is None:
                    continue
                pairs.append((k, ev))
            return ('map', pairs)
        # ref
        d = self.m.lookup(t.ns, t.name)
        if d.kind == 'alias':
            at = d.type
            if at.kind == 'ref' and not at.nullable:
                # alias straight to a user type / alias chain: example refs work
                ev = self.example_value(at.copy(nullable=False), depth + 1)
                if ev is None and t.nullable:
                    return ('null',)
                return ev
            if at.kind == 'prim':
                if at.nullable and r.random() < 0.3:
                    return ('null',)
                return ('lit', self.literal_for(at))
            # alias of a list / map / nullable type: the value is written as for the target
            ev = self.example_value(at, depth + 1)
            if ev is None and (t.nullable or at.nullable):
                return ('null',)
            if ev is not None:
                self.m.feature('example_through_alias_of_' + at.kind)
            return ev
        labels = self.has_example.get((d.ns, d.name))
        if labels:
            return ('ref', r.choice(labels))
        if d.kind == 'union':
            vt = [x for x in self.void_tags(d) if x != 'other']
            if vt:
                return ('ref', r.choice(vt))
        return ('null',) if t.nullable else None

    def gen_examples(self):
        r = self.rnd
        pending = [d for d in self.m.defs() if d.kind in ('struct', 'union')]
        r.shuffle(pending)
        for _round in range(3):
            for d in pending:
                key = (d.ns, d.name)
                if key in self.has_example or not self.chance('p_examples'):
                    continue
                exs = []
                for label in r.sample(['default', 'small', 'other_case', 'full'], r.randint(1, 3)):
                    ex = self.gen_example(d, label)
                    if ex is None:
                        break
                    exs.append(ex)
                if exs:
                    d.examples = exs
                    self.has_example[key] = [e.label for e in exs]
                    self.m.feature('example_' + d.kind)

    def gen_example(self, d, label):
        r = self.rnd
        values = OrderedDict()
        if d.kind == 'struct':
            if d.subtypes:
                opts = [(tag, sn) for tag, sn in d.subtypes['items'] if self.has_example.get(sn)]
                if not opts:
                    return None
                tag, sn = r.choice(opts)
                values[tag] = ('ref', r.choice(self.has_example[sn]))
            else:
                for f in self.m.struct_all_fields(d):
                    optional = f.default is not None or f.type.nullable
                    if optional and r.random() < 0.4:
                        continue
                    ev = self.example_value(f.type)
                    if ev is None:
                        if optional:
                            continue
                        return None
                    if ev == ('null',) and not f.type.nullable:
                        if optional:
                            continue
                        # alias-to-nullable: null is legal for check_example
                    values[f.name] = ev
        else:
            tags = self.m.union_all_fields(d, with_other=False)
            r.shuffle(tags)
            for f in tags:
                if f.type is None:
                    values[f.name] = ('null',)
                    break
                ev = self.example_value(f.type)
                if ev is None:
                    continue
                if ev[0] in ('map',) or (ev[0] == 'list' and any(x[0] != 'lit' for x in ev[1])):
                    continue   # union example walker only handles flat lists
                values[f.name] = ev
                break
            if not values:
                return None
        doc = self.doc() if (r.random() < 0.3 and values) else None
        return ExampleDef(label=label, doc=doc, values=values)

    # ---- back references (recursive types) ----
    def gen_backrefs(self, ns):
        r = self.rnd
        structs = [d for d in ns.defs if d.kind == 'struct']
        unions = [d for d in ns.defs if d.kind == 'union']
        for d in structs:
            if self.chance('p_backref') and len(d.fields) < 8:
                tgt = r.choice(structs + unions)
                shape = r.choice(['nullable', 'list', 'map'])
                if shape == 'nullable':
                    t = ref(tgt.ns, tgt.name, nullable=True)
                elif shape == 'list':
                    t = T('list', args={'item': ref(tgt.ns, tgt.name), 'min_items': None,
                                        'max_items': None})
                else:
                    t = T('map', args={'key': prim('String'), 'value': ref(tgt.ns, tgt.name)})
                fname = self.fresh_member_name((d.ns, d.name), self.field_pool)
                d.fields.append(FieldDef(name=fname, type=t, default=None, doc=None, anns=[]))
                self.m.feature('backref_' + shape)
        for u in unions:
            if self.chance('p_backref') and any(f.type is None for f in u.fields):
                tgt = r.choice(structs + unions)
                tname = self.fresh_member_name((u.ns, u.name), self.tag_pool)
                u.fields.append(FieldDef(name=tname, type=ref(tgt.ns, tgt.name), default=None,
                                         doc=None, anns=[]))
                self.m.feature('backref_union')

    def gen_patches(self):
        r = self.rnd
        for d in self.m.defs():
            if d.kind in ('struct', 'union') and d.fields and self.chance('p_patch'):
                if d.kind == 'struct' and d.subtypes:
                    pass
                k = r.randint(1, min(2, len(d.fields)))
                d.patch_fields = d.fields[-k:]
                d.fields = d.fields[:-k]
                self.m.feature('patch_' + d.kind)

    # ---- top level ----
    def build(self):
        r = self.rnd
        p = self.p
        m = self.m
        big = self.chance('p_big')
        n_ns = 4 if big else r.randint(*p['n_ns'])
        names = r.sample(NS_NAMES, n_ns)
        self.field_pool = []
        self.tag_pool = []
        for i, name in enumerate(names):
            imports = [n for n in names[:i] if r.random() < 0.6]
            r.shuffle(imports)
            ns = Namespace(name=name, docs=[], imports=imports, defs=[])
            m.namespaces.append(ns)
            if imports:
                m.feature('import', len(imports))
            # "sparse" namespaces: nothing but annotation types, nothing but aliases, or routes without a
            # single data type of their own (their signatures name imported types or Void)
            sparse = None
            if i > 0 and p.get('p_sparse_namespace') and r.random() < p['p_sparse_namespace']:
                sparse = r.choice(['annotations_only', 'aliases_only', 'routes_only'])
                m.feature('sparse_namespace_' + sparse)
            if sparse == 'annotations_only':
                self.p = dict(p, p_annotations=1.0, p_custom_ann=1.0)
            self.gen_annotations(ns)
            self.p = p
            nt = r.randint(*p['n_types']) * (3 if big else 1)
            if sparse in ('annotations_only', 'routes_only'):
                nt = 0
            for _ in range(nt):
                x = r.random()
                if sparse == 'aliases_only':
                    x = 0.0
                if x < p['p_alias']:
                    self.gen_alias(ns)
                elif x < p['p_alias'] + p['p_union']:
                    self.gen_union(ns)
                elif x < p['p_alias'] + p['p_union'] + p['p_subtypes']:
                    self.gen_subtype_tree(ns)
                else:
                    d0 = self.gen_struct(ns)
                    if p['p_marker_chain'] and r.random() < p['p_marker_chain'] and \
                            not d0.subtypes and (d0.ns, d0.name) not in self.no_extend and \
                            self.depth_of.get((d0.ns, d0.name), 0) < 2:
                        # a field-less "marker" struct in the middle of a chain: its
                        # constructor only forwards what it inherits
                        mid = self.gen_struct(ns, parent=(d0.ns, d0.name), n_fields=0)
                        self.gen_struct(ns, parent=(mid.ns, mid.name), n_fields=r.choice([0, 1, 2]))
                        self.m.feature('marker_chain')
            self.gen_backrefs(ns)
            routes = []
            for _ in range(0 if sparse == 'annotations_only' else r.randint(*p['n_routes']) * (2 if big else 1)):
                routes.append(self.gen_route(ns, routes))
            for rt in routes:
                rt.doc = self.doc(self.doc_refs_for(ns) if p['route_docs_refs'] else None)
            if self.chance('p_ns_doc'):
                ns.docs = [self.doc(force=True)]
                if p.get('p_multi_ns_doc') and r.random() < p['p_multi_ns_doc']:
                    for _ in range(r.choice([1, 1, 2])):
                        x = r.random()
                        if x < 0.25:
                            # the same text again, or only its last line: files that repeat a header doc
                            ns.docs.append(Doc([list(pp) for pp in ns.docs[0].paras]))
                        elif x < 0.4:
                            ns.docs.append(Doc([[ns.docs[0].paras[-1][-1]]]))
                        else:
                            ns.docs.append(self.doc(force=True))
                    m.feature('namespace_doc_in_several_files')
        if self.chance('p_cfg') or p['cfg_style']:
            self.gen_cfg()
        self.gen_examples()
        self.gen_patches()
        self.ensure_bodies()
        return m

    def ensure_bodies(self):
        """The grammar needs an indented block under struct / union /
        annotation_type: a definition that would be empty gets a doc."""
        for d in self.m.defs():
            if d.kind in ('struct', 'union'):
                if not d.fields and not d.examples and not getattr(d, 'subtypes', None) \
                        and d.doc is None:
                    d.doc = self.doc(force=True)
            elif d.kind == 'annotation_type':
                if not d.params and d.doc is None:
                    d.doc = self.doc(force=True)
            if d.kind in ('struct', 'union') and d.patch_fields:
                patched = {f.name for f in d.patch_fields}
                for ex in d.examples:
                    if all(n in patched for n in ex.values):
                        ex.doc = None   # "example x" + doc needs at least one field


def generate(seed, profile=None):
    return Gen(seed, profile).build()
