"""Boundary-biased abstract values (AV) for model types, and one-step-invalid neighbours.

AV forms: SV (struct value), UV (union value), list, dict (str keys), int, float,
bool, str, bytes, naive datetime, None.  A struct field missing from SV.fields is
UNSET (distinct from an explicit value equal to its default)."""
import datetime
import math

from .model import PRIM_INTS, PRIM_FLOATS, PATTERNS, F32


class Uninhabited(Exception):
    pass


class SV:
    __slots__ = ('ns', 'name', 'fields')

    def __init__(self, ns, name, fields):
        self.ns, self.name, self.fields = ns, name, fields

    def __repr__(self):
        return '%s.%s(%s)' % (self.ns, self.name, ', '.join('%s=%r' % kv for kv in self.fields.items()))


class UV:
    __slots__ = ('ns', 'name', 'tag', 'value')

    def __init__(self, ns, name, tag, value=None):
        self.ns, self.name, self.tag, self.value = ns, name, tag, value

    def __repr__(self):
        return '%s.%s.%s(%r)' % (self.ns, self.name, self.tag, self.value)


ODD_STRINGS = ['', 'a', 'é', '日本語', '😀', 'a\u0301', 'x y', '"q"', 'back\\slash', '{0}', '%s',
               'line\nbreak', '\x00', '\ud800', 'null', '.tag']


class ValueGen:
    def __init__(self, m, rnd, max_depth=5, bool_for_number=False, subclass_slots=False):
        self.subclass_slots = subclass_slots
        self.m = m
        self.rnd = rnd
        self.max_depth = max_depth
        # Python bools pass the integer and float validators (and are documented to
        # be written as numbers); only the encoding checks feed them
        self.bool_for_number = bool_for_number

    # ---- primitives ----
    def int_value(self, t):
        lo, hi = PRIM_INTS[t.name]
        mn = t.args.get('min_value', lo)
        mx = t.args.get('max_value', hi)
        cands = [mn, mx, mn + 1, mx - 1, 0, 1, -1, 2 ** 31, 2 ** 53 + 1, -2 ** 31 - 1]
        cands = [c for c in cands if mn <= c <= mx]
        if self.bool_for_number and self.rnd.random() < 0.08:
            bools = [b for b in (True, False) if mn <= int(b) <= mx]
            if bools:
                return self.rnd.choice(bools)
        return self.rnd.choice(cands)

    def float_value(self, t):
        lo, hi = PRIM_FLOATS[t.name]
        mn = t.args.get('min_value')
        mx = t.args.get('max_value')
        lo2 = float(mn) if mn is not None else (lo if lo is not None else -1.7976931348623157e308)
        hi2 = float(mx) if mx is not None else (hi if hi is not None else 1.7976931348623157e308)
        cands = [lo2, hi2, 0.0, -0.0, 0.5, -1.5, 1e-300, 5e-324, 1.0, 3.0, 1e16, 2.5e-5, 123456.789]
        cands = [c for c in cands if lo2 <= c <= hi2]
        v = self.rnd.choice(cands)
        if self.bool_for_number and self.rnd.random() < 0.05:
            bools = [b for b in (True, False) if lo2 <= float(b) <= hi2]
            if bools:
                return self.rnd.choice(bools)
        if v == int(v) and abs(v) < 2 ** 53 and self.rnd.random() < 0.25:
            return int(v)     # documented normalisation: ints stored as floats
        return v

    def string_value(self, t):
        r = self.rnd
        pat = t.args.get('pattern')
        if pat:
            for p in PATTERNS:
                if p[0] == pat:
                    return r.choice(p[1])
            raise AssertionError(pat)
        mn = t.args.get('min_length') or 0
        mx = t.args.get('max_length')
        if r.random() < 0.4:
            s = r.choice(ODD_STRINGS)
            if len(s) >= mn and (mx is None or len(s) <= mx):
                return s
        n = r.choice([mn, mx if mx is not None else mn + 2, min(mn + 1, mx if mx is not None else mn + 1)])
        alphabet = 'abz09 éß日😀"\\{}%\n\t'
        return ''.join(r.choice(alphabet) for _ in range(n))

    def bytes_value(self, t):
        r = self.rnd
        return r.choice([b'', b'\x00', b'abc', b'\xff\xfe\x00\x80', bytes(range(256)), b'a' * 3, b'ab'])

    def ts_value(self, t):
        r = self.rnd
        fmt = t.args['format']
        dt = datetime.datetime(r.choice([1, 999, 1000, 1970, 1999, 2015, 2038, 9999]), r.randint(1, 12),
                               r.randint(1, 28), r.randint(0, 23), r.randint(0, 59), r.randint(0, 59))
        if '%H' not in fmt:
            dt = dt.replace(hour=0, minute=0, second=0)
        if '%z' in fmt:
            dt = dt.replace(tzinfo=datetime.timezone.utc)
        return dt

    def prim_value(self, t):
        n = t.name
        if n in PRIM_INTS:
            return self.int_value(t)
        if n in PRIM_FLOATS:
            return self.float_value(t)
        if n == 'String':
            return self.string_value(t)
        if n == 'Boolean':
            return self.rnd.random() < 0.5
        if n == 'Bytes':
            return self.bytes_value(t)
        if n == 'Timestamp':
            return self.ts_value(t)
        if n == 'Void':
            return None
        raise AssertionError(t)

    # ---- composite ----
    def value(self, t, depth=0, avoid_null=False):
        m, r = self.m, self.rnd
        if t is None:
            return None
        if t.nullable and not avoid_null and (depth >= self.max_depth or r.random() < 0.25):
            return None
        if t.kind == 'prim':
            return self.prim_value(t)
        if t.kind == 'list':
            mn = t.args.get('min_items') or 0
            mx = t.args.get('max_items')
            if depth >= self.max_depth:
                n = mn
            else:
                n = r.choice([mn, mn + 1, mx if mx is not None else mn + 2])
            if mx is not None:
                n = min(n, mx)
            try:
                return [self.value(t.args['item'], depth + 1) for _ in range(n)]
            except Uninhabited:
                if mn == 0:
                    return []
                raise
        if t.kind == 'map':
            n = 0 if depth >= self.max_depth else r.choice([0, 1, 2])
            out = {}
            for _ in range(n):
                try:
                    out[self.string_value(t.args['key'])] = self.value(t.args['value'], depth + 1)
                except Uninhabited:
                    break
            return out
        d = m.lookup(t.ns, t.name)
        if d.kind == 'alias':
            inner = d.type
            if inner.nullable and not avoid_null and (depth >= self.max_depth or r.random() < 0.25):
                return None
            try:
                return self.value(inner.copy(nullable=False) if inner.nullable else inner, depth + 1, avoid_null)
            except Uninhabited:
                if (t.nullable or inner.nullable) and not avoid_null:
                    return None
                raise
        try:
            if d.kind == 'struct':
                return self.struct_value(d, depth)
            return self.union_value(d, depth)
        except Uninhabited:
            if t.nullable and not avoid_null:
                return None
            raise

    def struct_value(self, d, depth, exact=False):
        m, r = self.m, self.rnd
        if d.subtypes and not exact:
            leaves = m.leaves(d)
            r.shuffle(leaves)
            for leaf in leaves:
                try:
                    return self.struct_value(leaf, depth, exact=True)
                except Uninhabited:
                    continue
            raise Uninhabited(d.name)
        if depth > self.max_depth + 3:
            raise Uninhabited(d.name)
        if self.subclass_slots and not exact and not d.subtypes and r.random() < 0.12:
            # an instance of a struct that extends d (plain inheritance) where d is declared: accepted by the
            # generated classes, serialized with d's fields (comment in bv.Struct.validate_type_only)
            kids = [x for x in m.defs('struct') if not x.subtypes and not m.is_leaf(x) and
                    any((a.ns, a.name) == (d.ns, d.name) for a in m.ancestors(x))]
            if kids:
                try:
                    return self.struct_value(r.choice(kids), depth, exact=True)
                except Uninhabited:
                    pass
        fields = {}
        for f in m.struct_all_fields(d):
            optional = f.default is not None or m.is_nullable(f.type)
            if m.is_nullable(f.type) and not f.type.nullable:
                # Field typed by an alias of a nullable type: the generated class
                # wants it assigned explicitly (None or a value); see DESIGN.md.
                try:
                    fields[f.name] = None if depth >= self.max_depth else self.value(f.type, depth + 1)
                except Uninhabited:
                    fields[f.name] = None
                continue
            if optional:
                mode = r.choice(['unset', 'unset', 'set', 'set', 'default'])
                if depth >= self.max_depth:
                    mode = 'unset'
                if mode == 'unset':
                    continue
                if mode == 'default' and f.default is not None:
                    fields[f.name] = self.default_av(f)
                    continue
                try:
                    v = self.value(f.type, depth + 1)
                except Uninhabited:
                    continue
                if v is None:
                    continue       # explicit None on a nullable field == unset (documented)
                fields[f.name] = v
            else:
                fields[f.name] = self.value(f.type, depth + 1)
        return SV(d.ns, d.name, fields)

    def default_av(self, f):
        k, v = f.default
        if k == 'tag':
            tgt = self.m.target(f.type)
            return UV(tgt.ns, tgt.name, v, None)
        rt, _ = self.m.resolve_alias(f.type)
        if rt.name in PRIM_FLOATS:
            return float(v)
        return v

    def union_value(self, d, depth, tag=None):
        m, r = self.m, self.rnd
        tags = [f for f in m.union_all_fields(d) if not getattr(f, 'implicit', False)]
        if tag is not None:
            tags = [f for f in tags if f.name == tag]
        if depth > self.max_depth + 6:
            raise Uninhabited(d.name)      # only reachable through its own typed tags
        if depth >= self.max_depth:
            voids = [f for f in tags if f.type is None]
            nulls = [f for f in tags if f.type is not None and m.is_nullable(f.type)]
            tags = voids or nulls or tags
        r.shuffle(tags)
        for f in tags:
            if f.type is None:
                return UV(d.ns, d.name, f.name, None)
            try:
                return UV(d.ns, d.name, f.name, self.value(f.type, depth + 1))
            except Uninhabited:
                continue
        raise Uninhabited(d.name)

    def all_tag_values(self, d, depth=0):
        out = []
        for f in self.m.union_all_fields(d):
            if getattr(f, 'implicit', False):
                continue
            try:
                out.append(self.union_value(d, depth, tag=f.name))
            except Uninhabited:
                pass
        return out
