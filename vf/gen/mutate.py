"""Token-level text mutators (own tokenizer, not Stone's lexer)."""
import re

TOK = re.compile(r'''
    (?P<str>"(?:[^"\\]|\\.)*")
  | (?P<comment>\#[^\n]*)
  | (?P<nl>\n[ ]*)
  | (?P<ws>[ \t]+)
  | (?P<num>-?\d+(?:\.\d*)?(?:e-?\d+)?)
  | (?P<id>[A-Za-z_][A-Za-z0-9_]*)
  | (?P<punct>.)
''', re.X | re.S)

KEYWORDS = ['alias', 'annotation', 'annotation_type', 'attrs', 'by', 'deprecated', 'doc',
            'example', 'error', 'extends', 'import', 'namespace', 'patch', 'route', 'struct',
            'union', 'union_closed']
PUNCT = list('()[]{}=,.:?@*/')
LITS = ['0', '-1', '1.5', '1e3', '"s"', 'true', 'false', 'null', 'x1', '""', '18446744073709551616',
        '-0', '1.', '"a\\"b"', '"%Y %Y"', '"a{99999999999}"', '"(a"', '"%Q"']
TYPES = ['String', 'Int32', 'UInt64', 'Float64', 'Boolean', 'Bytes', 'Timestamp', 'List', 'Map', 'Void']
STRAY = ['\t', '\r', '$', '"', '\\', '\x00', 'é', ' ', '`', ';', '!', '~', '^', '&', '|', '<', '>', "'", '%',
         # characters without a Unicode name (C1 controls, private use, noncharacters, unassigned) and
         # other non-ASCII oddities: an error message must not depend on being able to describe them
         '\x85', '\x9f', '\uf8ff', '\ue000', '\uffff', '\u0378', '\U0010ffff', '\u00a0', '\u201c', '\ufeff',
         '\u0663', '\u200b']


def tokenize(text):
    return [m.group(0) for m in TOK.finditer(text)]


def kind_of(tok):
    m = TOK.match(tok)
    return m.lastgroup if m else 'punct'


def significant(toks):
    return [i for i, t in enumerate(toks) if kind_of(t) not in ('ws', 'comment')]


EDITS = ['delete', 'duplicate', 'swap', 'replace_kind', 'literal_kind', 'indent_line',
         'indent_block', 'truncate', 'stray', 'keyword_swap', 'join_lines', 'replace_type',
         'reuse_name', 'clash_name', 'doc_ref', 'huge_number', 'arglist', 'import_clash']
KWNAMES = ['min_length', 'max_length', 'pattern', 'min_value', 'max_value', 'min_items', 'max_items',
           'format', 'data_type', 'key_data_type', 'value_data_type', 'nope']
ARG_TYPES = ['String', 'Int32', 'UInt32', 'Int64', 'UInt64', 'Float32', 'Float64', 'List', 'Map', 'Timestamp',
             'Bytes', 'Boolean']
ARG_VALUES = ['0', '1', '2', '-1', '1.5', '0.0', '"a"', '"%Y"', '"[a-z]+"', 'true', 'null', 'String', 'Int32',
              'x', 'List(String)']
DEF_KEYWORDS = ('struct', 'union', 'union_closed', 'alias', 'annotation', 'annotation_type', 'route')
HUGE = ['1' + '0' * 400, '-1' + '0' * 400, '1e999', '-1e999', '1e-999', '0.' + '0' * 400 + '1',
        '1' + '0' * 400 + '.5', '9' * 30, '1e308', '1.8e308', '340282346638528859811704183484516925440',
        '340282356779733661637539395458142568448', '7' * 5000]
REF_TAGS = ['field', 'route', 'type', 'val', 'link', 'nope']


def mutate(text, rnd, other_text=None):
    """Apply one random edit; returns (new_text, edit_name)."""
    toks = tokenize(text)
    sig = significant(toks)
    if not sig:
        return text + rnd.choice(STRAY), 'stray'
    e = rnd.choice(EDITS + (['splice'] if other_text else []))
    i = rnd.choice(sig)
    if e == 'delete':
        del toks[i]
    elif e == 'duplicate':
        toks.insert(i, toks[i] if kind_of(toks[i]) != 'id' else toks[i] + ' ')
    elif e == 'swap':
        j = sig[(sig.index(i) + 1) % len(sig)]
        toks[i], toks[j] = toks[j], toks[i]
    elif e == 'replace_kind':
        k = kind_of(toks[i])
        pool = {'id': PUNCT + LITS + KEYWORDS, 'punct': KEYWORDS + LITS + PUNCT + ['x'],
                'num': KEYWORDS + ['"s"', 'x', '('], 'str': ['1', 'x', 'null', 'struct'],
                'nl': [' ', '\n', '\n\n    ']}.get(k, LITS)
        toks[i] = rnd.choice(pool)
    elif e == 'literal_kind':
        lits = [j for j in sig if kind_of(toks[j]) in ('num', 'str') or toks[j] in ('true', 'false', 'null')]
        if lits:
            i = rnd.choice(lits)
        toks[i] = rnd.choice(LITS)
    elif e == 'keyword_swap':
        kws = [j for j in sig if toks[j] in KEYWORDS]
        if kws:
            i = rnd.choice(kws)
        toks[i] = rnd.choice(KEYWORDS)
    elif e == 'replace_type':
        ids = [j for j in sig if kind_of(toks[j]) == 'id' and toks[j][0].isupper()]
        if ids:
            i = rnd.choice(ids)
        toks[i] = rnd.choice(TYPES + ['Nope', 'route', 'x.Y', '_', '__', 'a-b'])
    elif e in ('indent_line', 'indent_block'):
        nls = [j for j in sig if kind_of(toks[j]) == 'nl']
        if nls:
            j0 = rnd.choice(nls)
            delta = rnd.choice([-5, -4, -3, -2, -1, 1, 2, 3, 4, 5, 8])
            rng = [j0] if e == 'indent_line' else [j for j in nls if j >= j0][:rnd.randint(2, 6)]
            for j in rng:
                n = max(0, len(toks[j]) - 1 + delta)
                toks[j] = '\n' + ' ' * n
    elif e == 'truncate':
        toks = toks[:i + rnd.choice([0, 1])]
    elif e == 'stray':
        toks.insert(i, rnd.choice(STRAY))
    elif e == 'join_lines':
        nls = [j for j in sig if kind_of(toks[j]) == 'nl']
        if nls:
            toks[rnd.choice(nls)] = ' '
    elif e == 'reuse_name':
        # give an identifier the name of another identifier of the text: clashes
        # between definitions of every kind, self references, shadowed fields
        ids = [j for j in sig if kind_of(toks[j]) == 'id' and toks[j] not in KEYWORDS]
        if len(ids) >= 2:
            i, j = rnd.sample(ids, 2)
            toks[i] = toks[j]
    elif e == 'clash_name':
        # two definitions (of any two kinds) get the same name
        names = []
        for a, j in enumerate(sig[:-1]):
            if toks[j] in DEF_KEYWORDS and (a == 0 or kind_of(toks[sig[a - 1]]) == 'nl') \
                    and kind_of(toks[sig[a + 1]]) == 'id':
                names.append(sig[a + 1])
        if len(names) >= 2:
            i, j = rnd.sample(names, 2)
            toks[i] = toks[j]
    elif e == 'doc_ref':
        # plant a documentation reference in a string
        strs = [j for j in sig if kind_of(toks[j]) == 'str']
        ids = [toks[j] for j in sig if kind_of(toks[j]) == 'id' and toks[j] not in KEYWORDS] or ['x']
        if strs:
            i = rnd.choice(strs)
            parts = [rnd.choice(ids) for _ in range(rnd.choice([1, 1, 2, 2, 3, 4]))]
            target = rnd.choice(['.', '.', '.', ':', '/', '..']).join(parts)
            if rnd.random() < 0.2:
                target += rnd.choice([':2', ':x', ':', '.', ''])
            ref = ':%s:`%s`' % (rnd.choice(REF_TAGS), target)
            toks[i] = toks[i][:-1] + ' ' + ref + '"'
    elif e == 'huge_number':
        nums = [j for j in sig if kind_of(toks[j]) == 'num']
        if nums:
            i = rnd.choice(nums)
        toks[i] = rnd.choice(HUGE)
    elif e == 'import_clash':
        # a definition (of any kind) named like a namespace this file imports, or an import of a
        # name that is something else here (a built-in type, a definition of this file)
        imps = [sig[a + 1] for a, j in enumerate(sig[:-1]) if toks[j] == 'import' and
                (a == 0 or kind_of(toks[sig[a - 1]]) == 'nl') and kind_of(toks[sig[a + 1]]) == 'id']
        names = [sig[a + 1] for a, j in enumerate(sig[:-1]) if toks[j] in DEF_KEYWORDS and
                 (a == 0 or kind_of(toks[sig[a - 1]]) == 'nl') and kind_of(toks[sig[a + 1]]) == 'id']
        if imps and names and rnd.random() < 0.7:
            toks[rnd.choice(names)] = toks[rnd.choice(imps)]
        elif imps:
            toks[rnd.choice(imps)] = rnd.choice(TYPES + [toks[j] for j in names] or TYPES)
        else:
            ns = [sig[a + 1] for a, j in enumerate(sig[:-1]) if toks[j] == 'namespace']
            extra = '\nimport %s\n' % rnd.choice(TYPES + [toks[j] for j in names] + [toks[j] for j in ns])
            if ns:
                toks.insert(ns[0] + 1, extra)
    elif e == 'arglist':
        # argument lists mixing positional and keyword arguments: optional attributes given by
        # position, repeated as keywords, surplus and unknown keywords, on built-in and user types
        def make_arg():
            if rnd.random() < 0.5:
                return rnd.choice(ARG_VALUES)
            return '%s=%s' % (rnd.choice(KWNAMES), rnd.choice(ARG_VALUES))
        opens = [j for a, j in enumerate(sig[1:], 1) if toks[j] == '(' and kind_of(toks[sig[a - 1]]) == 'id']
        bare = [j for a, j in enumerate(sig[:-1]) if toks[j] in ARG_TYPES and toks[sig[a + 1]] != '(']
        if opens and (not bare or rnd.random() < 0.5):
            j = rnd.choice(opens)
            if rnd.random() < 0.5:
                toks.insert(j + 1, ''.join(make_arg() + ', ' for _ in range(rnd.choice([1, 1, 2]))))
            else:
                depth, k = 0, j
                while k < len(toks):
                    if toks[k] == '(':
                        depth += 1
                    elif toks[k] == ')':
                        depth -= 1
                        if depth == 0:
                            break
                    k += 1
                if k < len(toks):
                    toks.insert(k, ''.join(', ' + make_arg() for _ in range(rnd.choice([1, 1, 2]))))
        elif bare:
            j = rnd.choice(bare)
            toks[j] = '%s(%s)' % (toks[j], ', '.join(make_arg() for _ in range(rnd.choice([1, 2, 2, 3, 4]))))
    elif e == 'splice':
        o = tokenize(other_text)
        so = significant(o) or [0]
        toks = toks[:i] + o[rnd.choice(so):]
    return ''.join(toks), e


# --- exhaustive short token strings ------------------------------------------------
A1 = ['struct', 'union', 'route', 'alias', 'x', 'String', '(', ')', '=', '1', '\n', '\n    ']
A2 = ['alias', 'annotation', 'annotation_type', 'attrs', 'by', 'deprecated', 'doc', 'example',
      'error', 'extends', 'import', 'namespace', 'patch', 'route', 'struct', 'union',
      'union_closed', 'x', 'S', '(', ')', '[', ']', '{', '}', '=', ',', '.', ':', '?', '@', '*',
      '/p', '1', '1.5', '"s"', 'true', 'null', '\n', '\n    ', '\n        ']


def join_tokens(seq):
    out = []
    for t in seq:
        if out and not out[-1].startswith('\n') and not t.startswith('\n'):
            out.append(' ')
        out.append(t)
    return ''.join(out)
