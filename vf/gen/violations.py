"""Catalogue of single language-rule violations and the sites they apply to.

Each rule is a function rule(m, rnd) yielding (context, apply) pairs: `apply`
takes a deep copy of the model and makes exactly one departure from one rule
(possibly returning a text-level edit function applied to the rendered files).
Sites are addressed by index paths so that they survive the deep copy.
"""
import copy

from .model import (T, Doc, FieldDef, StructDef, UnionDef, AliasDef, RouteDef, AnnDef, AnnTypeDef,
                    ExampleDef, prim, ref, VOID, PRIM_INTS, PRIM_FLOATS)

RULES = []


def rule(name, implicit=False):
    def deco(fn):
        fn.rule_name = name
        fn.implicit = implicit
        RULES.append(fn)
        return fn
    return deco


# ---------------------------------------------------------------- helpers

def defs(m, kinds=None):
    for ni, ns in enumerate(m.namespaces):
        for di, d in enumerate(ns.defs):
            if kinds is None or d.kind in kinds:
                yield (ni, di), d


def getd(m, path):
    return m.namespaces[path[0]].defs[path[1]]


def fields_of(m, kinds=('struct', 'union')):
    for path, d in defs(m, kinds):
        for lst in ('fields', 'patch_fields'):
            for fi, f in enumerate(getattr(d, lst)):
                yield (path, lst, fi), d, f


def getf(m, fpath):
    return getattr(getd(m, fpath[0]), fpath[1])[fpath[2]]


def sub_types(t, steps=()):
    yield steps, t
    if t.kind == 'list':
        yield from sub_types(t.args['item'], steps + ('item',))
    elif t.kind == 'map':
        yield from sub_types(t.args['value'], steps + ('value',))


def nav(t, steps):
    for s in steps:
        t = t.args[s]
    return t


def set_nav(holder, attr, steps, new):
    t = getattr(holder, attr)
    if not steps:
        setattr(holder, attr, new)
        return
    parent = nav(t, steps[:-1])
    parent.args[steps[-1]] = new


def type_slots(m):
    """Every position holding a type expression: (ctx, holder_getter, attr, steps, T)."""
    for fpath, d, f in fields_of(m):
        if f.type is None:
            continue
        base = ('patched_' if fpath[1] == 'patch_fields' else '') + \
               ('struct_field' if d.kind == 'struct' else 'union_tag')
        for steps, t in sub_types(f.type):
            ctx = base + ''.join('>' + s for s in steps)
            yield ctx, (lambda m2, p=fpath: getf(m2, p)), 'type', steps, t
    for path, d in defs(m, ('alias',)):
        for steps, t in sub_types(d.type):
            yield 'alias' + ''.join('>' + s for s in steps), (lambda m2, p=path: getd(m2, p)), 'type', steps, t
    for path, d in defs(m, ('route',)):
        for slot in ('arg', 'result', 'error'):
            t = getattr(d, slot)
            for steps, tt in sub_types(t):
                yield 'route_' + slot + ''.join('>' + s for s in steps), \
                    (lambda m2, p=path: getd(m2, p)), slot, steps, tt


def where(m, d, t=None):
    """Context qualifiers of a definition."""
    q = []
    if getattr(d, 'parent', None):
        q.append('depth%d' % len(m.ancestors(d)))
        if d.parent[0] != d.ns:
            q.append('foreign_parent')
    if t is not None and t.kind == 'ref' and t.ns != d.ns:
        q.append('foreign')
    if t is not None and t.kind == 'ref':
        try:
            if m.lookup(t.ns, t.name).kind == 'alias':
                q.append('via_alias')
        except KeyError:
            pass
    return '+'.join(q)


def add_doc_line(obj, text):
    if obj.doc is None:
        obj.doc = Doc([[text]])
    else:
        obj.doc.paras[-1].append(text)


def text_edit(fn):
    """apply() result meaning: edit the rendered files with fn(files, rnd)."""
    return fn


# ---------------------------------------------------------------- A. references

@rule('undefined_type')
def r_undefined_type(m, rnd):
    for ctx, hg, attr, steps, t in type_slots(m):
        if t.kind != 'ref':
            continue

        def apply(m2, hg=hg, attr=attr, steps=steps, t=t):
            set_nav(hg(m2), attr, steps, ref(t.ns, 'Nope999', t.nullable))
        yield ctx + ('+foreign' if t.ns != hg(m).__dict__.get('ns', t.ns) else ''), apply


@rule('undefined_parent')
def r_undefined_parent(m, rnd):
    for path, d in defs(m, ('struct', 'union')):
        if d.parent:
            def apply(m2, path=path, d=d):
                getd(m2, path).parent = (d.parent[0], 'Nope999')
            yield d.kind + '+' + where(m, d), apply


@rule('namespace_not_imported')
def r_not_imported(m, rnd):
    for ctx, hg, attr, steps, t in type_slots(m):
        if t.kind != 'ref':
            continue

        def apply(m2, hg=hg, attr=attr, steps=steps, t=t):
            set_nav(hg(m2), attr, steps, ref('nonesuch', t.name, t.nullable))
        yield ctx, apply


@rule('import_removed_but_used')
def r_import_removed(m, rnd):
    for ni, ns in enumerate(m.namespaces):
        for imp in ns.imports:
            used = False
            for ctx, hg, attr, steps, t in type_slots(m):
                h = hg(m)
                hns = getattr(h, 'ns', None)
                if hns is None:
                    continue
            # cheap test: render-level usage
            for d in ns.defs:
                if ('%s.' % imp) in repr(d.__dict__) or ("'%s'" % imp) in repr(d.__dict__):
                    used = True
            if not used:
                continue

            def apply(m2, ni=ni, imp=imp):
                m2.namespaces[ni].imports.remove(imp)
            yield 'import', apply


@rule('import_self')
def r_import_self(m, rnd):
    for ni, ns in enumerate(m.namespaces):
        def apply(m2, ni=ni):
            m2.namespaces[ni].imports.append(m2.namespaces[ni].name)
        yield 'ns', apply


@rule('import_unknown_namespace')
def r_import_unknown(m, rnd):
    for ni, ns in enumerate(m.namespaces):
        def apply(m2, ni=ni):
            m2.namespaces[ni].imports.append('nonesuch')
        yield 'ns', apply


@rule('circular_import')
def r_circular_import(m, rnd):
    for ni, ns in enumerate(m.namespaces):
        for imp in ns.imports:
            def apply(m2, ni=ni, imp=imp):
                m2.ns(imp).imports.append(m2.namespaces[ni].name)
            yield 'direct', apply


@rule('circular_import_longer')
def r_circular_import_long(m, rnd):
    """Import cycles are refused whatever their length (a -> b -> c -> a)."""
    by = {ns.name: ns for ns in m.namespaces}
    for ns in m.namespaces:
        for mid in ns.imports:
            for far in by[mid].imports:
                if far != ns.name and ns.name not in by[far].imports:
                    def apply(m2, far=far, back=ns.name):
                        m2.ns(far).imports.append(back)
                    yield 'length3', apply


@rule('builtin_annotation_bad_argument')
def r_builtin_ann_args(m, rnd):
    """Omitted takes a caller class (an identifier-like string), the redactors an
    optional regular expression."""
    for path, d in defs(m, ('annotation',)):
        if d.atype == 'Omitted':
            for label, bad in (('number', [5]), ('not_identifier', ['internal-team']), ('empty', [''])):
                def apply(m2, path=path, bad=bad):
                    getd(m2, path).args = list(bad)
                yield 'omitted_' + label, apply
        elif d.atype in ('RedactedBlot', 'RedactedHash'):
            for label, bad in (('boolean', [True]), ('bad_regex', ['(unbalanced'])):
                def apply(m2, path=path, bad=bad):
                    getd(m2, path).args = list(bad)
                yield 'redactor_' + label, apply


@rule('default_on_union_member')
def r_default_on_tag(m, rnd):
    for fpath, d, f in fields_of(m, ('union',)):
        if f.type is not None and f.type.kind == 'prim' and f.type.name == 'String' and not f.type.nullable:
            def apply(m2, fpath=fpath):
                getf(m2, fpath).default = ('lit', 'x')
            yield 'string_tag', apply


@rule('field_typed_by_alias_of_void')
def r_alias_of_void_member(m, rnd):
    for fpath, d, f in fields_of(m):
        if f.type is None or f.default is not None:
            continue

        def apply(m2, fpath=fpath, d=d):
            m2.ns(d.ns).defs.append(AliasDef(name='VoidAlias999', ns=d.ns, doc=None, type=prim('Void'), anns=[]))
            f2 = getf(m2, fpath)
            f2.type = ref(d.ns, 'VoidAlias999')
            f2.anns = []
        yield d.kind, apply


@rule('default_on_alias_of_nullable')
def r_default_alias_nullable(m, rnd):
    for fpath, d, f in fields_of(m, ('struct',)):
        if f.type.kind == 'prim' and f.type.name == 'String' and not f.type.args and f.default is None \
                and not f.type.nullable:
            def apply(m2, fpath=fpath, d=d):
                m2.ns(d.ns).defs.append(AliasDef(name='MaybeText999', ns=d.ns, doc=None,
                                                 type=prim('String', nullable=True), anns=[]))
                f2 = getf(m2, fpath)
                f2.type = ref(d.ns, 'MaybeText999')
                f2.default = ('lit', 'x')
                f2.anns = []
            yield 'string_field', apply


@rule('undefined_annotation')
def r_undefined_annotation(m, rnd):
    for fpath, d, f in fields_of(m):
        def apply(m2, fpath=fpath, d=d):
            getf(m2, fpath).anns.append((d.ns, 'NoAnn999'))
        yield ('struct_field' if d.kind == 'struct' else 'union_tag') + \
            ('+void' if f.type is None else ''), apply
    for path, d in defs(m, ('alias',)):
        def apply(m2, path=path, d=d):
            getd(m2, path).anns.append((d.ns, 'NoAnn999'))
        yield 'alias', apply


@rule('undefined_annotation_type')
def r_undefined_annotation_type(m, rnd):
    for path, d in defs(m, ('annotation',)):
        if not isinstance(d.atype, str):
            def apply(m2, path=path, d=d):
                getd(m2, path).atype = ('custom', d.atype[1], 'NoType999')
            yield 'custom' + ('+foreign' if d.atype[1] != d.ns else ''), apply
    for ni, ns in enumerate(m.namespaces):
        def apply(m2, ni=ni):
            n = m2.namespaces[ni]
            n.defs.append(AnnDef(name='ZzAnn999', ns=n.name, atype=('custom', n.name, 'NoType999'),
                                 args=[], kwargs={}))
        yield 'new', apply


@rule('deprecated_by_undefined_route')
def r_dep_undefined(m, rnd):
    for path, d in defs(m, ('route',)):
        def apply(m2, path=path):
            getd(m2, path).deprecated = ('no_route999', 1)
        yield 'name', apply

        def apply2(m2, path=path, d=d):
            getd(m2, path).deprecated = (d.name, 9)
        yield 'version', apply2


@rule('deprecated_by_non_route')
def r_dep_non_route(m, rnd):
    for path, d in defs(m, ('route',)):
        ts = [x for x in m.ns(d.ns).defs if x.kind in ('struct', 'union', 'alias')]
        if ts:
            def apply(m2, path=path, nm=ts[0].name):
                getd(m2, path).deprecated = (nm, 1)
            yield ts[0].kind, apply


def doc_holders(m):
    for path, d in defs(m, ('struct', 'union', 'route')):
        yield d.kind, (lambda m2, p=path: getd(m2, p))
    for fpath, d, f in fields_of(m):
        yield ('patched_' if fpath[1] == 'patch_fields' else '') + d.kind + '_field', \
            (lambda m2, p=fpath: getf(m2, p))


BAD_REFS = [
    ('doc_ref_unknown_type', ':type:`Nope999`'),
    ('doc_ref_unknown_type_ns', ':type:`nonesuch.Nope999`'),
    ('doc_ref_unknown_field', ':field:`no_field999`'),
    ('doc_ref_unknown_route', ':route:`no_route999`'),
    ('doc_ref_unknown_tag', ':nosuchtag:`x`'),
    ('doc_ref_bad_link', ':link:`nospace`'),
    ('doc_ref_bad_val', ':val:`not a value`'),
]


def _mk_docref_rule(rname, text):
    @rule(rname)
    def r(m, rnd):
        for ctx, hg in doc_holders(m):
            if rname == 'doc_ref_unknown_field' and ctx == 'route':
                continue   # bare :field: outside a type has no meaning

            def apply(m2, hg=hg):
                add_doc_line(hg(m2), 'see %s here' % text)
            yield ctx, apply
    return r


for _n, _t in BAD_REFS:
    _mk_docref_rule(_n, _t)


@rule('doc_ref_unknown_route_version')
def r_docref_route_version(m, rnd):
    for path, d in defs(m, ('route',)):
        def apply(m2, path=path, d=d):
            add_doc_line(getd(m2, path), 'see :route:`%s:9`' % d.name)
        yield 'route_doc', apply
        for p2, h in defs(m, ('struct', 'union')):
            if h.ns == d.ns:
                def apply2(m2, p2=p2, d=d):
                    add_doc_line(getd(m2, p2), 'see :route:`%s:9`' % d.name)
                yield h.kind + '_doc', apply2
                break


@rule('doc_ref_field_of_other_type_unknown')
def r_docref_type_field(m, rnd):
    for path, d in defs(m, ('struct', 'union')):
        def apply(m2, path=path, d=d):
            add_doc_line(getd(m2, path), 'see :field:`%s.no_field999`' % d.name)
        yield d.kind, apply


@rule('doc_ref_type_is_alias')
def r_docref_alias(m, rnd):
    for path, d in defs(m, ('alias',)):
        for p2, h in defs(m, ('struct', 'union')):
            if h.ns == d.ns:
                def apply(m2, p2=p2, d=d):
                    add_doc_line(getd(m2, p2), 'see :type:`%s`' % d.name)
                yield h.kind, apply
                break


# ---------------------------------------------------------------- B. names

def _clone_named(d, name):
    c = copy.deepcopy(d)
    c.name = name
    return c


@rule('duplicate_type')
def r_dup_type(m, rnd):
    for path, d in defs(m, ('struct', 'union')):
        def apply(m2, path=path):
            ns = m2.namespaces[path[0]]
            c = copy.deepcopy(getd(m2, path))
            c.parent = None
            c.patch_fields = []
            c.examples = []
            if c.kind == 'struct':
                c.subtypes = None
            if not c.fields and c.doc is None:
                c.doc = Doc([['dup']])
            ns.defs.append(c)
        yield d.kind, apply


@rule('duplicate_alias')
def r_dup_alias(m, rnd):
    for path, d in defs(m, ('alias',)):
        def apply(m2, path=path):
            m2.namespaces[path[0]].defs.append(copy.deepcopy(getd(m2, path)))
        yield 'alias', apply


@rule('alias_named_like_type')
def r_alias_vs_type(m, rnd):
    for path, d in defs(m, ('struct', 'union')):
        def apply(m2, path=path, d=d):
            m2.namespaces[path[0]].defs.append(
                AliasDef(name=d.name, ns=d.ns, doc=None, type=prim('String'), anns=[]))
        yield d.kind, apply


def _new_def_named(m2, kind, name, ns):
    """A minimal, otherwise valid definition of the given kind called name."""
    if kind == 'struct':
        return StructDef(name=name, ns=ns, doc=Doc([['clash']]), parent=None, fields=[],
                         patch_fields=[], subtypes=None, examples=[])
    if kind == 'alias':
        return AliasDef(name=name, ns=ns, doc=None, type=prim('String'), anns=[])
    if kind == 'annotation':
        return AnnDef(name=name, ns=ns, atype='Preview', args=[], kwargs={})
    if kind == 'annotation_type':
        return AnnTypeDef(name=name, ns=ns, doc=Doc([['clash']]), params=[])
    if kind == 'route':
        at = _dummy_attrs(m2)
        if at is None:
            return None
        return RouteDef(name=name, ns=ns, version=1, doc=None, arg=VOID, result=VOID,
                        error=VOID, deprecated=None, attrs=at)
    raise AssertionError(kind)


@rule('name_clash_across_kinds')
def r_clash_kinds(m, rnd):
    """Every definition kind shares one name table per namespace: a second
    definition of a used name is refused whatever the two kinds are and
    whichever comes first."""
    for path, d in defs(m, ('struct', 'union', 'alias', 'annotation', 'annotation_type', 'route')):
        if d.kind == 'route' and d.version != 1:
            continue
        for k in ('struct', 'alias', 'annotation', 'annotation_type', 'route'):
            if k == 'route' and _dummy_attrs(m) is None:
                continue
            for where in ('before', 'after'):
                def apply(m2, path=path, d=d, k=k, where=where):
                    ns = m2.namespaces[path[0]]
                    c = _new_def_named(m2, k, d.name, d.ns)
                    if where == 'before':
                        ns.defs.insert(path[1], c)
                    else:
                        ns.defs.append(c)
                yield '%s_then_%s' % ((k, d.kind) if where == 'before' else (d.kind, k)), apply


@rule('canonical_name_clash')
def r_canonical_clash(m, rnd):
    # same letters, different case / underscores: distinct symbols, same canonical name
    for path, d in defs(m, ('struct', 'union', 'alias')):
        def apply(m2, path=path, d=d):
            m2.namespaces[path[0]].defs.append(
                AliasDef(name=d.name.upper() + '_', ns=d.ns, doc=None, type=prim('String'), anns=[]))
        yield d.kind + '_vs_alias', apply

        def apply2(m2, path=path, d=d):
            m2.namespaces[path[0]].defs.append(
                RouteDef(name=d.name.lower(), ns=d.ns, version=1, doc=None, arg=VOID, result=VOID,
                         error=VOID, deprecated=None, attrs=_dummy_attrs(m2)))
        if _dummy_attrs(m) is not None:
            yield d.kind + '_vs_route', apply2

        def apply3(m2, path=path, d=d):
            m2.namespaces[path[0]].defs.append(
                AnnTypeDef(name=d.name.upper() + '_', ns=d.ns, doc=None,
                           params=[FieldDef(name='p', type=prim('String'), default=None, doc=None, anns=[])]))
        yield d.kind + '_vs_annotation_type', apply3
    for path, d in defs(m, ('annotation_type',)):
        def apply4(m2, path=path, d=d):
            m2.namespaces[path[0]].defs.append(
                AliasDef(name=d.name.upper() + '_', ns=d.ns, doc=None, type=prim('String'), anns=[]))
        yield 'annotation_type_vs_alias', apply4


def _dummy_attrs(m2):
    """Attrs that satisfy the schema (copied from any existing route)."""
    for r in m2.defs('route'):
        return copy.deepcopy(r.attrs)
    out = {}
    for f in m2.cfg_fields:
        if f.default is None and not f.type.nullable:
            return None
    return out


@rule('duplicate_route_version')
def r_dup_route(m, rnd):
    for path, d in defs(m, ('route',)):
        def apply(m2, path=path):
            c = copy.deepcopy(getd(m2, path))
            c.doc = None
            m2.namespaces[path[0]].defs.append(c)
        yield 'v%d' % d.version, apply


@rule('route_named_like_type')
def r_route_vs_type(m, rnd):
    for path, d in defs(m, ('struct', 'union', 'alias')):
        def apply(m2, path=path, d=d):
            at = _dummy_attrs(m2)
            m2.namespaces[path[0]].defs.append(
                RouteDef(name=d.name, ns=d.ns, version=1, doc=None, arg=VOID, result=VOID,
                         error=VOID, deprecated=None, attrs=at if at is not None else {}))
        if _dummy_attrs(m) is not None:
            yield d.kind, apply


@rule('duplicate_annotation')
def r_dup_annotation(m, rnd):
    for path, d in defs(m, ('annotation',)):
        def apply(m2, path=path):
            m2.namespaces[path[0]].defs.append(copy.deepcopy(getd(m2, path)))
        yield 'annotation', apply


@rule('duplicate_field')
def r_dup_field(m, rnd):
    for fpath, d, f in fields_of(m):
        def apply(m2, fpath=fpath):
            d2 = getd(m2, fpath[0])
            c = copy.deepcopy(getf(m2, fpath))
            c.doc = None
            c.default = None
            c.anns = []
            d2.fields.append(c) if fpath[1] == 'fields' else d2.patch_fields.append(c)
        yield ('struct' if d.kind == 'struct' else 'union') + \
            ('+within_patch' if fpath[1] == 'patch_fields' else ''), apply


@rule('field_clashes_with_inherited')
def r_inherited_clash(m, rnd):
    for path, d in defs(m, ('struct', 'union')):
        for dist, anc in enumerate(m.ancestors(d), 1):
            fs = m.own_fields(anc)
            if not fs:
                continue
            f = fs[0]

            def apply(m2, path=path, f=f, d=d):
                t = prim('String') if (f.type is not None or d.kind == 'struct') else None
                getd(m2, path).fields.append(FieldDef(name=f.name, type=t, default=None, doc=None, anns=[]))
            yield '%s+distance%d%s' % (d.kind, dist, '+foreign' if anc.ns != d.ns else ''), apply


@rule('patch_overrides_field')
def r_patch_override(m, rnd):
    for path, d in defs(m, ('struct', 'union')):
        if d.fields:
            def apply(m2, path=path):
                d2 = getd(m2, path)
                c = copy.deepcopy(d2.fields[0])
                c.doc = None
                c.anns = []
                d2.patch_fields.append(c)
            yield d.kind + ('+has_patch' if d.patch_fields else '+new_patch'), apply


@rule('tag_named_other')
def r_tag_other(m, rnd):
    for path, d in defs(m, ('union',)):
        def apply(m2, path=path):
            getd(m2, path).fields.append(FieldDef(name='other', type=None, default=None, doc=None, anns=[]))
        yield ('closed' if d.closed else 'open') + ('+child' if d.parent else ''), apply


@rule('subtype_tag_equals_field')
def r_subtype_tag_field(m, rnd):
    for path, d in defs(m, ('struct',)):
        if d.subtypes and m.own_fields(d):
            def apply(m2, path=path):
                d2 = getd(m2, path)
                tag, sn = d2.subtypes['items'][0]
                d2.subtypes['items'][0] = (m2.own_fields(d2)[0].name, sn)
                for ex in d2.examples:
                    ex.values = type(ex.values)((m2.own_fields(d2)[0].name if k == tag else k, v)
                                                for k, v in ex.values.items())
            yield 'root', apply


# ---------------------------------------------------------------- C. inheritance

@rule('struct_extends_non_struct')
def r_struct_extends_wrong(m, rnd):
    for path, d in defs(m, ('struct',)):
        if d.subtypes or m.is_leaf(d):
            continue
        for kind in ('union', 'alias'):
            cands = [x for x in m.ns(d.ns).defs if x.kind == kind]
            if cands and not d.parent:
                def apply(m2, path=path, c=cands[0]):
                    getd(m2, path).parent = (c.ns, c.name)
                yield kind, apply


@rule('union_extends_non_union')
def r_union_extends_wrong(m, rnd):
    for path, d in defs(m, ('union',)):
        for kind in ('struct', 'alias'):
            cands = [x for x in m.ns(d.ns).defs if x.kind == kind]
            if cands and not d.parent:
                def apply(m2, path=path, c=cands[0]):
                    getd(m2, path).parent = (c.ns, c.name)
                yield kind, apply


@rule('extends_itself')
def r_extends_self(m, rnd):
    for path, d in defs(m, ('struct', 'union')):
        if not d.parent and not getattr(d, 'subtypes', None):
            def apply(m2, path=path, d=d):
                getd(m2, path).parent = (d.ns, d.name)
            yield d.kind, apply


@rule('inheritance_cycle')
def r_inheritance_cycle(m, rnd):
    for path, d in defs(m, ('struct', 'union')):
        if d.parent and d.parent[0] == d.ns:
            top = m.ancestors(d)[-1]
            if top.ns != d.ns or getattr(top, 'subtypes', None):
                continue

            def apply(m2, d=d, top=top):
                m2.lookup(top.ns, top.name).parent = (d.ns, d.name)
            yield '%s+length%d' % (d.kind, len(m.ancestors(d)) + 1), apply


@rule('extends_nullable')
def r_extends_nullable(m, rnd):
    for path, d in defs(m, ('struct', 'union')):
        if d.parent:
            def apply(m2, path=path, d=d):
                pn = d.parent[1] if d.parent[0] == d.ns else '%s.%s' % d.parent

                def edit(files, rnd2):
                    out = []
                    for p, t in files:
                        out.append((p, t.replace(' %s extends %s\n' % (d.name, pn),
                                                 ' %s extends %s?\n' % (d.name, pn), 1)))
                    return out
                return edit
            yield d.kind, apply


@rule('closed_union_extends_open')
def r_closed_extends_open(m, rnd):
    for path, d in defs(m, ('union',)):
        if d.parent and not d.closed and not m.lookup(*d.parent).closed:
            kids = [x for x in m.defs('union') if x.parent == (d.ns, d.name)]
            if kids:
                continue

            def apply(m2, path=path):
                d2 = getd(m2, path)
                d2.closed = True
            yield 'close_child' + ('+patched' if d.patch_fields else ''), apply


@rule('enumerating_struct_with_parent')
def r_enum_with_parent(m, rnd):
    for path, d in defs(m, ('struct',)):
        if d.subtypes:
            cands = [x for x in m.ns(d.ns).defs if x.kind == 'struct' and not x.subtypes and
                     not m.is_leaf(x) and x is not d]
            names = {f.name for f in m.struct_all_fields(d)} | {t for t, _ in d.subtypes['items']}
            for lf in m.leaves(d):
                names |= {f.name for f in m.own_fields(lf)}
            cands = [c for c in cands if not (names & {f.name for f in m.struct_all_fields(c)})]
            if cands:
                def apply(m2, path=path, c=cands[0]):
                    getd(m2, path).parent = (c.ns, c.name)
                yield 'root', apply


@rule('subtype_not_struct')
def r_subtype_not_struct(m, rnd):
    for path, d in defs(m, ('struct',)):
        if d.subtypes:
            us = [x for x in m.ns(d.ns).defs if x.kind == 'union']
            if us:
                def apply(m2, path=path, u=us[0]):
                    getd(m2, path).subtypes['items'].append(('zz_tag999', (u.ns, u.name)))
                yield 'union', apply


@rule('subtype_not_child')
def r_subtype_not_child(m, rnd):
    for path, d in defs(m, ('struct',)):
        if d.subtypes:
            ss = [x for x in m.ns(d.ns).defs if x.kind == 'struct' and x.parent != (d.ns, d.name)
                  and x is not d]
            if ss:
                def apply(m2, path=path, s=ss[0]):
                    getd(m2, path).subtypes['items'].append(('zz_tag999', (s.ns, s.name)))
                yield 'unrelated', apply


@rule('subtype_listed_twice')
def r_subtype_twice(m, rnd):
    for path, d in defs(m, ('struct',)):
        if d.subtypes:
            def apply(m2, path=path):
                d2 = getd(m2, path)
                d2.subtypes['items'].append(('zz_tag999', d2.subtypes['items'][0][1]))
            yield 'root', apply


@rule('subtype_missing')
def r_subtype_missing(m, rnd):
    for path, d in defs(m, ('struct',)):
        if d.subtypes and len(d.subtypes['items']) > 1 and \
                not any(d.subtypes['items'][-1][0] in e.values for e in d.examples):
            def apply(m2, path=path):
                d2 = getd(m2, path)
                tag, _ = d2.subtypes['items'].pop()
                d2.examples = [e for e in d2.examples if tag not in e.values]
            used = False
            for x in m.defs():
                if x is not d and d.name in repr(getattr(x, 'examples', '')):
                    used = True
            yield 'root', apply
        if d.subtypes:
            def apply2(m2, path=path, d=d):
                ns = m2.namespaces[path[0]]
                ns.defs.append(StructDef(name='ZzExtra999', ns=d.ns, doc=Doc([['x']]),
                                         parent=(d.ns, d.name), fields=[], patch_fields=[],
                                         subtypes=None, examples=[]))
            yield 'new_child', apply2


@rule('leaf_extended')
def r_leaf_extended(m, rnd):
    for path, d in defs(m, ('struct',)):
        if m.is_leaf(d):
            def apply(m2, path=path, d=d):
                ns = m2.namespaces[path[0]]
                ns.defs.append(StructDef(name='ZzExtra999', ns=d.ns, doc=Doc([['x']]),
                                         parent=(d.ns, d.name), fields=[], patch_fields=[],
                                         subtypes=None, examples=[]))
            yield 'leaf', apply


# ---------------------------------------------------------------- D. types

@rule('void_struct_field')
def r_void_field(m, rnd):
    for path, d in defs(m, ('struct',)):
        def apply(m2, path=path):
            getd(m2, path).fields.append(FieldDef(name='zz_void999', type=prim('Void'), default=None,
                                                  doc=None, anns=[]))
        yield 'typed' + ('+patched' if d.patch_fields else ''), apply

        def apply2(m2, path=path):
            getd(m2, path).fields.append(FieldDef(name='zz_void999', type=None, default=None,
                                                  doc=None, anns=[]))
        yield 'bare', apply2


@rule('explicit_void_tag')
def r_void_tag(m, rnd):
    for path, d in defs(m, ('union',)):
        def apply(m2, path=path):
            getd(m2, path).fields.append(FieldDef(name='zz_void999', type=prim('Void'), default=None,
                                                  doc=None, anns=[]))
        yield 'union', apply


@rule('nullable_alias_of_void')
def r_nullable_void_alias(m, rnd):
    """Void cannot be marked nullable, also when it is named through an alias."""
    for ctx, hg, attr, steps, t in type_slots(m):
        h = hg(m)
        hns = getattr(h, 'ns', None)
        if hns is None or steps or not ctx.startswith(('route_', 'alias')):
            continue

        def apply(m2, hg=hg, attr=attr, hns=hns):
            nsd = m2.ns(hns)
            h2 = hg(m2)
            nsd.defs.append(AliasDef(name='VoidAlias999', ns=hns, doc=None, type=prim('Void'), anns=[]))
            setattr(h2, attr, ref(hns, 'VoidAlias999', nullable=True))
            if getattr(h2, 'kind', None) == 'alias':
                h2.anns = []
        yield ctx, apply
    for fpath, d, f in fields_of(m):
        if f.type is None or f.default is not None:
            continue

        def apply2(m2, fpath=fpath, d=d):
            m2.ns(d.ns).defs.append(AliasDef(name='VoidAlias999', ns=d.ns, doc=None, type=prim('Void'), anns=[]))
            f2 = getf(m2, fpath)
            f2.type = ref(d.ns, 'VoidAlias999', nullable=True)
            f2.anns = []
        yield d.kind + '_field', apply2


@rule('annotation_type_qualified_with_own_namespace')
def r_ann_own_ns(m, rnd):
    """A namespace is not imported into itself: `ns.Type` inside ns does not resolve."""
    for path, d in defs(m, ('annotation',)):
        if not isinstance(d.atype, str) and d.atype[1] == d.ns:
            def apply(m2, path=path):
                getd(m2, path).qualify_own = True
            yield 'custom_annotation', apply


@rule('void_nullable')
def r_void_nullable(m, rnd):
    for path, d in defs(m, ('route',)):
        for slot in ('arg', 'result', 'error'):
            def apply(m2, path=path, slot=slot):
                setattr(getd(m2, path), slot, prim('Void', nullable=True))
            yield 'route_' + slot, apply


@rule('nullable_of_nullable')
def r_nullable_nullable(m, rnd):
    for ctx, hg, attr, steps, t in type_slots(m):
        if t.kind == 'ref' and not t.nullable and m.is_nullable(t):
            def apply(m2, hg=hg, attr=attr, steps=steps, t=t):
                set_nav(hg(m2), attr, steps, t.copy(nullable=True))
            yield ctx + '+via_alias', apply


@rule('nullable_of_nullable_via_alias_chain')
def r_nullable_chain(m, rnd):
    """`Outer?` where Outer = Inner and Inner = String? (or Void), with Outer defined
    before the reference and Inner after it: nothing about the order makes it legal."""
    for ni, ns in enumerate(m.namespaces):
        for inner_t, label in ((prim('String', nullable=True), 'nullable'), (prim('Void'), 'void')):
            for order in ('outer_ref_inner', 'inner_outer_ref', 'ref_outer_inner'):
                def apply(m2, ni=ni, inner_t=inner_t, order=order):
                    nsd = m2.namespaces[ni]
                    inner = AliasDef(name='ChainInner999', ns=nsd.name, doc=None, type=inner_t, anns=[])
                    outer = AliasDef(name='ChainOuter999', ns=nsd.name, doc=None,
                                     type=ref(nsd.name, 'ChainInner999'), anns=[])
                    use = AliasDef(name='ChainRef999', ns=nsd.name, doc=None,
                                   type=ref(nsd.name, 'ChainOuter999', nullable=True), anns=[])
                    by = {'outer': outer, 'ref': use, 'inner': inner}
                    nsd.defs.extend(by[k] for k in order.split('_'))
                yield label + '+' + order, apply


@rule('default_on_nullable')
def r_default_nullable(m, rnd):
    for fpath, d, f in fields_of(m, ('struct',)):
        if f.type.nullable and f.type.kind == 'prim' and f.type.name in ('String', 'Int32', 'Int64', 'UInt32', 'UInt64', 'Boolean'):
            def apply(m2, fpath=fpath, f=f):
                if f.type.name == 'String':
                    v = _str_for(f.type)
                elif f.type.name == 'Boolean':
                    v = True
                else:
                    v = _int_for(f.type)
                getf(m2, fpath).default = ('lit', v)
            yield 'direct' + ('+patched' if fpath[1] == 'patch_fields' else ''), apply


def _int_for(t):
    lo, hi = PRIM_INTS[t.name]
    mn = t.args.get('min_value', lo)
    return mn


def _str_for(t):
    from .model import PATTERNS
    pat = t.args.get('pattern')
    if pat:
        for p in PATTERNS:
            if p[0] == pat:
                return p[1][0]
    return 'x' * (t.args.get('min_length') or 0)


@rule('default_wrong_kind')
def r_default_wrong_kind(m, rnd):
    for fpath, d, f in fields_of(m, ('struct',)):
        rt, nullable = m.resolve_alias(f.type)
        if nullable or rt.kind != 'prim' or rt.name in ('Bytes', 'Timestamp'):
            continue
        bad = {'String': 5, 'Boolean': 'yes'}.get(rt.name, 'text')
        if rt.name in PRIM_INTS:
            bad = rnd.choice(['text', 1.5, True]) if False else rnd.choice(['text', 1.5])

        def apply(m2, fpath=fpath, bad=bad):
            getf(m2, fpath).default = ('lit', bad)
        yield rt.name + ('+via_alias' if f.type.kind == 'ref' else '') + \
            ('+patched' if fpath[1] == 'patch_fields' else ''), apply


@rule('default_out_of_bounds')
def r_default_oob(m, rnd):
    for fpath, d, f in fields_of(m, ('struct',)):
        rt, nullable = m.resolve_alias(f.type)
        if nullable or rt.kind != 'prim':
            continue
        bad = None
        if rt.name in PRIM_INTS:
            lo, hi = PRIM_INTS[rt.name]
            mx = rt.args.get('max_value', hi)
            bad = mx + 1
            tag = 'int_max' if 'max_value' in rt.args else 'int_inherent'
        elif rt.name == 'String' and rt.args.get('max_length') is not None:
            bad = 'x' * (rt.args['max_length'] + 1)
            tag = 'max_length'
        elif rt.name == 'String' and rt.args.get('min_length'):
            bad = 'x' * (rt.args['min_length'] - 1)
            tag = 'min_length'
        elif rt.name == 'String' and rt.args.get('pattern'):
            from .model import PATTERNS
            pp = [p for p in PATTERNS if p[0] == rt.args['pattern']][0]
            if rnd.random() < 0.5:
                bad, tag = pp[3][0], 'pattern'
            else:
                bad, tag = rnd.choice(pp[2]), 'pattern_prefix_only'
        elif rt.name in PRIM_FLOATS and rt.args.get('max_value') is not None:
            bad = (float(rt.args['max_value']) + abs(float(rt.args['max_value'])) + 1.0) if abs(rt.args['max_value']) < 1e300 else None
            tag = 'float_max'
        if bad is None:
            continue

        def apply(m2, fpath=fpath, bad=bad):
            getf(m2, fpath).default = ('lit', bad)
        yield tag + ('+via_alias' if f.type.kind == 'ref' else ''), apply


@rule('default_tag_invalid')
def r_default_tag(m, rnd):
    for fpath, d, f in fields_of(m, ('struct',)):
        tgt = m.target(f.type)
        if tgt is None or tgt.kind != 'union' or m.is_nullable(f.type):
            continue

        def apply(m2, fpath=fpath):
            getf(m2, fpath).default = ('tag', 'no_tag999')
        yield 'unknown_tag' + ('+via_alias' if m.lookup(f.type.ns, f.type.name).kind == 'alias' else ''), apply
        typed = [x for x in m.union_all_fields(tgt) if x.type is not None]
        if typed:
            def apply2(m2, fpath=fpath, tn=typed[0].name):
                getf(m2, fpath).default = ('tag', tn)
            yield 'non_void_tag', apply2


@rule('default_on_composite')
def r_default_composite(m, rnd):
    for fpath, d, f in fields_of(m, ('struct',)):
        rt, nullable = m.resolve_alias(f.type)
        if nullable:
            continue
        if rt.kind in ('list', 'map'):
            kind = rt.kind
        elif rt.kind == 'ref' and m.lookup(rt.ns, rt.name).kind == 'struct':
            kind = 'struct'
        else:
            continue

        def apply(m2, fpath=fpath):
            getf(m2, fpath).default = ('lit', 5)
        yield kind, apply


def _type_text_rule(name, make, want=lambda t: True, implicit=False):
    """Replace a primitive type slot with a deliberately ill-formed type text."""
    @rule(name, implicit)
    def r(m, rnd):
        for ctx, hg, attr, steps, t in type_slots(m):
            if t.kind == 'ref' or not want(t):
                continue
            if ctx.startswith('route_') and not steps:
                pass

            def apply(m2, hg=hg, attr=attr, steps=steps, t=t):
                set_nav(hg(m2), attr, steps, T('raw', make(t), None, None, False))
            yield ctx, apply
    return r


_type_text_rule('unknown_keyword_argument', lambda t: 'String(foo=1)', lambda t: t.name == 'String')
_type_text_rule('positional_as_keyword', lambda t: 'List(data_type=String)', lambda t: t.kind == 'list')
_type_text_rule('missing_positional', lambda t: 'List()' if t.kind == 'list' else 'Timestamp',
                lambda t: t.kind == 'list' or t.name == 'Timestamp')
_type_text_rule('surplus_positional', lambda t: 'String(3)' if t.name == 'String' else 'Int32(1, 2, 3)',
                lambda t: t.name in ('String', 'Int32'))
_type_text_rule('duplicate_keyword_argument', lambda t: 'String(min_length=1, min_length=2)',
                lambda t: t.name == 'String')
_type_text_rule('min_greater_than_max',
                lambda t: 'String(min_length=5, max_length=2)' if t.name == 'String'
                else 'List(String, min_items=3, max_items=1)',
                lambda t: t.name == 'String' or t.kind == 'list')
_type_text_rule('numeric_min_greater_than_max',
                lambda t: t.name + ('(min_value=5, max_value=2)' if t.name in PRIM_INTS
                                    else '(min_value=5.0, max_value=2.0)'),
                lambda t: t.name in PRIM_INTS or t.name in PRIM_FLOATS)
_type_text_rule('numeric_min_greater_than_max_with_zero_bound',
                lambda t: t.name + {'UInt32': '(min_value=1, max_value=0)', 'UInt64': '(min_value=7, max_value=0)',
                                    'Int32': '(min_value=0, max_value=-5)', 'Int64': '(min_value=3, max_value=0)',
                                    'Float32': '(min_value=0, max_value=-0.5)',
                                    'Float64': '(min_value=2.5, max_value=0.0)'}[t.name],
                lambda t: t.name in PRIM_INTS or t.name in PRIM_FLOATS)
_type_text_rule('boolean_as_numeric_bound',
                lambda t: t.name + '(min_value=true)' if t.name != 'String' else 'String(min_length=true)',
                lambda t: t.name in PRIM_INTS or t.name in PRIM_FLOATS)
_type_text_rule('negative_length', lambda t: 'String(min_length=-1)' if t.name == 'String'
                else 'List(String, min_items=-1)', lambda t: t.name == 'String' or t.kind == 'list')
_type_text_rule('zero_max', lambda t: 'String(max_length=0)' if t.name == 'String'
                else 'List(String, max_items=0)', lambda t: t.name == 'String' or t.kind == 'list')
_type_text_rule('non_integer_bound', lambda t: 'String(min_length=1.5)' if t.name == 'String'
                else ('List(String, max_items="x")' if t.kind == 'list' else t.name + '(min_value="a")'),
                lambda t: t.name == 'String' or t.kind == 'list' or t.name in PRIM_INTS)
_type_text_rule('bound_outside_type_range', lambda t: t.name + '(max_value=99999999999999999999999)',
                lambda t: t.name in PRIM_INTS)
_type_text_rule('invalid_regex', lambda t: 'String(pattern="(")', lambda t: t.name == 'String')
_type_text_rule('non_string_pattern', lambda t: 'String(pattern=5)', lambda t: t.name == 'String')
_type_text_rule('non_string_map_key', lambda t: 'Map(Int32, String)', lambda t: t.kind == 'map')
_type_text_rule('non_string_timestamp_format', lambda t: 'Timestamp(5)', lambda t: t.name == 'Timestamp')
_type_text_rule('literal_as_type_argument', lambda t: 'List(3)', lambda t: t.kind == 'list')
_type_text_rule('float_bound_not_number', lambda t: t.name + '(min_value="a")',
                lambda t: t.name in PRIM_FLOATS)


def _holder_namespace(m, holder):
    for ns in m.namespaces:
        for d in ns.defs:
            if d is holder or any(f is holder for lst in ('fields', 'patch_fields')
                                  for f in getattr(d, lst, ())):
                return ns
    return None


@rule('qualified_builtin_type')
def r_qualified_builtin(m, rnd):
    """A built-in type named through an imported namespace (`other.String`, `other.List(T)`): the other
    namespace defines no such symbol, so the reference does not resolve."""
    for ctx, hg, attr, steps, t in type_slots(m):
        if t.kind == 'ref' or t.kind == 'raw':
            continue
        ns = _holder_namespace(m, hg(m))
        if ns is None or not ns.imports:
            continue
        imp = ns.imports[rnd.randrange(len(ns.imports))]
        imp = getattr(imp, 'name', imp)
        text = {'prim': t.name, 'list': 'List(String)', 'map': 'Map(String, String)'}[t.kind]
        if t.name == 'Timestamp':
            text = 'Timestamp("%Y")'
        if t.name == 'Void':
            continue

        def apply(m2, hg=hg, attr=attr, steps=steps, text=text, imp=imp, t=t):
            set_nav(hg(m2), attr, steps, T('raw', '%s.%s%s' % (imp, text, '?' if t.nullable else ''),
                                           None, None, False))
        yield ctx + '+' + t.kind, apply


@rule('arguments_on_user_type')
def r_args_on_user_type(m, rnd):
    for ctx, hg, attr, steps, t in type_slots(m):
        if t.kind != 'ref':
            continue

        def apply(m2, hg=hg, attr=attr, steps=steps, t=t, hns=None):
            h = hg(m2)
            owner_ns = getattr(h, 'ns', None)
            set_nav(h, attr, steps, T('rawref', t.name, t.ns, {'suffix': '(1)'}, t.nullable))
        yield ctx + ('+alias' if m.lookup(t.ns, t.name).kind == 'alias' else ''), apply


@rule('alias_cycle')
def r_alias_cycle(m, rnd):
    for path, d in defs(m, ('alias',)):
        if d.type.kind == 'ref' and d.type.ns == d.ns:
            tgt = m.lookup(d.type.ns, d.type.name)
            if tgt.kind == 'alias':
                def apply(m2, path=path, d=d, tgt=tgt):
                    m2.lookup(tgt.ns, tgt.name).type = ref(d.ns, d.name)
                yield 'length2', apply

        def apply2(m2, path=path, d=d):
            getd(m2, path).type = ref(d.ns, d.name)
        yield 'length1', apply2

        # an alias holding itself as a list item / map value has no finite definition
        for wrap in ('list', 'map', 'list_nullable', 'map_of_list'):
            def apply3(m2, path=path, d=d, wrap=wrap):
                me = ref(d.ns, d.name)
                if wrap == 'list':
                    t = T('list', args={'item': me, 'min_items': None, 'max_items': None})
                elif wrap == 'list_nullable':
                    t = T('list', args={'item': me, 'min_items': None, 'max_items': None}, nullable=True)
                elif wrap == 'map':
                    t = T('map', args={'key': prim('String'), 'value': me})
                else:
                    t = T('map', args={'key': prim('String'), 'value':
                                       T('list', args={'item': me, 'min_items': None, 'max_items': None})})
                a = getd(m2, path)
                a.type = t
                a.anns = []
            yield 'through_' + wrap, apply3


@rule('route_used_as_type')
def r_route_as_type(m, rnd):
    for ctx, hg, attr, steps, t in type_slots(m):
        h = hg(m)
        hns = getattr(h, 'ns', None)
        if hns is None:
            continue
        rs = [x for x in m.ns(hns).defs if x.kind == 'route' and '/' not in x.name]
        if rs and t.kind == 'prim' and not steps:
            def apply(m2, hg=hg, attr=attr, steps=steps, r=rs[0]):
                set_nav(hg(m2), attr, steps, ref(r.ns, r.name))
            yield ctx, apply


@rule('annotation_used_as_type')
def r_annotation_as_type(m, rnd):
    """Annotations and annotation types live in the namespace's symbol table but
    are not types: naming one in a type position is an unresolved type reference."""
    def cands(nsname):
        return [x for x in m.ns(nsname).defs if x.kind in ('annotation', 'annotation_type')]
    for fpath, d, f in fields_of(m):
        if f.type is None:
            continue
        for steps, t in sub_types(f.type):
            if t.kind != 'prim':
                continue
            for c in cands(d.ns)[:2]:
                def apply(m2, fpath=fpath, steps=steps, c=c):
                    set_nav(getf(m2, fpath), 'type', steps, T('raw', c.name, None, None, False))
                yield '%s_%s%s' % (d.kind, c.kind, ''.join('>' + x for x in steps)), apply
    for ctx, hg, attr, steps, t in type_slots(m):
        hns = getattr(hg(m), 'ns', None)
        if hns is None or t.kind not in ('prim', 'ref'):
            continue
        for c in cands(hns)[:2]:
            def apply(m2, hg=hg, attr=attr, steps=steps, c=c):
                set_nav(hg(m2), attr, steps, T('raw', c.name, None, None, False))
            yield '%s_%s' % (ctx, c.kind), apply
    for path, d in defs(m, ('struct', 'union')):
        for c in cands(d.ns)[:2]:
            if d.kind == 'struct' and not d.subtypes:
                def apply(m2, path=path, c=c):
                    getd(m2, path).parent = (c.ns, c.name)
                yield 'extends_%s' % c.kind, apply


# ---------------------------------------------------------------- E. examples

def examples_of(m):
    for path, d in defs(m, ('struct', 'union')):
        for ei, ex in enumerate(d.examples):
            yield (path, ei), d, ex


def getex(m2, epath):
    return getd(m2, epath[0]).examples[epath[1]]


@rule('example_unknown_field')
def r_ex_unknown_field(m, rnd):
    for epath, d, ex in examples_of(m):
        if d.kind == 'struct' and not d.subtypes and ex.values:
            def apply(m2, epath=epath):
                getex(m2, epath).values['no_field999'] = ('lit', 1)
            yield 'struct' + ('+child' if d.parent else '') + ('+patched' if d.patch_fields else ''), apply


@rule('example_missing_required')
def r_ex_missing(m, rnd):
    for epath, d, ex in examples_of(m):
        if d.kind == 'struct' and not d.subtypes:
            req = [f for f in m.struct_all_fields(d) if f.default is None and not m.is_nullable(f.type)
                   and f.name in ex.values]
            for f in req[:2]:
                if len(ex.values) < 2:
                    continue
                inherited = f not in m.own_fields(d)

                def apply(m2, epath=epath, f=f):
                    del getex(m2, epath).values[f.name]
                yield ('inherited' if inherited else 'own') + \
                    ('+patched_field' if f in d.patch_fields else ''), apply


@rule('example_wrong_kind')
def r_ex_wrong_kind(m, rnd):
    for epath, d, ex in examples_of(m):
        if d.kind == 'struct' and d.subtypes:
            continue
        fs = m.struct_all_fields(d) if d.kind == 'struct' else m.union_all_fields(d, False)
        for f in fs:
            if f.name not in ex.values or f.type is None:
                continue
            rt, nullable = m.resolve_alias(f.type)
            if rt.kind == 'prim':
                bad = {'String': ('lit', 5), 'Boolean': ('lit', 'yes'), 'Bytes': ('lit', 5),
                       'Timestamp': ('lit', 5)}.get(rt.name, ('lit', 'text'))
                k = rt.name
            elif rt.kind == 'list':
                bad, k = ('lit', 5), 'list'
            elif rt.kind == 'map':
                continue
            else:
                bad, k = ('lit', 5), 'user_type'

            def apply(m2, epath=epath, f=f, bad=bad):
                getex(m2, epath).values[f.name] = bad
            yield '%s+%s%s' % (d.kind, k, '+via_alias' if f.type.kind == 'ref' and rt is not f.type else ''), apply


@rule('example_out_of_bounds')
def r_ex_oob(m, rnd):
    for epath, d, ex in examples_of(m):
        if d.kind == 'struct' and d.subtypes:
            continue
        fs = m.struct_all_fields(d) if d.kind == 'struct' else m.union_all_fields(d, False)
        for f in fs:
            if f.name not in ex.values or f.type is None:
                continue
            rt, nullable = m.resolve_alias(f.type)
            bad = None
            if rt.kind == 'prim' and rt.name in PRIM_INTS:
                bad, k = ('lit', rt.args.get('max_value', PRIM_INTS[rt.name][1]) + 1), 'int'
            elif rt.kind == 'prim' and rt.name == 'String' and rt.args.get('max_length') is not None:
                bad, k = ('lit', 'x' * (rt.args['max_length'] + 1)), 'string'
            elif rt.kind == 'list' and rt.args.get('max_items') is not None and \
                    rt.args['item'].kind == 'prim' and rt.args['item'].name == 'String' and \
                    not rt.args['item'].args:
                bad, k = ('list', [('lit', 'a')] * (rt.args['max_items'] + 1)), 'list_items'
            elif rt.kind == 'list' and rt.args['item'].kind == 'prim' and rt.args['item'].name in PRIM_INTS \
                    and (rt.args.get('max_items') or 9) >= max(1, rt.args.get('min_items') or 0):
                it = rt.args['item']
                n = max(1, rt.args.get('min_items') or 0)
                bad, k = ('list', [('lit', it.args.get('max_value', PRIM_INTS[it.name][1]) + 1)] * n), 'list_element'
            if bad is None:
                continue

            def apply(m2, epath=epath, f=f, bad=bad):
                getex(m2, epath).values[f.name] = bad
            yield '%s+%s' % (d.kind, k), apply


def _bad_leaf(rt):
    """(ctx, bad example value) list for a primitive position."""
    out = []
    n = rt.name
    out.append(('kind', {'String': ('lit', 5), 'Boolean': ('lit', 'yes'), 'Bytes': ('lit', 5),
                         'Timestamp': ('lit', 5)}.get(n, ('lit', 'text'))))
    if n in PRIM_INTS:
        out.append(('above_max', ('lit', rt.args.get('max_value', PRIM_INTS[n][1]) + 1)))
        out.append(('below_min', ('lit', rt.args.get('min_value', PRIM_INTS[n][0]) - 1)))
    if n == 'String':
        if rt.args.get('max_length') is not None:
            out.append(('too_long', ('lit', 'x' * (rt.args['max_length'] + 1))))
        if rt.args.get('min_length'):
            out.append(('too_short', ('lit', 'x' * (rt.args['min_length'] - 1))))
        if rt.args.get('pattern'):
            out.append(('pattern', ('lit', 'NOT OK 9!')))
    if n == 'Timestamp':
        out.append(('format', ('lit', 'not a date')))
    return out


def _bad_nested(m, t, ev, depth=0):
    """One-step-invalid variants of example value ev (typed t), at every nesting position."""
    if t is None or ev is None or depth > 4:
        return
    rt, _ = m.resolve_alias(t)
    if ev[0] == 'lit' and rt.kind == 'prim':
        for c, bad in _bad_leaf(rt):
            yield rt.name + ':' + c, bad
    elif ev[0] == 'list' and rt.kind == 'list':
        items = list(ev[1])
        mx, mn = rt.args.get('max_items'), rt.args.get('min_items')
        if items and mx is not None:
            yield 'list:too_many', ('list', items + [items[-1]] * (mx + 1 - len(items)))
        if mn:
            yield 'list:too_few', ('list', items[:mn - 1])
        for i in sorted({0, len(items) - 1} if items else ()):
            for c, bad in _bad_nested(m, rt.args['item'], items[i], depth + 1):
                yield 'item>' + c, ('list', items[:i] + [bad] + items[i + 1:])
    elif ev[0] == 'map' and rt.kind == 'map':
        entries = list(ev[1])
        kt = rt.args['key']
        for i in sorted({0, len(entries) - 1} if entries else ()):
            k, v = entries[i]
            for c, bad in _bad_nested(m, rt.args['value'], v, depth + 1):
                yield 'value>' + c, ('map', entries[:i] + [(k, bad)] + entries[i + 1:])
            for c, bad in _bad_leaf(kt):
                if c != 'kind' and isinstance(bad[1], str) and all(bad[1] != kk for kk, _ in entries):
                    yield 'key:' + c, ('map', entries[:i] + [(bad[1], v)] + entries[i + 1:])


@rule('example_nested_value_invalid')
def r_ex_nested(m, rnd):
    """Examples must fit their types at every depth: list items, map values and map
    keys are held to the same constraints as a top-level field value."""
    for epath, d, ex in examples_of(m):
        if d.kind == 'struct' and d.subtypes:
            continue
        fs = m.struct_all_fields(d) if d.kind == 'struct' else m.union_all_fields(d, False)
        for f in fs:
            if f.name not in ex.values or f.type is None:
                continue
            for ctx, bad in _bad_nested(m, f.type, ex.values[f.name]):
                if '>' not in ctx and not ctx.startswith(('list:', 'key:')):
                    continue        # top-level leaves belong to example_wrong_kind / _out_of_bounds

                def apply(m2, epath=epath, f=f, bad=bad):
                    getex(m2, epath).values[f.name] = bad
                yield d.kind + '+' + ctx, apply


@rule('example_unknown_label')
def r_ex_unknown_label(m, rnd):
    for epath, d, ex in examples_of(m):
        for name, ev in ex.values.items():
            if ev[0] == 'ref':
                def apply(m2, epath=epath, name=name):
                    getex(m2, epath).values[name] = ('ref', 'no_label999')
                yield d.kind + ('+subtype_root' if getattr(d, 'subtypes', None) else ''), apply
            elif ev[0] == 'list' and ev[1] and ev[1][0][0] == 'ref':
                def apply2(m2, epath=epath, name=name):
                    v = getex(m2, epath).values[name]
                    getex(m2, epath).values[name] = ('list', [('ref', 'no_label999')] + list(v[1][1:]))
                yield d.kind + '+in_list', apply2


@rule('duplicate_example_label')
def r_ex_dup_label(m, rnd):
    for epath, d, ex in examples_of(m):
        def apply(m2, epath=epath):
            d2 = getd(m2, epath[0])
            d2.examples.append(copy.deepcopy(d2.examples[epath[1]]))
        yield d.kind, apply


@rule('union_example_two_tags')
def r_union_ex_two(m, rnd):
    for epath, d, ex in examples_of(m):
        if d.kind == 'union':
            tags = [f for f in m.union_all_fields(d, False) if f.type is None and f.name not in ex.values]
            if tags:
                def apply(m2, epath=epath, t=tags[0]):
                    getex(m2, epath).values[t.name] = ('null',)
                yield 'union', apply


@rule('union_example_unknown_tag')
def r_union_ex_unknown(m, rnd):
    for epath, d, ex in examples_of(m):
        if d.kind == 'union':
            def apply(m2, epath=epath):
                e = getex(m2, epath)
                e.values = type(e.values)([('no_tag999', ('null',))])
            yield 'union' + ('+child' if d.parent else ''), apply


@rule('union_example_void_not_null')
def r_union_ex_void(m, rnd):
    for epath, d, ex in examples_of(m):
        if d.kind == 'union':
            for name, ev in ex.values.items():
                if ev == ('null',) and any(f.name == name and f.type is None
                                          for f in m.union_all_fields(d, False)):
                    def apply(m2, epath=epath, name=name):
                        getex(m2, epath).values[name] = ('lit', 5)
                    yield 'union', apply


@rule('patched_example_without_base')
def r_patch_example_no_base(m, rnd):
    for path, d in defs(m, ('struct', 'union')):
        if d.patch_fields:
            f = d.patch_fields[0]
            if d.kind == 'struct' and not (f.type.nullable or f.default is not None):
                continue   # a required patched field would already need examples

            def apply(m2, path=path):
                def edit(files, rnd2, d=d):
                    out = []
                    done = False
                    for p, t in files:
                        key = 'patch %s %s\n' % ('struct' if d.kind == 'struct' else
                                                 ('union_closed' if d.closed else 'union'), d.name)
                        if key in t and not done:
                            t = t.rstrip('\n') + '\n    example no_label999\n'
                            # append to end of patch only if patch is last block: rebuild instead
                            done = True
                        out.append((p, t))
                    return out
                return None
            # handled structurally instead:

            def apply2(m2, path=path):
                d2 = getd(m2, path)
                f2 = d2.patch_fields[0]
                vals = type(d2.examples[0].values)() if d2.examples else None
                from collections import OrderedDict
                v = OrderedDict()
                if d2.kind == 'union':
                    v[f2.name] = ('null',) if (f2.type is None or f2.type.nullable) else None
                else:
                    v[f2.name] = ('null',) if f2.type.nullable else f2.default
                if v[f2.name] is None or v[f2.name][0] == 'tag':
                    v[f2.name] = ('lit', 1)
                d2.examples.append(ExampleDef(label='no_label999', doc=None, values=v, patch_only=True))
            yield d.kind, apply2


# ---------------------------------------------------------------- F. routes

@rule('route_version_not_positive')
def r_route_version(m, rnd):
    for path, d in defs(m, ('route',)):
        if d.version == 1 and sum(1 for x in m.defs('route') if x.name == d.name and x.ns == d.ns) == 1:
            for v in (0, -1):
                def apply(m2, path=path, v=v):
                    getd(m2, path).version = v
                yield 'v%d' % v, apply


@rule('route_attr_unknown_key')
def r_attr_unknown(m, rnd):
    for path, d in defs(m, ('route',)):
        def apply(m2, path=path):
            getd(m2, path).attrs['no_attr999'] = ('lit', 1)
        yield 'with_cfg' if m.cfg else 'no_cfg', apply


@rule('route_attr_duplicate_key')
def r_attr_dup(m, rnd):
    for path, d in defs(m, ('route',)):
        if d.attrs:
            def apply(m2, path=path):
                d2 = getd(m2, path)
                k = next(iter(d2.attrs))
                d2.dup_attr = k
            yield 'route', apply


@rule('route_attr_wrong_kind')
def r_attr_wrong(m, rnd):
    for path, d in defs(m, ('route',)):
        for f in m.cfg_fields:
            if f.type.kind == 'prim' and f.type.name != 'Bytes':
                bad = {'String': ('lit', 5), 'Boolean': ('lit', 'yes'), 'Timestamp': ('lit', 5)}.get(
                    f.type.name, ('lit', 'text'))
            elif f.type.kind == 'ref':
                bad = ('lit', 5)
            else:
                continue

            def apply(m2, path=path, f=f, bad=bad):
                getd(m2, path).attrs[f.name] = bad
            yield (f.type.name if f.type.kind == 'prim' else 'union') + \
                ('+nullable' if f.type.nullable else ''), apply


@rule('route_attr_unknown_tag')
def r_attr_unknown_tag(m, rnd):
    for path, d in defs(m, ('route',)):
        for f in m.cfg_fields:
            if f.type.kind == 'ref':
                def apply(m2, path=path, f=f):
                    getd(m2, path).attrs[f.name] = ('tag', 'no_tag999')
                yield 'union', apply


@rule('route_attr_missing_required')
def r_attr_missing(m, rnd):
    for path, d in defs(m, ('route',)):
        for f in m.cfg_fields:
            if f.default is None and not f.type.nullable and f.name in d.attrs:
                def apply(m2, path=path, f=f):
                    del getd(m2, path).attrs[f.name]
                yield f.type.name if f.type.kind == 'prim' else 'union', apply


@rule('route_in_stone_cfg')
def r_route_in_cfg(m, rnd):
    if m.cfg:
        def apply(m2):
            m2.cfg_extra = 'route zz_r999(Void, Void, Void)\n'
        yield 'cfg', apply


@rule('type_in_stone_cfg')
def r_type_in_cfg(m, rnd):
    if m.cfg:
        def apply(m2):
            m2.cfg_extra = 'struct ZzOther999\n    f String\n'
        yield 'cfg', apply


# ---------------------------------------------------------------- G. annotations

def _anns_of_kind(m, ns, kinds):
    out = []
    for n in [ns] + list(m.ns(ns).imports):
        for d in m.ns(n).defs:
            if d.kind == 'annotation' and (d.atype if isinstance(d.atype, str) else 'custom') in kinds:
                out.append(d)
    return out


@rule('annotation_applied_twice')
def r_ann_twice(m, rnd):
    for fpath, d, f in fields_of(m):
        for a in f.anns:
            ad = m.find_ann(*a)
            if isinstance(ad.atype, str) and ad.atype in ('Omitted', 'Deprecated', 'Preview',
                                                          'RedactedBlot', 'RedactedHash'):
                def apply(m2, fpath=fpath, a=a):
                    getf(m2, fpath).anns.append(a)
                yield ad.atype + ('+tag' if d.kind == 'union' else ''), apply


@rule('two_omitted')
def r_two_omitted(m, rnd):
    for fpath, d, f in fields_of(m):
        have = [a for a in f.anns if m.find_ann(*a).atype == 'Omitted']
        others = [x for x in _anns_of_kind(m, d.ns, ('Omitted',)) if (x.ns, x.name) not in have]
        if have and others:
            def apply(m2, fpath=fpath, o=others[0]):
                getf(m2, fpath).anns.append((o.ns, o.name))
            yield d.kind, apply


@rule('two_redactors')
def r_two_redactors(m, rnd):
    for fpath, d, f in fields_of(m):
        have = [a for a in f.anns if m.find_ann(*a).atype in ('RedactedBlot', 'RedactedHash')]
        others = [x for x in _anns_of_kind(m, d.ns, ('RedactedBlot', 'RedactedHash'))
                  if (x.ns, x.name) not in have]
        if have and others:
            def apply(m2, fpath=fpath, o=others[0]):
                getf(m2, fpath).anns.append((o.ns, o.name))
            yield d.kind, apply
    for path, d in defs(m, ('alias',)):
        have = [a for a in d.anns if m.find_ann(*a).atype in ('RedactedBlot', 'RedactedHash')]
        others = [x for x in _anns_of_kind(m, d.ns, ('RedactedBlot', 'RedactedHash'))
                  if (x.ns, x.name) not in have]
        if have and others:
            def apply(m2, path=path, o=others[0]):
                getd(m2, path).anns.append((o.ns, o.name))
            yield 'alias', apply


@rule('deprecated_and_preview')
def r_dep_prev(m, rnd):
    for fpath, d, f in fields_of(m):
        kinds = {m.find_ann(*a).atype for a in f.anns if isinstance(m.find_ann(*a).atype, str)}
        for have, want in (('Deprecated', 'Preview'), ('Preview', 'Deprecated')):
            if have in kinds and want not in kinds:
                o = _anns_of_kind(m, d.ns, (want,))
                if o:
                    def apply(m2, fpath=fpath, o=o[0]):
                        getf(m2, fpath).anns.append((o.ns, o.name))
                    yield have + '_then_' + want, apply


def _redactor_user_type(m, rnd, want_alias):
    for fpath, d, f in fields_of(m):
        if f.type is None:
            kind = 'void_tag'
        else:
            cur = f.type
            steps = 0
            while cur.kind in ('list', 'map'):
                cur = cur.args['item'] if cur.kind == 'list' else cur.args['value']
                steps += 1
            if cur.kind != 'ref':
                continue
            tgt = m.lookup(cur.ns, cur.name)
            if tgt.kind == 'alias' and steps:
                continue
            kind = ('alias_ref' if tgt.kind == 'alias' else 'user_type') + ('+in_container' if steps else '')
        if any(m.find_ann(*a).atype in ('RedactedBlot', 'RedactedHash') for a in f.anns):
            continue
        o = _anns_of_kind(m, d.ns, ('RedactedBlot', 'RedactedHash'))
        if o and (kind.startswith('alias_ref') == want_alias):
            def apply(m2, fpath=fpath, o=o[0]):
                getf(m2, fpath).anns.append((o.ns, o.name))
            yield kind, apply


@rule('redactor_on_user_type')
def r_redactor_user_type(m, rnd):
    return _redactor_user_type(m, rnd, False)


# The reference does not state this rule; the compiler enforces it for direct
# alias references only (not for `Alias?`): reported, not judged.
@rule('redactor_on_alias_reference', implicit=True)
def r_redactor_alias_ref(m, rnd):
    return _redactor_user_type(m, rnd, True)


@rule('redactor_on_alias_of_redacted_alias')
def r_redactor_chain(m, rnd):
    for path, d in defs(m, ('alias',)):
        if d.type.kind == 'ref':
            tgt = m.lookup(d.type.ns, d.type.name)
            if tgt.kind == 'alias' and any(m.find_ann(*a).atype in ('RedactedBlot', 'RedactedHash')
                                           for a in tgt.anns):
                o = _anns_of_kind(m, d.ns, ('RedactedBlot', 'RedactedHash'))
                if o and not any(m.find_ann(*a).atype in ('RedactedBlot', 'RedactedHash') for a in d.anns):
                    def apply(m2, path=path, o=o[0]):
                        getd(m2, path).anns.append((o.ns, o.name))
                    yield 'alias_chain', apply


@rule('non_redactor_builtin_on_alias')
def r_omitted_on_alias(m, rnd):
    for path, d in defs(m, ('alias',)):
        for k in ('Omitted', 'Deprecated', 'Preview'):
            o = _anns_of_kind(m, d.ns, (k,))
            if o:
                def apply(m2, path=path, o=o[0]):
                    getd(m2, path).anns.append((o.ns, o.name))
                yield k, apply


@rule('custom_annotation_bad_arguments')
def r_custom_args(m, rnd):
    for path, d in defs(m, ('annotation',)):
        if isinstance(d.atype, str):
            continue
        at = m.find_anntype(d.atype[1], d.atype[2])

        def surplus(m2, path=path, at=at):
            d2 = getd(m2, path)
            d2.kwargs = {}
            d2.args = [1] * (len(at.params) + 1)
        yield 'surplus_positional', surplus

        def unknown(m2, path=path):
            d2 = getd(m2, path)
            d2.args = []
            d2.kwargs['no_param999'] = 1
        yield 'unknown_keyword', unknown
        req = [p for p in at.params if p.default is None and not p.type.nullable]
        if req:
            def missing(m2, path=path):
                d2 = getd(m2, path)
                d2.args, d2.kwargs = [], {}
            yield 'missing_required', missing
        if at.params:
            p = at.params[0]
            bad = 5 if p.type.name in ('String', 'Boolean') else 'text'

            def illtyped(m2, path=path, p=p, bad=bad):
                d2 = getd(m2, path)
                d2.args = []
                d2.kwargs[p.name] = bad
            yield 'ill_typed', illtyped
        if len(at.params) >= 2:
            def mixed(m2, path=path, at=at):
                from .model import Gen
                d2 = getd(m2, path)
                g = Gen(1)
                d2.args = [g.ann_arg(at.params[0])]
                d2.kwargs = {at.params[1].name: g.ann_arg(at.params[1])}
            yield 'mixed', mixed


@rule('annotation_type_bad_parameter')
def r_anntype_param(m, rnd):
    for path, d in defs(m, ('annotation_type',)):
        def nonprim(m2, path=path):
            getd(m2, path).params.append(FieldDef(
                name='zz_p999', type=T('list', args={'item': prim('String'), 'min_items': None,
                                                     'max_items': None}, nullable=True),
                default=None, doc=None, anns=[]))
        yield 'non_primitive', nonprim

        def voidp(m2, path=path):
            getd(m2, path).params.append(FieldDef(name='zz_p999', type=prim('Void'), default=None,
                                                  doc=None, anns=[]))
        yield 'void', voidp
        if d.params:
            def dup(m2, path=path):
                d2 = getd(m2, path)
                c = copy.deepcopy(d2.params[0])
                c.doc = None
                d2.params.append(c)
            yield 'duplicate_parameter', dup

        def nd(m2, path=path):
            getd(m2, path).params.append(FieldDef(name='zz_p999', type=prim('String', nullable=True),
                                                  default=('lit', 'x'), doc=None, anns=[]))
        yield 'nullable_with_default', nd

        def baddef(m2, path=path):
            getd(m2, path).params.append(FieldDef(name='zz_p999', type=prim('Int32'),
                                                  default=('lit', 'text'), doc=None, anns=[]))
        yield 'ill_typed_default', baddef
        anns = _anns_of_kind(m, d.ns, ('Deprecated', 'Preview', 'Omitted'))
        if anns:
            def annp(m2, path=path, a=anns[0]):
                getd(m2, path).params.append(FieldDef(name='zz_p999', type=prim('String', nullable=True),
                                                      default=None, doc=None, anns=[(a.ns, a.name)]))
            yield 'annotated_parameter', annp


@rule('redefine_builtin_annotation_type')
def r_redefine_builtin(m, rnd):
    for ni, ns in enumerate(m.namespaces):
        for nm in ('Omitted', 'Deprecated'):
            def apply(m2, ni=ni, nm=nm):
                n = m2.namespaces[ni]
                n.defs.append(AnnTypeDef(name=nm, ns=n.name, doc=Doc([['x']]), params=[]))
            yield nm, apply


@rule('builtin_annotation_bad_arguments')
def r_builtin_args(m, rnd):
    for path, d in defs(m, ('annotation',)):
        if d.atype == 'Omitted':
            def apply(m2, path=path):
                getd(m2, path).args = []
            yield 'omitted_missing', apply
        if d.atype in ('Deprecated', 'Preview'):
            def apply2(m2, path=path):
                getd(m2, path).args = ['x']
            yield d.atype + '_surplus', apply2


# ---------------------------------------------------------------- H. syntax / files

def _lines_edit(fn):
    def edit(files, rnd2):
        return fn(files, rnd2)
    return edit


@rule('missing_namespace_header')
def r_missing_header(m, rnd):
    for ni, ns in enumerate(m.namespaces):
        def apply(m2, ni=ni, name=ns.name):
            def edit(files, rnd2):
                out, done = [], False
                for p, t in files:
                    ls = t.split('\n')
                    if not done and ls[0] == 'namespace ' + name:
                        k = 1
                        while k < len(ls) and (ls[k].startswith('    ') or not ls[k].strip()):
                            k += 1
                        t = '\n'.join(ls[k:])
                        done = bool(t.strip())
                        if not done:
                            t = '\n'.join(ls)
                    out.append((p, t))
                return out if done else None
            return edit
        yield 'file', apply


@rule('two_namespace_headers')
def r_two_headers(m, rnd):
    for ni, ns in enumerate(m.namespaces):
        def apply(m2, ni=ni, name=ns.name):
            def edit(files, rnd2):
                out, done = [], False
                for p, t in files:
                    if not done and t.startswith('namespace ' + name + '\n'):
                        t = t.rstrip('\n') + '\n\nnamespace %s\n' % rnd2.choice([name, 'second_ns'])
                        done = True
                    out.append((p, t))
                return out
            return edit
        yield 'end_of_file', apply


def _pick_line(files, rnd2, pred):
    cands = []
    for fi, (p, t) in enumerate(files):
        ls = t.split('\n')
        in_str = False
        for li, ln in enumerate(ls):
            q = len([c for c in ln.replace('\\\\', '').replace('\\"', '') if c == '"'])
            if not in_str and pred(ln):
                cands.append((fi, li))
            if q % 2:
                in_str = not in_str
    if not cands:
        return None
    return rnd2.choice(cands)


def _edit_line(files, where_, fn):
    fi, li = where_
    p, t = files[fi]
    ls = t.split('\n')
    ls[li] = fn(ls[li])
    out = list(files)
    out[fi] = (p, '\n'.join(ls))
    return out


@rule('indent_not_multiple_of_four')
def r_bad_indent(m, rnd):
    def apply(m2):
        def edit(files, rnd2):
            w = _pick_line(files, rnd2, lambda ln: ln.startswith('    ') and ln.strip() and
                           not ln.strip().startswith('"') and ln.count('"') % 2 == 0)
            if w is None:
                return None
            return _edit_line(files, w, lambda ln: rnd2.choice([' ', '  ', '   ']) + ln)
        return edit
    for k in range(3):
        yield 'line', apply


@rule('illegal_character')
def r_illegal_char(m, rnd):
    def apply(m2):
        def edit(files, rnd2):
            w = _pick_line(files, rnd2, lambda ln: ln.strip() and '"' not in ln and '#' not in ln)
            if w is None:
                return None
            ch = rnd2.choice(['$', '!', ';', '~', '`', '%', '^', '&', '\\', '|', '<'])
            return _edit_line(files, w, lambda ln: ln + ' ' + ch)
        return edit
    for k in range(3):
        yield 'end_of_line', apply


@rule('unterminated_string')
def r_unterminated(m, rnd):
    def apply(m2):
        def edit(files, rnd2):
            w = _pick_line(files, rnd2, lambda ln: ln.strip().startswith('"') and ln.rstrip().endswith('"')
                           and ln.count('"') == 2)
            if w is None:
                return None
            fi, li = w
            p, t = files[fi]
            if '"' in '\n'.join(t.split('\n')[li + 1:]):
                return None   # a later quote would terminate it: different meaning, still maybe legal
            return _edit_line(files, w, lambda ln: ln.rstrip()[:-1])
        return edit
    for k in range(3):
        yield 'doc', apply


@rule('continuation_not_indented')
def r_bad_continuation(m, rnd):
    for path, d in defs(m, ('route',)):
        def apply(m2, path=path, d=d):
            def edit(files, rnd2):
                out, done = [], False
                nm = d.name + ('' if d.version == 1 else ':%d' % d.version)
                for p, t in files:
                    ls = t.split('\n')
                    for i, ln in enumerate(ls):
                        if not done and ln.startswith('route %s(' % nm) and ln.count('(') == ln.count(')') \
                                and '"' not in ln:
                            head, rest = ln.split('(', 1)
                            ind = rnd2.choice(['', '        ', '  '])
                            ls[i] = head + '(\n' + ind + rest
                            done = True
                    out.append((p, '\n'.join(ls)))
                return out if done else None
            return edit
        yield 'route_signature', apply


@rule('patch_of_missing_type')
def r_patch_missing(m, rnd):
    for ni, ns in enumerate(m.namespaces):
        for kw in ('struct', 'union'):
            def apply(m2, ni=ni, kw=kw, name=ns.name):
                def edit(files, rnd2):
                    out, done = [], False
                    for p, t in files:
                        if not done and t.startswith('namespace ' + name + '\n'):
                            t = t.rstrip('\n') + '\n\npatch %s NoType999\n    zz_f999 String?\n' % kw
                            done = True
                        out.append((p, t))
                    return out
                return edit
            yield kw, apply


@rule('patch_kind_mismatch')
def r_patch_kind(m, rnd):
    for path, d in defs(m, ('struct', 'union')):
        def apply(m2, path=path, d=d):
            if d.kind == 'struct':
                other = 'union'
            else:
                other = 'struct'

            def edit(files, rnd2):
                out, done = [], False
                for p, t in files:
                    if not done and t.startswith('namespace ' + d.ns + '\n'):
                        t = t.rstrip('\n') + '\n\npatch %s %s\n    zz_f999 String?\n' % (other, d.name)
                        done = True
                    out.append((p, t))
                return out
            return edit
        if not d.patch_fields:
            yield d.kind + '_patched_as_other', apply

        if d.kind == 'union' and not d.patch_fields:
            def apply2(m2, path=path, d=d):
                def edit(files, rnd2):
                    out, done = [], False
                    kw = 'union' if d.closed else 'union_closed'
                    for p, t in files:
                        if not done and t.startswith('namespace ' + d.ns + '\n'):
                            t = t.rstrip('\n') + '\n\npatch %s %s\n    zz_f999 String?\n' % (kw, d.name)
                            done = True
                        out.append((p, t))
                    return out
                return edit
            yield 'open_closed_mismatch', apply2
