"""Structural mutators of JSON documents, typed (they know the model type at each
position so that bounds can be crossed by one) and untyped."""
import copy

from .model import PRIM_INTS, PRIM_FLOATS

KIND_SAMPLES = [None, True, False, 0, -1, 1.5, '', 'x', [], [1], {}, {'a': 1}, 2 ** 70, -2 ** 70, 1e300]


def positions(m, t, x, path=()):
    """Yield (path, type-or-None, value) for every node reachable with type info."""
    yield path, t, x
    if t is None or x is None:
        return
    if t.kind == 'list' and isinstance(x, list):
        for i, v in enumerate(x):
            yield from positions(m, t.args['item'], v, path + (i,))
    elif t.kind == 'map' and isinstance(x, dict):
        for k, v in x.items():
            yield from positions(m, t.args['value'], v, path + (k,))
    elif t.kind == 'ref':
        d = m.lookup(t.ns, t.name)
        if d.kind == 'alias':
            for p, tt, v in positions(m, d.type, x, path):
                if p != path:
                    yield p, tt, v
        elif d.kind == 'struct' and isinstance(x, dict):
            vd = d
            if d.subtypes and isinstance(x.get('.tag'), str):
                leaves = dict(d.subtypes['items'])
                if x['.tag'] in leaves:
                    vd = m.lookup(*leaves[x['.tag']])
            for f in m.struct_all_fields(vd):
                if f.name in x:
                    yield from positions(m, f.type, x[f.name], path + (f.name,))
        elif d.kind == 'union' and isinstance(x, dict) and isinstance(x.get('.tag'), str):
            fs = [f for f in m.union_all_fields(d) if f.name == x['.tag']]
            if fs and fs[0].type is not None:
                f = fs[0]
                tgt = m.target(f.type)
                if tgt is not None and tgt.kind == 'struct' and not tgt.subtypes:
                    for ff in m.struct_all_fields(tgt):
                        if ff.name in x:
                            yield from positions(m, ff.type, x[ff.name], path + (ff.name,))
                elif f.name in x:
                    yield from positions(m, f.type, x[f.name], path + (f.name,))


def get_at(x, path):
    for p in path:
        x = x[p]
    return x


def set_at(x, path, v):
    if not path:
        return v
    x = copy.deepcopy(x)
    cur = x
    for p in path[:-1]:
        cur = cur[p]
    cur[path[-1]] = v
    return x


def del_at(x, path):
    x = copy.deepcopy(x)
    cur = x
    for p in path[:-1]:
        cur = cur[p]
    del cur[path[-1]]
    return x


def mutations(m, t, doc, rnd, limit=40):
    """Yield (name, mutated document)."""
    pos = list(positions(m, t, doc))
    out = []
    for path, tt, v in pos:
        # replace by each other JSON kind
        for s in rnd.sample(KIND_SAMPLES, 4):
            out.append(('replace_kind', set_at(doc, path, copy.deepcopy(s))))
        if isinstance(v, dict):
            for k in list(v)[:3]:
                out.append(('drop_key', del_at(doc, path + (k,))))
                nv = dict(v)
                nv[str(k) + '_x'] = nv.pop(k)
                out.append(('rename_key', set_at(doc, path, nv)))
            nv = dict(v)
            nv['zz_unknown'] = rnd.choice([1, None, 'x', {'.tag': 'q'}])
            out.append(('add_key', set_at(doc, path, nv)))
            nv2 = dict(v)
            nv2[rnd.choice(['.tagx', '.tag_anything', '.tags', '.tag.'])] = rnd.choice([1, None, 'x'])
            out.append(('add_dot_tag_prefixed_key', set_at(doc, path, nv2)))
            if '.tag' in v:
                out.append(('retag_unknown', set_at(doc, path, dict(v, **{'.tag': 'zz_unknown_tag'}))))
                out.append(('retag_other', set_at(doc, path, dict(v, **{'.tag': 'other'}))))
                out.append(('tag_not_string', set_at(doc, path, dict(v, **{'.tag': 5}))))
                out.append(('bare_tag', set_at(doc, path, v['.tag'])))
                tag = v['.tag']
                if isinstance(tag, str) and tag in v:
                    # move nested payload next to .tag (only meaningful for objects)
                    if isinstance(v[tag], dict):
                        nv = {kk: vv for kk, vv in v.items() if kk != tag}
                        nv.update(v[tag])
                        out.append(('flatten_nested', set_at(doc, path, nv)))
                elif isinstance(tag, str) and len(v) > 1:
                    nv = {'.tag': tag, tag: {kk: vv for kk, vv in v.items() if kk != '.tag'}}
                    out.append(('nest_flattened', set_at(doc, path, nv)))
        if tt is not None and tt.kind == 'prim' and v is not None:
            n = tt.name
            if n in PRIM_INTS:
                lo, hi = PRIM_INTS[n]
                mn, mx = tt.args.get('min_value', lo), tt.args.get('max_value', hi)
                for nm, nv in (('int_below', mn - 1), ('int_above', mx + 1), ('int_at_min', mn),
                               ('int_at_max', mx), ('int_as_float', 1.5), ('int_as_string', str(mn)),
                               ('int_as_bool', True)):
                    out.append((nm, set_at(doc, path, nv)))
            elif n in PRIM_FLOATS:
                mn, mx = tt.args.get('min_value'), tt.args.get('max_value')
                if mn is not None:
                    out.append(('float_below', set_at(doc, path, float(mn) - abs(float(mn)) * 1e-9 - 1e-9)))
                if mx is not None:
                    out.append(('float_above', set_at(doc, path, float(mx) + abs(float(mx)) * 1e-9 + 1e-9)))
                out.append(('float_as_bool', set_at(doc, path, False)))
                out.append(('float_nan', set_at(doc, path, float('nan'))))
                out.append(('float_inf', set_at(doc, path, float('inf'))))
                if n == 'Float32':
                    out.append(('float32_overflow', set_at(doc, path, 3.5e38)))
            elif n == 'String':
                if tt.args.get('max_length') is not None:
                    out.append(('string_too_long', set_at(doc, path, 'x' * (tt.args['max_length'] + 1))))
                if tt.args.get('min_length'):
                    out.append(('string_too_short', set_at(doc, path, 'x' * (tt.args['min_length'] - 1))))
                if tt.args.get('pattern'):
                    out.append(('pattern_prefix_only', set_at(doc, path, str(v) + '!')))
                    out.append(('pattern_trailing_newline', set_at(doc, path, str(v) + '\n')))
                    out.append(('pattern_leading_newline', set_at(doc, path, '\n' + str(v))))
            elif n == 'Bytes':
                out.append(('bytes_bad_base64', set_at(doc, path, '!!!notbase64')))
                out.append(('bytes_base64_with_junk', set_at(doc, path, rnd.choice(
                    ['YQ==junk', 'YWJj!', 'YW Jj', 'YWJj\n', '=YWJj', 'YQ==YQ=='])))) 
                out.append(('bytes_non_ascii', set_at(doc, path, 'é日本')))
            elif n == 'Timestamp':
                out.append(('timestamp_garbage', set_at(doc, path, 'not a date')))
        if tt is not None and tt.kind == 'list' and isinstance(v, list):
            if tt.args.get('max_items') is not None and v:
                out.append(('list_too_long', set_at(doc, path, v + [v[0]] * (tt.args['max_items'] + 1 - len(v)))))
            if tt.args.get('min_items'):
                out.append(('list_too_short', set_at(doc, path, v[:tt.args['min_items'] - 1])))
        if tt is not None and m.is_nullable(tt) and v is not None:
            out.append(('explicit_null', set_at(doc, path, None)))
    rnd.shuffle(out)
    return out[:limit]


def small_docs(atoms, rnd, n):
    """Arbitrary small JSON documents of depth <= 2 and width <= 2 over atoms."""
    out = []
    for _ in range(n):
        out.append(_doc(atoms, rnd, 0))
    return out


def _doc(atoms, rnd, depth):
    r = rnd.random()
    if depth >= 2 or r < 0.4:
        return rnd.choice(atoms)
    if r < 0.6:
        return [_doc(atoms, rnd, depth + 1) for _ in range(rnd.randint(0, 2))]
    keys = [a for a in atoms if isinstance(a, str)] or ['k']
    d = {}
    for _ in range(rnd.randint(0, 2)):
        d[rnd.choice(keys + ['.tag'])] = _doc(atoms, rnd, depth + 1)
    return d
