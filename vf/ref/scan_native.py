"""Own lexers for generated Swift and Objective-C source: comments (nested /* */ for
Swift), string literals (Swift interpolation, @"..."), bracket balance.  Returns code
with comments and string contents blanked, plus the list of lexical problems."""
import re
import subprocess


def lex_swift(text):
    out = []
    problems = []
    i, n = 0, len(text)
    stack = []
    pairs = {')': '(', ']': '[', '}': '{'}

    def skip_string(i):
        # i at opening quote; handles \( ... ) interpolation with nesting
        if text.startswith('"""', i):
            j = text.find('"""', i + 3)
            if j < 0:
                problems.append('unterminated_multiline_string')
                return n
            return j + 3
        j = i + 1
        while j < n:
            c = text[j]
            if c == '\\':
                if text.startswith('\\(', j):
                    depth = 1
                    j += 2
                    while j < n and depth:
                        if text[j] == '"':
                            j = skip_string(j)
                            continue
                        if text[j] == '(':
                            depth += 1
                        elif text[j] == ')':
                            depth -= 1
                        elif text[j] == '\n':
                            problems.append('newline_in_interpolation')
                            return j
                        j += 1
                    continue
                j += 2
                continue
            if c == '"':
                return j + 1
            if c == '\n':
                problems.append('unterminated_string')
                return j
            j += 1
        problems.append('unterminated_string')
        return n

    while i < n:
        c = text[i]
        two = text[i:i + 2]
        if two == '//':
            j = text.find('\n', i)
            j = n if j < 0 else j
            out.append(' ' * (j - i))
            i = j
        elif two == '/*':
            depth = 1
            j = i + 2
            while j < n and depth:
                if text.startswith('/*', j):
                    depth += 1
                    j += 2
                elif text.startswith('*/', j):
                    depth -= 1
                    j += 2
                else:
                    j += 1
            if depth:
                problems.append('unterminated_comment')
            out.append(''.join('\n' if ch == '\n' else ' ' for ch in text[i:j]))
            i = j
        elif c == '"':
            j = skip_string(i)
            out.append('"' + ''.join('\n' if ch == '\n' else '_' for ch in text[i + 1:max(i + 1, j - 1)]) + '"')
            i = j
        else:
            if c in '([{':
                stack.append(c)
            elif c in ')]}':
                if not stack or stack[-1] != pairs[c]:
                    problems.append('unbalanced_' + c)
                else:
                    stack.pop()
            out.append(c)
            i += 1
    if stack:
        problems.append('unclosed_' + stack[-1])
    return ''.join(out), problems


def lex_objc(text):
    out = []
    problems = []
    i, n = 0, len(text)
    stack = []
    pairs = {')': '(', ']': '[', '}': '{'}
    while i < n:
        c = text[i]
        two = text[i:i + 2]
        if two == '//':
            j = text.find('\n', i)
            j = n if j < 0 else j
            out.append(' ' * (j - i))
            i = j
        elif two == '/*':
            j = text.find('*/', i + 2)
            if j < 0:
                problems.append('unterminated_comment')
                j = n - 2
            out.append(''.join('\n' if ch == '\n' else ' ' for ch in text[i:j + 2]))
            i = j + 2
        elif c == '"' or c == "'":
            j = i + 1
            ok = False
            while j < n:
                if text[j] == '\\':
                    j += 2
                    continue
                if text[j] == c:
                    ok = True
                    break
                if text[j] == '\n':
                    break
                j += 1
            if not ok:
                problems.append('unterminated_string' if c == '"' else 'unterminated_char_literal')
                out.append(text[i:j])
                i = j
                continue
            out.append(c + '_' * (j - i - 1) + c)
            i = j + 1
        else:
            if c in '([{':
                stack.append(c)
            elif c in ')]}':
                if not stack or stack[-1] != pairs[c]:
                    problems.append('unbalanced_' + c)
                else:
                    stack.pop()
            out.append(c)
            i += 1
    if stack:
        problems.append('unclosed_' + stack[-1])
    return ''.join(out), problems


def clang_raw_problems(path):
    """Second opinion for Objective-C: clang's raw lexer marks unterminated literals /
    comments as `unknown` tokens.  Returns None if clang is unavailable."""
    try:
        r = subprocess.run(['clang', '-cc1', '-x', 'objective-c', '-dump-raw-tokens', path],
                           capture_output=True, text=True, timeout=120, errors='replace')
    except (OSError, subprocess.TimeoutExpired):
        return None
    probs = []
    for ln in r.stderr.split('\n'):
        if ln.startswith('unknown '):
            m = re.match(r"unknown '(.)", ln)
            if m and m.group(1) in '"\'/':
                probs.append('clang_unknown_token_' + {'"': 'string', "'": 'char', '/': 'comment'}[m.group(1)])
    return probs


def identifiers(code):
    return re.findall(r'[A-Za-z_][A-Za-z0-9_]*', code)
