"""Reference dependency closures of a route whitelist, computed on the model.

minimal: edges the property statement lists and loading needs.
maximal: additionally everything a defensible reading could pull in.
The gap between the two is where the statement is ambiguous (nothing judged)."""
import re

from ..gen.model import ref as gm_ref

DOC_REF = re.compile(r':(?P<tag>[A-Za-z]+):`(?P<val>.*?)`')


def doc_refs(m, ns, doc):
    """(types, routes) named by references in a Doc, resolved relative to namespace ns."""
    types, routes = set(), set()
    if doc is None:
        return types, routes
    text = doc.normalized() if hasattr(doc, 'normalized') else str(doc)
    for mt in DOC_REF.finditer(text):
        tag, val = mt.group('tag'), mt.group('val')
        if tag == 'type':
            if '.' in val:
                n, name = val.split('.', 1)
            else:
                n, name = ns, val
            types.add((n, name))
        elif tag == 'field' and '.' in val:
            parts = val.split('.')
            if len(parts) == 2:
                types.add((ns, parts[0]))
            else:
                types.add((parts[0], parts[1]))
        elif tag == 'route':
            if '.' in val:
                n, rv = val.split('.', 1)
            else:
                n, rv = ns, val
            if ':' in rv:
                name, v = rv.split(':')
                v = int(v)
            else:
                name, v = rv, 1
            routes.add((n, name, v))
    return types, routes


class Closure:
    def __init__(self, m, maximal):
        self.m = m
        self.maximal = maximal
        self.types = set()     # (ns, name) of structs / unions
        self.aliases = set()
        self.routes = set()    # (ns, name, version)
        self.edges = set()     # edge kinds that decided retention

    def add_type_expr(self, t, via):
        if t is None:
            return
        if t.kind == 'list':
            self.add_type_expr(t.args['item'], via + '>list')
        elif t.kind == 'map':
            self.add_type_expr(t.args['value'], via + '>map')
        elif t.kind == 'ref':
            d = self.m.lookup(t.ns, t.name)
            if d.kind == 'alias':
                if (t.ns, t.name) not in self.aliases:
                    self.aliases.add((t.ns, t.name))
                    self.edges.add(via + '>alias')
                    self.add_type_expr(d.type, via + '>alias')
                    if self.maximal:
                        self.add_doc(d.ns, d.doc, 'alias_doc')
            else:
                self.add_type(d, via)

    def add_doc(self, ns, doc, via, route_docs=False):
        ts, rs = doc_refs(self.m, ns, doc)
        for (n, name) in ts:
            try:
                d = self.m.lookup(n, name)
            except KeyError:
                continue
            if d.kind in ('struct', 'union'):
                self.add_type(d, via + ':type_ref' + ('_foreign' if n != ns else ''))
            elif d.kind == 'alias' and self.maximal:
                # :field:`Alias.f` names the type only through the alias: keeping the
                # type is defensible, the statement does not demand it
                tgt = self.m.target(gm_ref(n, name))
                if tgt is not None:
                    self.add_type(tgt, via + ':field_ref_via_alias')
        for (n, name, v) in rs:
            r = [x for x in self.m.ns(n).defs if x.kind == 'route' and x.name == name and x.version == v]
            if r:
                self.add_route(r[0], via + ':route_ref', follow_doc=self.maximal)

    def add_route(self, r, via, follow_doc=True):
        key = (r.ns, r.name, r.version)
        first = key not in self.routes
        self.routes.add(key)
        if first:
            self.edges.add(via)
        for slot in (r.arg, r.result, r.error):
            self.add_type_expr(slot, via + '>io')
        if follow_doc and first:
            self.add_doc(r.ns, r.doc, 'route_doc')

    def add_type(self, d, via):
        key = (d.ns, d.name)
        if key in self.types:
            return
        self.types.add(key)
        self.edges.add(via + ('_foreign' if via.startswith('field') and False else ''))
        m = self.m
        if d.parent:
            self.add_type(m.lookup(*d.parent), 'parent' + ('_foreign' if d.parent[0] != d.ns else ''))
        for f in m.own_fields(d):
            self.add_type_expr(f.type, 'field' if d.kind == 'struct' else 'tag')
            self.add_doc(d.ns, f.doc, 'field_doc')
        self.add_doc(d.ns, d.doc, 'type_doc')
        if d.kind == 'struct' and d.subtypes:
            for _, sn in d.subtypes['items']:
                self.add_type(m.lookup(*sn), 'enumerated_subtype')


def closures(m, whitelist):
    out = []
    for maximal in (False, True):
        c = Closure(m, maximal)
        for ns, reprs in whitelist.get('route_whitelist', {}).items():
            nsd = m.ns(ns)
            for doc in nsd.docs:
                c.add_doc(ns, doc, 'namespace_doc')
            rs = [x for x in nsd.defs if x.kind == 'route']
            for rp in reprs:
                for r in rs:
                    key = r.name if r.version == 1 else '%s:%d' % (r.name, r.version)
                    if rp == '*' or rp == key or (rp == r.name + ':1' and r.version == 1):
                        c.add_route(r, 'whitelisted_route')
        for ns, names in whitelist.get('datatype_whitelist', {}).items():
            for doc in m.ns(ns).docs:
                c.add_doc(ns, doc, 'namespace_doc')
            for name in names:
                c.add_type(m.lookup(ns, name), 'whitelisted_type')
        if maximal:
            # namespace docs of every namespace holding something retained
            for ns in {k[0] for k in c.types} | {k[0] for k in c.routes}:
                for doc in m.ns(ns).docs:
                    c.add_doc(ns, doc, 'namespace_doc')
        out.append(c)
    return out
