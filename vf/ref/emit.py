"""Reference pretty-printer for emit scripts (own indentation stack), written from
docs/backend_ref.rst.  A script is a list of operations; run_reference() returns the
expected file text, run_real() drives a real stone.backend.CodeBackend."""
import random
import textwrap

TEXTS = ['x', 'a b c', '{', '}', '{}', '{0}', '{name}', '{{double}}', '%s %d', 'back\\slash', 'é日本😀',
         'tab\there', '"quoted"', "it's", 'a{b}c{', '}{', '{!r}', '{:>10}', '$x', 'func(a, b)', '',
         'trailing space ', '  leading', '{0.attr}', '{a[0]}',
         # control characters and line separators other than \n travel verbatim too
         'ends with cr\r', 'cr\rmid', '\r', 'form\x0cfeed', 'vt\x0b', 'sep\u2028ls\u2029ps', 'nel\x85',
         '\ufeffbom', 'nul\x00', 'nbsp\u00a0']
WORDS = ['alpha', 'beta', '{gamma}', 'delta-epsilon', 'z' * 30, 'é😀', '{0}', '%s', 'a/b/c', 'x' * 95, 'q']


def random_script(rnd, depth=0, allow_file=True):
    ops = []
    for _ in range(rnd.randint(1, 6 if depth else 10)):
        k = rnd.choice(['emit', 'emit', 'emit_empty', 'emit_raw', 'wrapped', 'indent', 'block', 'list',
                        'placeholder_pos', 'placeholder_named', 'capture'])
        if k == 'emit':
            ops.append(('emit', rnd.choice(TEXTS)))
        elif k == 'emit_empty':
            ops.append(('emit', ''))
        elif k == 'emit_raw':
            n = rnd.randint(1, 3)
            ops.append(('emit_raw', ''.join(rnd.choice(TEXTS) + '\n' for _ in range(n))))
        elif k == 'wrapped':
            words = [rnd.choice(WORDS) for _ in range(rnd.randint(0, 30))]
            ops.append(('wrapped', ' '.join(words), rnd.choice(['', '# ', ' * ']),
                        rnd.choice(['', '- ']), rnd.choice(['', '  ']), rnd.choice([40, 80, 20])))
        elif k == 'indent' and depth < 3:
            ops.append(('indent', rnd.choice([None, 0, 2, 7]), random_script(rnd, depth + 1)))
        elif k == 'block' and depth < 3:
            ops.append(('block', rnd.choice(['', 'def f()', 'class {X}', 'if (a) {']), rnd.choice(['', ';', ' // {e}']),
                        rnd.choice([('{', '}'), ('(', ')'), (None, None), ('[', None), (None, ']'), ('{{', '}}')]),
                        rnd.choice([None, 2]), rnd.random() < 0.3, random_script(rnd, depth + 1)))
        elif k == 'list':
            items = [rnd.choice(TEXTS[:12] + ['item%d' % i]) for i in range(rnd.randint(0, 4))]
            items = [x for x in items if '\n' not in x]
            ops.append(('list', items, rnd.choice(['', 'f', 'x = {0}']), rnd.choice(['', ';', ' {']),
                        rnd.choice([('(', ')'), ('[', ']'), ('{', '}'), ('', '')]), rnd.random() < 0.5,
                        rnd.choice([',', ';', ' {+}']), rnd.random() < 0.5))
        elif k == 'placeholder_pos':
            ops.append(('placeholder_pos', rnd.choice(TEXTS) + '\n'))
        elif k == 'capture':
            # lines emitted into a side buffer (capture_emitted_output) and handed back
            # through a named placeholder or emit_raw: the python_type_stubs idiom
            ops.append(('capture', [rnd.choice(TEXTS) for _ in range(rnd.randint(1, 3))],
                        rnd.choice(['placeholder', 'raw']), 'cap%x' % rnd.getrandbits(48)))
        elif k == 'placeholder_named':
            ops.append(('placeholder_named', 'ph%d' % rnd.randint(0, 3), rnd.choice(TEXTS) + '\n'))
    return ops


class Ref:
    def __init__(self):
        self.out = []
        self.indent = 0
        self.named = {}

    def line(self, s):
        self.out.append((' ' * self.indent + s + '\n') if s else '\n')

    def run(self, ops):
        for op in ops:
            k = op[0]
            if k == 'emit':
                self.line(op[1])
            elif k == 'emit_raw':
                self.out.append(op[1])
            elif k == 'wrapped':
                self.out.append(('WRAPPED', self.indent) + op[1:])
            elif k == 'indent':
                d = 4 if op[1] is None else op[1]
                self.indent += d
                self.run(op[2])
                self.indent -= d
            elif k == 'block':
                _, before, after, delim, dent, allman, body = op
                if before and not allman:
                    self.line('%s %s' % (before, delim[0]) if delim[0] is not None else before)
                else:
                    if before:
                        self.line(before)
                    if delim[0] is not None:
                        self.line(delim[0])
                d = 4 if dent is None else dent
                self.indent += d
                self.run(body)
                self.indent -= d
                self.line((delim[1] + after) if delim[1] is not None else after)
            elif k == 'list':
                _, items, before, after, delim, compact, sep, skip_last = op
                if len(items) == 0:
                    self.line(before + delim[0] + delim[1] + after)
                elif len(items) == 1:
                    self.line(before + delim[0] + items[0] + delim[1] + after)
                elif compact:
                    self.line(before + delim[0] + items[0] + sep)
                    pad = len(before) + len(delim[0])
                    self.indent += pad
                    for i, it in enumerate(items[1:]):
                        last = i == len(items) - 2
                        self.line(it + (delim[1] + after if last else sep))
                    self.indent -= pad
                else:
                    if before or delim[0]:
                        self.line(before + delim[0])
                    self.indent += 4
                    for i, it in enumerate(items):
                        last = i == len(items) - 1
                        self.line(it if (last and skip_last) else it + sep)
                    self.indent -= 4
                    if delim[1] or after:
                        self.line(delim[1] + after)
            elif k == 'placeholder_pos':
                self.out.append(op[1])
            elif k == 'capture':
                for t in op[1]:
                    self.line(t)
            elif k == 'placeholder_named':
                self.out.append(('NAMED', op[1]))
                self.named[op[1]] = op[2]
        return self


def run_real(backend, ops):
    for op in ops:
        k = op[0]
        if k == 'emit':
            backend.emit(op[1])
        elif k == 'emit_raw':
            backend.emit_raw(op[1])
        elif k == 'wrapped':
            _, text, prefix, ip, sp, width = op
            backend.emit_wrapped_text(text, prefix=prefix, initial_prefix=ip, subsequent_prefix=sp, width=width)
        elif k == 'indent':
            with backend.indent(op[1]):
                run_real(backend, op[2])
        elif k == 'block':
            _, before, after, delim, dent, allman, body = op
            with backend.block(before, after, delim, dent, allman):
                run_real(backend, body)
        elif k == 'list':
            _, items, before, after, delim, compact, sep, skip_last = op
            backend.generate_multiline_list(items, before, after, delim, compact, sep, skip_last)
        elif k == 'placeholder_pos':
            backend.emit_placeholder()
            backend.add_positional_placeholder(op[1])
        elif k == 'capture':
            import io
            buf = io.StringIO()
            with backend.capture_emitted_output(buf):
                for t in op[1]:
                    backend.emit(t)
            if op[2] == 'raw':
                backend.emit_raw(buf.getvalue())
            else:
                backend.emit_placeholder(op[3])
                backend.add_named_placeholder(op[3], buf.getvalue())
        elif k == 'placeholder_named':
            backend.emit_placeholder(op[1])
            backend.add_named_placeholder(op[1], op[2])


def compare(ref, text):
    """Compare the real file text with the reference stream.  Returns None or a description."""
    pos = 0
    for piece in ref.out:
        if isinstance(piece, str):
            if not text.startswith(piece, pos):
                return 'at offset %d expected %r, file has %r' % (pos, piece[:60], text[pos:pos + 60])
            pos += len(piece)
        elif piece[0] == 'NAMED':
            val = ref.named[piece[1]]
            if not text.startswith(val, pos):
                return 'placeholder %s: expected %r, file has %r' % (piece[1], val[:40], text[pos:pos + 40])
            pos += len(val)
        else:
            _, indent, s, prefix, ip, sp, width = piece
            words = s.split()
            # consume lines until all words are seen
            seen = []
            first = True
            while True:
                nl = text.find('\n', pos)
                if nl < 0:
                    return 'wrapped text: file ended early'
                line = text[pos:nl]
                pos = nl + 1
                lead = ' ' * indent + prefix + (ip if first else sp)
                if not words:
                    if line.strip(' ') not in ('', (prefix + ip).strip(' ')) and line != lead.rstrip():
                        pass
                    break
                if not line.startswith(lead.rstrip(' ')) and not line.startswith(lead):
                    return 'wrapped line %r does not start with %r' % (line[:50], lead)
                body = line[len(lead):] if line.startswith(lead) else line[len(lead.rstrip(' ')):]
                lw = body.split()
                seen.extend(lw)
                if len(line) > width and len(lw) > 1:
                    return 'wrapped line longer than width %d with several words: %r' % (width, line[:90])
                first = False
                if len(seen) >= len(words):
                    break
            if seen != words:
                return 'wrapped words differ: expected %r got %r' % (words[:8], seen[:8])
    if pos != len(text):
        return 'file has %d trailing characters: %r' % (len(text) - pos, text[pos:pos + 60])
    return None
