"""Reference predicate "value satisfies Stone type", derived from the model.

verdict(m, t, v) -> 'in' | 'out' | 'unspecified' for a *Python-level* value v
(AV forms for user types) at type position t."""
import datetime
import math
import re

from ..gen.model import PRIM_INTS, PRIM_FLOATS
from ..gen.values import SV, UV

IN, OUT, UNSPEC = 'in', 'out', 'unspecified'


def prim_verdict(t, v):
    n = t.name
    if n == 'Boolean':
        return IN if isinstance(v, bool) else OUT
    if n in PRIM_INTS:
        if isinstance(v, bool):
            return UNSPEC          # the runtime knowingly accepts bool where an integer is expected
        if not isinstance(v, int):
            return OUT
        lo, hi = PRIM_INTS[n]
        mn = t.args.get('min_value', lo)
        mx = t.args.get('max_value', hi)
        return IN if mn <= v <= mx else OUT
    if n in PRIM_FLOATS:
        if isinstance(v, bool):
            return UNSPEC
        if not isinstance(v, (int, float)):
            return OUT
        try:
            f = float(v)
        except OverflowError:
            return OUT
        if math.isnan(f) or math.isinf(f):
            return OUT
        lo, hi = PRIM_FLOATS[n]
        mn = t.args.get('min_value')
        mx = t.args.get('max_value')
        if lo is not None and not (lo <= f <= hi):
            return OUT
        if mn is not None and f < float(mn):
            return OUT
        if mx is not None and f > float(mx):
            return OUT
        return IN
    if n == 'String':
        if not isinstance(v, str):
            return OUT
        if t.args.get('min_length') is not None and len(v) < t.args['min_length']:
            return OUT
        if t.args.get('max_length') is not None and len(v) > t.args['max_length']:
            return OUT
        pat = t.args.get('pattern')
        if pat is not None and re.fullmatch(pat, v) is None:
            return OUT
        return IN
    if n == 'Bytes':
        if isinstance(v, bytes):
            return IN
        if isinstance(v, (bytearray, memoryview)):
            return UNSPEC
        return OUT
    if n == 'Timestamp':
        if isinstance(v, datetime.datetime):
            if v.tzinfo is not None:
                off = v.tzinfo.utcoffset(v)
                return IN if off is not None and off.total_seconds() == 0 else OUT
            return IN
        return OUT
    if n == 'Void':
        return IN if v is None else OUT
    raise AssertionError(t)


def verdict(m, t, v):
    if t is None:
        return IN if v is None else OUT
    if v is None:
        return IN if m.is_nullable(t) else OUT
    if t.kind == 'prim':
        return prim_verdict(t, v)
    if t.kind == 'list':
        if isinstance(v, tuple):
            v = list(v)
        if not isinstance(v, list):
            return OUT
        if t.args.get('min_items') is not None and len(v) < t.args['min_items']:
            return OUT
        if t.args.get('max_items') is not None and len(v) > t.args['max_items']:
            return OUT
        return combine(verdict(m, t.args['item'], x) for x in v)
    if t.kind == 'map':
        if not isinstance(v, dict):
            return OUT
        return combine([verdict(m, t.args['key'], k) for k in v] +
                       [verdict(m, t.args['value'], x) for x in v.values()])
    d = m.lookup(t.ns, t.name)
    if d.kind == 'alias':
        return verdict(m, d.type, v)
    if d.kind == 'struct':
        if not isinstance(v, SV):
            return OUT
        vd = m.lookup(v.ns, v.name)
        chain = [(x.ns, x.name) for x in m.chain(vd)]
        if (d.ns, d.name) not in chain:
            return OUT
        if d.subtypes and (v.ns, v.name) == (d.ns, d.name):
            return UNSPEC       # instance of the enumerated-subtype root itself
        if not d.subtypes and (v.ns, v.name) != (d.ns, d.name):
            return UNSPEC       # subclass in a plain-struct position (sliced by design)
        return IN
    if not isinstance(v, UV):
        return OUT
    chain = [(x.ns, x.name) for x in m.chain(d)]
    return IN if (v.ns, v.name) in chain else OUT


def combine(vs):
    vs = list(vs)
    if OUT in vs:
        return OUT
    if UNSPEC in vs:
        return UNSPEC
    return IN


def deep_valid(m, t, av):
    """Is AV (as read back from a decoded instance) valid for t, recursively
    through user types?  Returns None or a description of the first problem."""
    if av is None:
        return None if (t is None or m.is_nullable(t)) else 'null at non-nullable position'
    if t is None:
        return 'value at void position'
    if t.kind == 'prim':
        r = prim_verdict(t, av)
        return None if r != OUT else '%r not in %r' % (av, t)
    if t.kind == 'list':
        if not isinstance(av, list):
            return 'not a list'
        if verdict(m, t.copy(args=dict(t.args, item=t.args['item'])), []) and False:
            pass
        n = len(av)
        if t.args.get('min_items') is not None and n < t.args['min_items']:
            return 'list shorter than min_items'
        if t.args.get('max_items') is not None and n > t.args['max_items']:
            return 'list longer than max_items'
        for x in av:
            r = deep_valid(m, t.args['item'], x)
            if r:
                return '[]' + r
        return None
    if t.kind == 'map':
        if not isinstance(av, dict):
            return 'not a map'
        for k, x in av.items():
            if prim_verdict(t.args['key'], k) == OUT:
                return 'bad key %r' % (k,)
            r = deep_valid(m, t.args['value'], x)
            if r:
                return '{}' + r
        return None
    d = m.lookup(t.ns, t.name)
    if d.kind == 'alias':
        return deep_valid(m, d.type, av)
    if d.kind == 'struct':
        if not isinstance(av, SV):
            return 'not a struct'
        vd = m.lookup(av.ns, av.name)
        if (d.ns, d.name) not in [(x.ns, x.name) for x in m.chain(vd)]:
            return 'struct %s is not a %s' % (av.name, d.name)
        for f in m.struct_all_fields(vd):
            r = deep_valid(m, f.type, av.fields.get(f.name))
            if r and not (av.fields.get(f.name) is None and f.default is not None):
                return f.name + '.' + r
        return None
    if not isinstance(av, UV):
        return 'not a union'
    if (av.ns, av.name) not in [(x.ns, x.name) for x in m.chain(d)]:
        return 'union %s is not a %s' % (av.name, d.name)
    fs = [f for f in m.union_all_fields(m.lookup(av.ns, av.name)) if f.name == av.tag]
    if not fs:
        return 'unknown tag %s' % av.tag
    if fs[0].type is None:
        return None if av.value is None else 'payload on void tag'
    r = deep_valid(m, fs[0].type, av.value)
    return ('<%s>' % av.tag + r) if r else None
