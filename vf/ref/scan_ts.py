"""Lexical scanner and declaration scanner for generated TypeScript (.d.ts) and
JavaScript/JSDoc output.  Own code: no part of stone is used."""
import re


class LexError(Exception):
    pass


def strip_comments_and_strings(text, keep_strings=True):
    """Returns (code, problems, comments).  code has comments blanked out and (optionally)
    string contents replaced; problems lists unterminated constructs / unbalanced brackets."""
    out = []
    comments = []
    problems = []
    i, n = 0, len(text)
    stack = []
    pairs = {')': '(', ']': '[', '}': '{'}
    while i < n:
        c = text[i]
        two = text[i:i + 2]
        if two == '/*':
            j = text.find('*/', i + 2)
            if j < 0:
                problems.append('unterminated_comment')
                comments.append(text[i:])
                break
            comments.append(text[i:j + 2])
            out.append(' ' * 2 + ''.join('\n' if ch == '\n' else ' ' for ch in text[i + 2:j]) + '  ')
            i = j + 2
        elif two == '//':
            j = text.find('\n', i)
            j = n if j < 0 else j
            comments.append(text[i:j])
            out.append(' ' * (j - i))
            i = j
        elif c in '"\'`':
            j = i + 1
            while j < n and text[j] != c:
                if text[j] == '\\':
                    j += 1
                if j < n and text[j] == '\n' and c != '`':
                    break
                j += 1
            if j >= n or text[j] != c:
                problems.append('unterminated_string')
                out.append(text[i:j])
                i = j
                continue
            out.append(text[i:j + 1] if keep_strings else c + '_' * (j - i - 1) + c)
            i = j + 1
        else:
            if c in '([{':
                stack.append(c)
            elif c in ')]}':
                if not stack or stack[-1] != pairs[c]:
                    problems.append('unbalanced_' + c)
                else:
                    stack.pop()
            out.append(c)
            i += 1
    if stack:
        problems.append('unclosed_' + stack[-1])
    return ''.join(out), problems, comments


TS_BUILTINS = {'string', 'number', 'boolean', 'void', 'Object', 'Array', 'Timestamp', 'Error',
               'UserMessage', 'Promise', 'key', 'any', 'null', 'undefined', 'never', 'T'}

IDENT = re.compile(r"[A-Za-z_$][A-Za-z0-9_$]*(?:\.[A-Za-z_$][A-Za-z0-9_$]*)*")


def type_names(type_text):
    """Identifiers (possibly dotted) used in a TypeScript type expression, string literals removed."""
    t = re.sub(r"'[^']*'|\"[^\"]*\"", ' ', type_text)
    t = re.sub(r'\[key:\s*[A-Za-z]+\]', '[k]', t)
    return [m.group(0) for m in IDENT.finditer(t) if m.group(0) != 'k']


class TsFile:
    def __init__(self, text):
        self.text = text
        self.code, self.problems, self.comments = strip_comments_and_strings(text)
        self.namespaces = {}     # name -> {'interfaces': {name: {...}}, 'types': {name: text}, 'dups': []}
        self.imports = set()
        self.top = {'interfaces': {}, 'types': {}, 'dups': []}
        self.methods = {}        # tsd_client: name -> (arg type or None, result type)
        self.method_dups = []
        self._parse()

    def _parse(self):
        cur = None
        cur_iface = None
        depth = 0
        ns_depth = None
        for raw in self.code.split('\n'):
            line = raw.strip()
            if not line:
                continue
            m = re.match(r"import \* as (\w+) from ", line)
            if m:
                self.imports.add(m.group(1))
                continue
            m = re.match(r"(?:export )?namespace (\w+) \{$", line) or \
                re.match(r"declare module '([^']+)' \{$", line)
            if m and cur_iface is None:
                name = m.group(1)
                cur = self.namespaces.setdefault(name, {'interfaces': {}, 'types': {}, 'dups': []})
                if cur['interfaces'] or cur['types']:
                    cur['dups'].append('namespace ' + name)
                ns_depth = depth
                depth += 1
                continue
            scope = cur if cur is not None else self.top
            m = re.match(r"(?:export )?interface (\w+)(?:<\w+>)?(?: extends ([\w.]+))? \{$", line)
            if m:
                name = m.group(1)
                if name in scope['interfaces'] or name in scope['types']:
                    scope['dups'].append(name)
                cur_iface = {'extends': m.group(2), 'members': {}, 'member_dups': []}
                scope['interfaces'][name] = cur_iface
                depth += 1
                continue
            m = re.match(r"(?:export )?type (\w+) = (.*);$", line)
            if m and cur_iface is None:
                name = m.group(1)
                if name in scope['interfaces'] or name in scope['types']:
                    scope['dups'].append(name)
                scope['types'][name] = m.group(2)
                continue
            m = re.match(r"public (\w+)\((?:arg: (.*?))?\): Promise<(.*)>;$", line)
            if m:
                if m.group(1) in self.methods:
                    self.method_dups.append(m.group(1))
                self.methods[m.group(1)] = (m.group(2), m.group(3))
                continue
            if cur_iface is not None:
                m = re.match(r"(?:'([^']+)'|(\w+))(\?)?: (.*);$", line)
                if m:
                    name = m.group(1) or m.group(2)
                    if name in cur_iface['members']:
                        cur_iface['member_dups'].append(name)
                    cur_iface['members'][name] = {'optional': bool(m.group(3)), 'type': m.group(4)}
                    continue
            if line == '}':
                depth -= 1
                if cur_iface is not None:
                    cur_iface = None
                elif cur is not None and depth == ns_depth:
                    cur = None
                    ns_depth = None
                continue


# --------------------------------------------------------------- JSDoc (js_types / js_client)

JS_BUILTINS = {'string', 'number', 'boolean', 'void', 'Object', 'Array', 'Timestamp', 'Error', 'UserMessage',
               'Promise', 'T', 'undefined', 'null'}


def jsdoc_type_names(t):
    t = re.sub(r"'[^']*'|\"[^\"]*\"", ' ', t)
    return [m.group(0) for m in re.finditer(r"[A-Za-z_][A-Za-z0-9_]*", t)]


class JsDocFile:
    def __init__(self, text):
        self.text = text
        self.code, self.problems, self.comments = strip_comments_and_strings(text)
        self.typedefs = {}      # name -> {'type': T, 'props': {name: {'type', 'optional'}}, 'prop_dups': []}
        self.dups = []
        self.route_docs = []    # (arg type or None, returns)
        for c in self.comments:
            if not c.startswith('/**'):
                continue
            body = c[3:-2]
            lines = [re.sub(r'^\s*\* ?', '', ln) for ln in body.split('\n')]
            joined = ' '.join(x.strip() for x in lines)
            tags = re.split(r'(?<![\w{])@(?=typedef|property|arg|returns|template|deprecated|function)', joined)
            td = None
            for tg in tags[1:]:
                m = re.match(r"typedef \{([^}]*)\} (\S+)", tg)
                if m:
                    name = m.group(2)
                    if name in self.typedefs:
                        self.dups.append(name)
                    td = {'type': m.group(1), 'props': {}, 'prop_dups': []}
                    self.typedefs[name] = td
                    continue
                m = re.match(r"property \{([^}]*)\} (\[[^\]]+\]|\S+)", tg)
                if m and td is not None:
                    nm = m.group(2)
                    optional = nm.startswith('[')
                    nm = nm.strip('[]')
                    if nm in td['props']:
                        td['prop_dups'].append(nm)
                    td['props'][nm] = {'type': m.group(1), 'optional': optional}
