"""Independent Stone type -> PEP 484 annotation mapping (written from docs/builtin_backends.rst)."""
from ..gen.model import PRIM_INTS, PRIM_FLOATS


def annotation(m, cur_ns, t):
    if t is None or (t.kind == 'prim' and t.name == 'Void'):
        return 'None'
    if t.nullable:
        inner = annotation(m, cur_ns, t.copy(nullable=False))
        return inner if inner.startswith('Optional[') else 'Optional[%s]' % inner
    if t.kind == 'prim':
        n = t.name
        if n in PRIM_INTS:
            return 'int'
        if n in PRIM_FLOATS:
            return 'float'
        return {'String': 'str', 'Boolean': 'bool', 'Bytes': 'bytes',
                'Timestamp': 'datetime.datetime'}[n]
    if t.kind == 'list':
        return 'List[%s]' % annotation(m, cur_ns, t.args['item'])
    if t.kind == 'map':
        return 'Dict[%s, %s]' % (annotation(m, cur_ns, t.args['key']), annotation(m, cur_ns, t.args['value']))
    d = m.lookup(t.ns, t.name)
    if d.kind == 'alias':
        return annotation(m, cur_ns, d.type)
    return d.name if d.ns == cur_ns else '%s.%s' % (d.ns, d.name)


def normalize(s):
    import re
    s = s.replace(' ', '')
    s = re.sub(r'\bText\b', 'str', s)
    s = s.replace('typing.', '')
    return s.replace(',', ', ')
