"""Expected API description from the model, the same shape read out of a real
stone.ir.Api through its public attributes, and a field-by-field diff.

The expectation is written from docs/lang_ref.rst and docs/json_serializer.rst
and driven by the model only."""
import datetime
from collections import OrderedDict

UNSPEC = ('<unspecified>',)


# ------------------------------------------------------------------ expectation

def type_tree(m, t):
    if t is None:
        return ('void',)
    if t.kind == 'prim':
        if t.name == 'Void':
            base = ('void',)
        else:
            args = dict(t.args)
            base = ('prim', t.name, tuple(sorted(args.items())))
    elif t.kind == 'list':
        base = ('list', type_tree(m, t.args['item']), t.args.get('min_items'), t.args.get('max_items'))
    elif t.kind == 'map':
        base = ('map', type_tree(m, t.args['key']), type_tree(m, t.args['value']))
    else:
        d = m.lookup(t.ns, t.name)
        base = ('alias' if d.kind == 'alias' else 'user', t.ns, t.name)
    return ('nullable', base) if t.nullable else base


def doc_of(doc):
    return None if doc is None else doc.normalized()


def ann_effects(m, anns, doc):
    """What a list of annotation references means for a field."""
    out = {'omitted': None, 'redactor': None, 'deprecated': False, 'preview': False, 'custom': []}
    docu = doc
    for a in anns:
        ad = m.find_ann(*a)
        k = ad.atype
        if k == 'Omitted':
            out['omitted'] = ad.args[0]
            note = 'Field is only returned for "%s" callers.' % ad.args[0]
            docu = UNSPEC if docu is UNSPEC else (note if docu is None else note + ' ' + docu)
        elif k == 'Deprecated':
            out['deprecated'] = True
            docu = UNSPEC if docu is UNSPEC else ('Field is deprecated.' if docu is None
                                                  else 'Field is deprecated. %s' % docu)
        elif k == 'Preview':
            out['preview'] = True
            note = 'Field is in preview mode - do not rely on in production.'
            docu = UNSPEC if docu is UNSPEC else (note if docu is None else note + ' ' + docu)
        elif k in ('RedactedBlot', 'RedactedHash'):
            out['redactor'] = (k, ad.args[0] if ad.args else None)
        else:
            out['custom'].append((ad.ns, ad.name))
    out['doc'] = docu
    return out


def default_of(m, f):
    if f.default is None:
        return ('none',)
    k, v = f.default
    if k == 'tag':
        return ('tag', v)
    rt, _ = m.resolve_alias(f.type)
    if rt.kind == 'prim' and rt.name in ('Float32', 'Float64'):
        v = float(v)
    return ('lit', v)


def field_desc(m, f):
    d = {'name': f.name, 'type': type_tree(m, f.type), 'default': default_of(m, f)}
    d.update(ann_effects(m, f.anns, doc_of(f.doc)))
    return d


class Expander:
    """Example expansion per docs/lang_ref.rst (references expanded, defaults
    filled, nulls omitted, struct-valued tags flattened, one implicit example
    per void tag)."""

    def __init__(self, m):
        self.m = m

    def value_json(self, t, ev):
        m = self.m
        k = ev[0]
        if k == 'null':
            return None
        if k == 'lit':
            return ev[1]
        rt, _ = m.resolve_alias(t) if t is not None else (None, False)
        if k == 'list':
            return [self.value_json(rt.args['item'], x) for x in ev[1]]
        if k == 'map':
            return OrderedDict((kk, self.value_json(rt.args['value'], v)) for kk, v in ev[1])
        if k == 'ref':
            d = m.lookup(rt.ns, rt.name)
            return self.example(d, ev[1])
        raise AssertionError(ev)

    def example(self, d, label):
        m = self.m
        for ex in d.examples:
            if ex.label == label and not getattr(ex, 'patch_only', False):
                return self.expand(d, ex)
        if d.kind == 'union':
            for f in m.union_all_fields(d):
                if f.name == label and f.type is None:
                    return OrderedDict([('.tag', label)])
        raise KeyError((d.name, label))

    def expand(self, d, ex):
        m = self.m
        out = OrderedDict()
        if d.kind == 'struct' and d.subtypes:
            (tag, ev), = ex.values.items()
            leaf = m.lookup(*dict(d.subtypes['items'])[tag])
            out['.tag'] = tag
            out.update(self.example(leaf, ev[1]))
            return out
        if d.kind == 'struct':
            for f in m.struct_all_fields(d):
                if f.name in ex.values:
                    v = self.value_json(f.type, ex.values[f.name])
                    if v is not None:
                        out[f.name] = v
                elif f.default is not None:
                    k, v = f.default
                    if k == 'tag':
                        out[f.name] = OrderedDict([('.tag', v)])
                    else:
                        rt, _ = m.resolve_alias(f.type)
                        out[f.name] = float(v) if rt.name in ('Float32', 'Float64') else v
            return out
        (tag, ev), = ex.values.items()
        f = [x for x in m.union_all_fields(d) if x.name == tag][0]
        out['.tag'] = tag
        if f.type is None:
            return out
        v = self.value_json(f.type, ev)
        if v is None:
            return out
        tgt = m.target(f.type)
        if tgt is not None and tgt.kind == 'struct' and not tgt.subtypes:
            out.update(v)
        else:
            out[tag] = v
        return out

    def all_examples(self, d):
        out = OrderedDict()
        for ex in d.examples:
            if getattr(ex, 'patch_only', False):
                continue
            out[ex.label] = {'value': self.expand(d, ex), 'text': doc_of(ex.doc)}
        if d.kind == 'union':
            for f in self.m.union_all_fields(d):
                if f.type is None:
                    out[f.name] = {'value': OrderedDict([('.tag', f.name)]), 'text': UNSPEC}
        return out


def _type_refs(t):
    if t is None:
        return
    if t.kind == 'ref':
        yield t
    elif t.kind == 'list':
        yield from _type_refs(t.args['item'])
    elif t.kind == 'map':
        yield from _type_refs(t.args['key'])
        yield from _type_refs(t.args['value'])


def expected_imports(m, ns):
    """Namespaces this namespace names in qualified references, by what the reference resolves to: the Api records
    an imported namespace when (and only when) a type, alias, annotation or annotation type of it is referred to."""
    by = {'data_type': set(), 'alias': set(), 'annotation': set(), 'annotation_type': set()}

    def see_type(t):
        for r in _type_refs(t):
            if r.ns != ns.name:
                d = m.lookup(r.ns, r.name)
                by['alias' if d.kind == 'alias' else 'data_type'].add(r.ns)

    def see_anns(anns):
        for a in anns or ():
            if a[0] != ns.name:
                by['annotation'].add(a[0])

    for d in ns.defs:
        if d.kind in ('struct', 'union'):
            if d.parent and d.parent[0] != ns.name:
                by['data_type'].add(d.parent[0])
            for f in m.own_fields(d):
                see_type(f.type)
                see_anns(f.anns)
        elif d.kind == 'alias':
            see_type(d.type)
            see_anns(d.anns)
        elif d.kind == 'route':
            for t in (d.arg, d.result, d.error):
                see_type(t)
        elif d.kind == 'annotation':
            if not isinstance(d.atype, str) and d.atype[1] != ns.name:
                by['annotation_type'].add(d.atype[1])
    # 'for_data_types' is compared exactly; the other recorded reasons (annotation types reached through
    # applied annotations) follow an internal closure, so for aliases only inclusion is required
    return {'for_data_types': sorted(by['data_type']),
            'includes': UNSPEC, '_must_include': sorted(by['data_type'] | by['alias'])}


def expect(m, doc_order=None):
    """doc_order: {namespace: [indices of ns.docs in the order their files were given]} when a layout
    permuted the files that carry the docs of one namespace (docs concatenate in file order)."""
    ex = Expander(m)
    out = OrderedDict()
    for ns in sorted(m.namespaces, key=lambda n: n.name):
        docs = [ns.docs[i] for i in (doc_order or {}).get(ns.name, range(len(ns.docs)))]
        nd = {'doc': (''.join(doc_of(d) + '\n' for d in docs) if docs else None),
              'types': OrderedDict(), 'aliases': OrderedDict(), 'routes': OrderedDict(),
              'annotations': OrderedDict(), 'annotation_types': OrderedDict()}
        for d in ns.defs:
            if d.kind == 'struct':
                td = {'kind': 'struct', 'doc': doc_of(d.doc), 'parent': d.parent,
                      'fields': [field_desc(m, f) for f in m.own_fields(d)],
                      'all_fields': [f.name for f in m.struct_all_fields(d)],
                      'subtypes': ([(t, sn) for t, sn in d.subtypes['items']] if d.subtypes else None),
                      'catch_all': (not d.subtypes['closed']) if d.subtypes else None,
                      'examples': ex.all_examples(d)}
                nd['types'][d.name] = td
            elif d.kind == 'union':
                fs = [field_desc(m, f) for f in m.own_fields(d)]
                if m.union_declares_other(d):
                    fs.append({'name': 'other', 'type': ('void',), 'default': ('none',), 'doc': None,
                               'omitted': None, 'redactor': None, 'deprecated': False, 'preview': False,
                               'custom': [], 'catch_all': True})
                td = {'kind': 'union', 'doc': doc_of(d.doc), 'parent': d.parent, 'closed': d.closed,
                      'fields': fs, 'all_fields': [f.name for f in m.union_all_fields(d)],
                      'examples': ex.all_examples(d)}
                nd['types'][d.name] = td
            elif d.kind == 'alias':
                eff = ann_effects(m, d.anns, None)
                nd['aliases'][d.name] = {'doc': doc_of(d.doc), 'type': type_tree(m, d.type),
                                         'redactor': eff['redactor'], 'custom': eff['custom']}
            elif d.kind == 'route':
                attrs = OrderedDict()
                for f in m.cfg_fields:
                    if f.name in d.attrs and d.attrs[f.name] != ('null',):
                        v = d.attrs[f.name]
                        attrs[f.name] = ('tag', v[1]) if v[0] == 'tag' else ('lit', v[1])
                    elif f.default is not None:
                        attrs[f.name] = default_of(m, f)
                    else:
                        attrs[f.name] = ('lit', None)
                dep = d.deprecated
                nd['routes'][(d.name, d.version)] = {
                    'doc': doc_of(d.doc), 'arg': type_tree(m, d.arg), 'result': type_tree(m, d.result),
                    'error': type_tree(m, d.error),
                    'deprecated': (None if dep is None else (True if dep is True else tuple(dep))),
                    'attrs': attrs}
            elif d.kind == 'annotation':
                if d.atype == 'Omitted':
                    nd['annotations'][d.name] = ('Omitted', d.args[0])
                elif d.atype in ('RedactedBlot', 'RedactedHash'):
                    nd['annotations'][d.name] = (d.atype, d.args[0] if d.args else None)
                elif isinstance(d.atype, str):
                    nd['annotations'][d.name] = (d.atype,)
                else:
                    at = m.find_anntype(d.atype[1], d.atype[2])
                    kw = OrderedDict()
                    for i, p in enumerate(at.params):
                        if p.name in d.kwargs:
                            kw[p.name] = d.kwargs[p.name]
                        elif i < len(d.args):
                            kw[p.name] = d.args[i]
                        elif p.type.nullable:
                            kw[p.name] = None
                        else:
                            kw[p.name] = p.default[1]
                    nd['annotations'][d.name] = ('custom', (at.ns, at.name), kw)
            elif d.kind == 'annotation_type':
                nd['annotation_types'][d.name] = {
                    'doc': doc_of(d.doc),
                    'params': [{'name': p.name, 'type': type_tree(m, p.type),
                                'default': (('lit', p.default[1]) if p.default else ('none',)),
                                'doc': doc_of(p.doc)} for p in d.params]}
        nd['imports'] = expected_imports(m, ns)
        # documented normal form: alphabetical
        nd['types'] = OrderedDict(sorted(nd['types'].items()))
        nd['aliases'] = OrderedDict(sorted(nd['aliases'].items()))
        nd['routes'] = OrderedDict(sorted(nd['routes'].items()))
        nd['annotations'] = OrderedDict(sorted(nd['annotations'].items()))
        out[ns.name] = nd
    schema = [{'name': f.name, 'type': type_tree(m, f.type), 'default': default_of(m, f),
               'doc': doc_of(f.doc)} for f in m.cfg_fields] if m.cfg else []
    return {'namespaces': out, 'route_schema': schema}


# ------------------------------------------------------------------ observation

def obs_type(dt):
    from stone.ir import data_types as D
    if isinstance(dt, D.Nullable):
        return ('nullable', obs_type(dt.data_type))
    if isinstance(dt, D.Void):
        return ('void',)
    if isinstance(dt, D.List):
        return ('list', obs_type(dt.data_type), dt.min_items, dt.max_items)
    if isinstance(dt, D.Map):
        return ('map', obs_type(dt.key_data_type), obs_type(dt.value_data_type))
    if isinstance(dt, D.Alias):
        return ('alias', dt.namespace.name, dt.name)
    if isinstance(dt, D.UserDefined):
        return ('user', dt.namespace.name, dt.name)
    args = {}
    if isinstance(dt, (D._BoundedInteger, D._BoundedFloat)):
        for k in ('min_value', 'max_value'):
            if getattr(dt, k) is not None:
                args[k] = getattr(dt, k)
    elif isinstance(dt, D.String):
        for k in ('min_length', 'max_length', 'pattern'):
            if getattr(dt, k) is not None:
                args[k] = getattr(dt, k)
    elif isinstance(dt, D.Timestamp):
        args['format'] = dt.format
    return ('prim', dt.name, tuple(sorted(args.items())))


def obs_default(f):
    from stone.ir import data_types as D
    if not f.has_default:
        return ('none',)
    v = f.default
    if isinstance(v, D.TagRef):
        return ('tag', v.tag_name)
    return ('lit', v)


def obs_redactor(r):
    if r is None:
        return None
    return (type(r).__name__, r.regex)


def obs_field(f, union=False):
    d = {'name': f.name, 'type': obs_type(f.data_type),
         'default': obs_default(f) if not union else ('none',),
         'doc': f.doc, 'omitted': f.omitted_caller, 'redactor': obs_redactor(f.redactor),
         'deprecated': bool(f.deprecated), 'preview': bool(f.preview),
         'custom': [(a.namespace.name, a.name) for a in f.custom_annotations]}
    if union and f.catch_all:
        d['catch_all'] = True
    return d


def obs_attr(v):
    from stone.ir import data_types as D
    if isinstance(v, D.TagRef):
        return ('tag', v.tag_name)
    return ('lit', v)


def observe(api):
    from stone.ir import data_types as D
    out = OrderedDict()
    for name, ns in api.namespaces.items():
        nd = {'doc': ns.doc, 'types': OrderedDict(), 'aliases': OrderedDict(), 'routes': OrderedDict(),
              'annotations': OrderedDict(), 'annotation_types': OrderedDict()}
        for dt in ns.data_types:
            par = (dt.parent_type.namespace.name, dt.parent_type.name) if dt.parent_type else None
            exs = OrderedDict((lbl, {'value': e.value, 'text': e.text})
                              for lbl, e in dt.get_examples().items())
            if isinstance(dt, D.Struct):
                sub = None
                if dt.has_enumerated_subtypes():
                    sub = [(sf.name, (sf.data_type.namespace.name, sf.data_type.name))
                           for sf in dt.get_enumerated_subtypes()]
                nd['types'][dt.name] = {
                    'kind': 'struct', 'doc': dt.doc, 'parent': par,
                    'fields': [obs_field(f) for f in dt.fields],
                    'all_fields': [f.name for f in dt.all_fields],
                    'subtypes': sub,
                    'catch_all': dt.is_catch_all() if dt.has_enumerated_subtypes() else None,
                    'examples': exs}
            else:
                nd['types'][dt.name] = {
                    'kind': 'union', 'doc': dt.doc, 'parent': par, 'closed': dt.closed,
                    'fields': [obs_field(f, True) for f in dt.fields],
                    'all_fields': [f.name for f in dt.all_fields],
                    'examples': exs}
        for a in ns.aliases:
            nd['aliases'][a.name] = {'doc': a.doc, 'type': obs_type(a.data_type),
                                     'redactor': obs_redactor(a.redactor),
                                     'custom': [(x.namespace.name, x.name) for x in a.custom_annotations]}
        for r in ns.routes:
            dep = None
            if r.deprecated is not None:
                dep = True if r.deprecated.by is None else (r.deprecated.by.name, r.deprecated.by.version)
            nd['routes'][(r.name, r.version)] = {
                'doc': r.doc, 'arg': obs_type(r.arg_data_type), 'result': obs_type(r.result_data_type),
                'error': obs_type(r.error_data_type), 'deprecated': dep,
                'attrs': OrderedDict((k, obs_attr(v)) for k, v in r.attrs.items())}
        for a in ns.annotations:
            if isinstance(a, D.Omitted):
                nd['annotations'][a.name] = ('Omitted', a.omitted_caller)
            elif isinstance(a, D.Redacted):
                nd['annotations'][a.name] = (type(a).__name__, a.regex)
            elif isinstance(a, D.CustomAnnotation):
                nd['annotations'][a.name] = ('custom', (a.annotation_type.namespace.name,
                                                        a.annotation_type.name),
                                             OrderedDict((p.name, a.kwargs.get(p.name, UNSPEC))
                                                         for p in a.annotation_type.params))
            else:
                nd['annotations'][a.name] = (type(a).__name__,)
        nd['imports'] = {
            'for_data_types': [n.name for n in ns.get_imported_namespaces(must_have_imported_data_type=True)],
            'includes': [n.name for n in ns.get_imported_namespaces()], '_must_include': UNSPEC}
        for at in ns.annotation_types:
            nd['annotation_types'][at.name] = {
                'doc': at.doc,
                'params': [{'name': p.name, 'type': obs_type(p.data_type),
                            'default': (('lit', p.default) if p.has_default else ('none',)),
                            'doc': p.doc} for p in at.params]}
        out[name] = nd
    schema = []
    if api.route_schema is not None:
        for f in api.route_schema.fields:
            schema.append({'name': f.name, 'type': obs_type(f.data_type), 'default': obs_default(f),
                           'doc': f.doc})
    return {'namespaces': out, 'route_schema': schema}


# ------------------------------------------------------------------ diff

def same_scalar(a, b):
    if a is UNSPEC or b is UNSPEC:
        return True
    if isinstance(a, bool) or isinstance(b, bool):
        return isinstance(a, bool) and isinstance(b, bool) and a == b
    if isinstance(a, (int, float)) and isinstance(b, (int, float)):
        return a == b
    if isinstance(a, bytes) and isinstance(b, str):
        return a == b.encode('utf-8')
    if isinstance(a, datetime.datetime) or isinstance(b, datetime.datetime):
        return True   # representation of timestamp attributes is not specified here
    return type(a) is type(b) and a == b


def diff(exp, got, path=()):
    """Yield (path, expected, got) for every difference.  Dict order matters
    only for OrderedDicts the expectation marks as ordered (all are)."""
    if exp is UNSPEC or got is UNSPEC:
        return
    if isinstance(exp, dict) and isinstance(got, dict):
        ek, gk = list(exp.keys()), list(got.keys())
        if set(ek) != set(gk):
            yield path + ('<keys>',), sorted(map(str, set(ek) - set(gk))), sorted(map(str, set(gk) - set(ek)))
        elif ek != gk and isinstance(exp, OrderedDict) and path and path[-1] in (
                'types', 'aliases', 'routes', 'annotations', 'examples'):
            yield path + ('<order>',), ek, gk
        for k in ek:
            if k in got:
                yield from diff(exp[k], got[k], path + (k,))
        return
    if isinstance(exp, (list, tuple)) and isinstance(got, (list, tuple)) and not (
            exp and exp[0] in ('lit',) and len(exp) == 2):
        if len(exp) != len(got):
            yield path + ('<len>',), _short(exp), _short(got)
            return
        for i, (a, b) in enumerate(zip(exp, got)):
            key = a.get('name', i) if isinstance(a, dict) else i
            yield from diff(a, b, path + (key,))
        return
    if isinstance(exp, tuple) and isinstance(got, tuple) and len(exp) == 2 and exp[0] == 'lit':
        if got[0] != 'lit' or not same_scalar(exp[1], got[1]):
            yield path, exp, got
        return
    if not same_scalar(exp, got):
        yield path, _short(exp), _short(got)


def _short(x):
    s = repr(x)
    return s if len(s) < 300 else s[:300] + '...'


def cell_of(path):
    """Abstract a diff path to (declaration kind, attribute) for signatures."""
    p = [str(x) for x in path]
    if p and p[0] == 'route_schema':
        return 'route_schema.' + (p[-1] if not p[-1].isdigit() else 'field')
    if 'imports' in p:
        return 'namespace.imports.' + p[p.index('imports') + 1]
    kinds = [x for x in p if x in ('types', 'aliases', 'routes', 'annotations', 'annotation_types', 'doc')]
    kind = kinds[0] if kinds else 'namespace'
    attrs = [x for x in p if x in ('doc', 'parent', 'fields', 'all_fields', 'subtypes', 'catch_all',
                                   'examples', 'closed', 'type', 'default', 'omitted', 'redactor',
                                   'deprecated', 'preview', 'custom', 'arg', 'result', 'error',
                                   'attrs', 'params', 'text', 'value', '<keys>', '<order>', '<len>',
                                   'name', 'kind')]
    return kind + '.' + '.'.join(attrs[:3])
