"""Reference wire format, written from docs/json_serializer.rst and driven by the
model (never by generated reflection tables)."""
import base64
import datetime
import math
import re
from collections import OrderedDict

from ..gen.values import SV, UV
from ..gen.model import PRIM_INTS, PRIM_FLOATS


class Unspecified(Exception):
    pass


def encode(m, t, av, perms=None):
    """JSON tree of value av at type position t.  perms: set of caller
    permissions (None = no permission model, every field visible)."""
    if t is None or (t.kind == 'prim' and t.name == 'Void'):
        return None
    if av is None:
        return None
    if t.kind == 'prim':
        return encode_prim(t, av)
    if t.kind == 'list':
        return [encode(m, t.args['item'], x, perms) for x in av]
    if t.kind == 'map':
        return OrderedDict((k, encode(m, t.args['value'], v, perms)) for k, v in av.items())
    d = m.lookup(t.ns, t.name)
    if d.kind == 'alias':
        return encode(m, d.type, av, perms)
    if d.kind == 'struct':
        return encode_struct(m, d, av, perms)
    return encode_union(m, d, av, perms)


def encode_prim(t, av):
    if t.name == 'Bytes':
        return base64.b64encode(bytes(av)).decode('ascii')
    if t.name == 'Timestamp':
        return ts_text(av, t.args['format'])
    if t.name in PRIM_FLOATS and isinstance(av, int):
        return float(av)          # (also a bool: numbers are written as numbers)
    if t.name in PRIM_INTS and isinstance(av, bool):
        return int(av)
    return av


def omitted_caller(m, f):
    for a in f.anns:
        ad = m.find_ann(*a)
        if ad.atype == 'Omitted':
            return ad.args[0]
    return None


def visible(m, f, perms):
    if perms is None:
        return True
    c = omitted_caller(m, f)
    return c is None or c in perms


def encode_struct(m, d, av, perms=None):
    out = OrderedDict()
    vd = m.lookup(av.ns, av.name)
    if d.subtypes:
        tag = [tg for tg, sn in d.subtypes['items'] if sn == (av.ns, av.name)]
        if not tag:
            raise Unspecified('instance of the root itself, or not a listed subtype')
        out['.tag'] = tag[0]
    elif (vd.ns, vd.name) != (d.ns, d.name):
        # an instance of a struct extending d where d is declared: "the definition maintains the list of
        # fields for serialization" (bv.Struct.validate_type_only) - the declared struct's fields only
        if not any((a.ns, a.name) == (d.ns, d.name) for a in m.ancestors(vd)):
            raise Unspecified('instance of an unrelated struct')
        vd = d
    for f in m.struct_all_fields(vd):
        if f.name in av.fields and visible(m, f, perms):
            v = av.fields[f.name]
            if v is None:
                continue
            out[f.name] = encode(m, f.type, v, perms)
    return out


def encode_union(m, d, av, perms=None):
    fs = [f for f in m.union_all_fields(m.lookup(av.ns, av.name)) if f.name == av.tag]
    f = fs[0]
    out = OrderedDict([('.tag', av.tag)])
    if f.type is None or av.value is None:
        return out
    enc = encode(m, f.type, av.value, perms)
    tgt = m.target(f.type)
    if tgt is not None and tgt.kind == 'struct' and not tgt.subtypes:
        out.update(enc)
    else:
        out[av.tag] = enc
    return out


# --------------------------------------------------------------- comparison

def kind(x):
    if x is None:
        return 'null'
    if isinstance(x, bool):
        return 'bool'
    if isinstance(x, (int, float)):
        return 'number'
    if isinstance(x, str):
        return 'string'
    if isinstance(x, (list, tuple)):
        return 'array'
    if isinstance(x, dict):
        return 'object'
    return 'other:' + type(x).__name__


def json_eq(a, b, path=''):
    """Kind-strict JSON comparison.  Returns None if equal else a path/description."""
    for x, y in ((a, b), (b, a)):
        if isinstance(x, _NullOrMask):
            return None if (y is None or y == BLOT_MASK or isinstance(y, _NullOrMask)) \
                else '%s: %r is neither null nor the mask' % (path or '$', y)
    ka, kb = kind(a), kind(b)
    if ka != kb:
        return '%s: kind %s != %s' % (path or '$', ka, kb)
    if ka == 'number':
        if isinstance(a, float) and isinstance(b, float) and math.isnan(a) and math.isnan(b):
            return None
        return None if a == b else '%s: %r != %r' % (path or '$', a, b)
    if ka == 'array':
        if len(a) != len(b):
            return '%s: length %d != %d' % (path or '$', len(a), len(b))
        for i, (x, y) in enumerate(zip(a, b)):
            r = json_eq(x, y, '%s[%d]' % (path, i))
            if r:
                return r
        return None
    if ka == 'object':
        if set(a) != set(b):
            return '%s: keys %s != %s' % (path or '$', sorted(a, key=str), sorted(b, key=str))
        for k in a:
            r = json_eq(a[k], b[k], '%s.%s' % (path, k))
            if r:
                return r
        return None
    return None if a == b else '%s: %r != %r' % (path or '$', a, b)


def pure_json(x):
    """Is x built only from dict/list/str/int/float/bool/None with finite floats and str keys?"""
    if x is None or isinstance(x, (bool, int, str)):
        return True
    if isinstance(x, float):
        return not (math.isnan(x) or math.isinf(x))
    if isinstance(x, list):
        return all(pure_json(v) for v in x)
    if isinstance(x, dict):
        return all(isinstance(k, str) and pure_json(v) for k, v in x.items())
    return False


# --------------------------------------------------------------- document classifier
# classify(m, t, doc, strict) -> 'accept' | 'reject' | 'unspecified'
# Written from docs/json_serializer.rst, docs/evolve_spec.rst and the C06 statement.
# `unspecified` wherever the documents are silent; only accept/reject are judged.

ACCEPT, REJECT, UNSPEC = 'accept', 'reject', 'unspecified'


def _all(vs):
    vs = list(vs)
    if REJECT in vs:
        return REJECT
    if UNSPEC in vs:
        return UNSPEC
    return ACCEPT


def no_required_fields(m, d):
    return all(f.default is not None or m.is_nullable(f.type) for f in m.struct_all_fields(d))


def classify(m, t, x, strict):
    import re
    if t is None or (t.kind == 'prim' and t.name == 'Void'):
        if x is None:
            return ACCEPT
        return REJECT if strict else UNSPEC
    if x is None:
        if m.is_nullable(t):
            return ACCEPT
        tgt = m.target(t)
        if tgt is not None and tgt.kind == 'struct' and not tgt.subtypes and no_required_fields(m, tgt):
            return UNSPEC      # decoder fills an empty struct by design
        return REJECT
    if t.kind == 'prim':
        n = t.name
        k = kind(x)
        if n == 'Boolean':
            return ACCEPT if k == 'bool' else REJECT
        if n in PRIM_INTS:
            if k == 'bool':
                return REJECT       # a JSON boolean is not a JSON number
            if k != 'number':
                return REJECT
            if isinstance(x, float):
                if math.isnan(x) or math.isinf(x) or x != int(x):
                    return REJECT
                return UNSPEC   # 1.0 where an integer is expected: documents silent
            lo, hi = PRIM_INTS[n]
            return ACCEPT if t.args.get('min_value', lo) <= x <= t.args.get('max_value', hi) else REJECT
        if n in PRIM_FLOATS:
            if k == 'bool':
                return REJECT
            if k != 'number':
                return REJECT
            try:
                f = float(x)
            except OverflowError:
                return REJECT
            if math.isnan(f) or math.isinf(f):
                return REJECT
            lo, hi = PRIM_FLOATS[n]
            if lo is not None and not (lo <= f <= hi):
                return REJECT
            if t.args.get('min_value') is not None and f < float(t.args['min_value']):
                return REJECT
            if t.args.get('max_value') is not None and f > float(t.args['max_value']):
                return REJECT
            return ACCEPT
        if n == 'String':
            if k != 'string':
                return REJECT
            if t.args.get('min_length') is not None and len(x) < t.args['min_length']:
                return REJECT
            if t.args.get('max_length') is not None and len(x) > t.args['max_length']:
                return REJECT
            if t.args.get('pattern') is not None and re.fullmatch(t.args['pattern'], x) is None:
                return REJECT
            return ACCEPT
        if n == 'Bytes':
            if k != 'string':
                return REJECT
            try:
                raw = base64.b64decode(x.encode('ascii'), validate=True)
                return ACCEPT if base64.b64encode(raw).decode('ascii') == x else UNSPEC
            except Exception:
                return REJECT      # not base64 at all (canonical form is only required for ACCEPT)
        if n == 'Timestamp':
            if k != 'string':
                return REJECT
            try:
                dt = datetime.datetime.strptime(x, t.args['format'])
            except ValueError:
                return REJECT
            if dt.tzinfo is not None and dt.utcoffset().total_seconds() != 0:
                return UNSPEC      # only UTC values are documented as valid
            return ACCEPT if ts_text(dt, t.args["format"]) == x else UNSPEC
        raise AssertionError(t)
    if t.kind == 'list':
        if kind(x) != 'array':
            return REJECT
        if t.args.get('min_items') is not None and len(x) < t.args['min_items']:
            return REJECT
        if t.args.get('max_items') is not None and len(x) > t.args['max_items']:
            return REJECT
        return _all(classify(m, t.args['item'], v, strict) for v in x)
    if t.kind == 'map':
        if kind(x) != 'object':
            return REJECT
        return _all([classify(m, t.args['key'], k, strict) for k in x] +
                    [classify(m, t.args['value'], v, strict) for v in x.values()])
    d = m.lookup(t.ns, t.name)
    if d.kind == 'alias':
        inner = d.type
        return classify(m, inner, x, strict)
    if d.kind == 'struct':
        return classify_struct(m, d, x, strict)
    return classify_union(m, d, x, strict)


def classify_struct(m, d, x, strict, flattened=False):
    if kind(x) != 'object':
        return REJECT
    if d.subtypes:
        tag = x.get('.tag')
        if '.tag' not in x or kind(tag) != 'string':
            return REJECT
        leaves = dict(d.subtypes['items'])
        if tag in leaves:
            return classify_fields(m, m.lookup(*leaves[tag]), x, strict)
        if strict or d.subtypes['closed']:
            return REJECT
        return classify_fields(m, d, x, strict)
    return classify_fields(m, d, x, strict)


def classify_fields(m, d, x, strict):
    fields = {f.name: f for f in m.struct_all_fields(d)}
    out = []
    for k, v in x.items():
        if not isinstance(k, str):
            return UNSPEC
        if k in fields:
            f = fields[k]
            if v is None:
                if f.type.nullable or m.is_nullable(f.type):
                    out.append(ACCEPT)
                    continue
                tgt = m.target(f.type)
                if tgt is not None and tgt.kind == 'struct' and not tgt.subtypes and \
                        no_required_fields(m, tgt):
                    out.append(UNSPEC)
                    continue
                out.append(REJECT)
                continue
            out.append(classify(m, f.type, v, strict))
        elif k == '.tag':
            pass        # tolerated: struct members of unions are flattened next to it
        else:
            out.append(REJECT if strict else ACCEPT)
    for name, f in fields.items():
        if name not in x and f.default is None and not m.is_nullable(f.type):
            tgt = m.target(f.type)
            if tgt is not None and tgt.kind == 'struct' and not tgt.subtypes and no_required_fields(m, tgt):
                out.append(UNSPEC)      # has_default(): filled with an empty struct by design
            else:
                out.append(REJECT)
    return _all(out)


def classify_union(m, d, x, strict):
    tags = {f.name: f for f in m.union_all_fields(d)}
    catch_all = [f.name for f in tags.values() if getattr(f, 'implicit', False)]
    k = kind(x)
    if k == 'string':
        tag = x
        if tag in tags:
            f = tags[tag]
            if tag in catch_all:
                return REJECT
            if f.type is None:
                return ACCEPT
            if m.is_nullable(f.type):
                return UNSPEC      # bare string for a nullable member: accepted by the code, not promised
            return REJECT
        if catch_all and not strict:
            return ACCEPT
        return REJECT
    if k != 'object':
        return REJECT
    if '.tag' not in x or kind(x['.tag']) != 'string':
        return REJECT
    tag = x['.tag']
    if tag not in tags:
        if catch_all and not strict:
            return ACCEPT
        return REJECT
    if tag in catch_all:
        return REJECT
    f = tags[tag]
    others = [kk for kk in x if kk not in ('.tag', tag)]
    if any(not isinstance(kk, str) for kk in x):
        return UNSPEC
    if f.type is None:
        if strict:
            if (tag in x and x[tag] is not None) or others:
                return REJECT
            return ACCEPT
        return ACCEPT
    nullable = m.is_nullable(f.type)
    tgt = m.target(f.type)
    if tgt is not None and tgt.kind == 'struct' and not tgt.subtypes:
        if nullable and len(x) == 1:
            return ACCEPT
        return classify_fields(m, tgt, x, strict)
    # nested under the tag name
    if tag not in x:
        if others:
            return REJECT if strict else UNSPEC
        return ACCEPT if nullable else REJECT
    if x[tag] is None:
        # explicit null under the tag name: the documents promise explicit null
        # for struct fields only
        return UNSPEC if nullable else REJECT
    inner = classify(m, f.type, x[tag], strict)
    if others:
        return REJECT if (strict or inner == REJECT) else UNSPEC
    return inner


def ts_text(dt, fmt):
    """Text of a timestamp under a strftime format; %Y is four digits (what strptime reads)."""
    if dt.year < 1000:
        fmt = re.sub(r'((?:^|[^%])(?:%%)*)%Y', lambda mt: mt.group(1) + '%04d' % dt.year, fmt)
    return dt.strftime(fmt)


# --------------------------------------------------------------- permissions / redaction

class NoAccess(Exception):
    """The value selects a union tag the caller has no permission for."""


BLOT_MASK = '********'


class _NullOrMask:
    """Reference output for a null under a redactor: null or the blot mask."""

    def __repr__(self):
        return '<null|mask>'


NULL_OR_MASK = _NullOrMask()


def redactor_of(m, anns):
    for a in anns:
        ad = m.find_ann(*a)
        if ad.atype in ('RedactedBlot', 'RedactedHash'):
            return (ad.atype, ad.args[0] if ad.args else None)
    return None


def apply_redactor(red, val):
    """Reference redaction of one value: blot mask, configured regex groups, or hash."""
    import hashlib
    import re
    kind_, regex = red
    match = None
    if regex and isinstance(val, str):
        match = re.search(regex, val)
    if kind_ == 'RedactedBlot':
        if match:
            return '***'.join(match.groups())
        return BLOT_MASK
    hashed = None
    if isinstance(val, bool):
        text = str(val)
    elif isinstance(val, (int, float)):
        text = str(val)
    else:
        text = val
    if isinstance(text, str):
        try:
            hashed = hashlib.md5(text.encode('utf-8')).hexdigest()
        except ValueError:
            hashed = None
    if match:
        blotted = '***'.join(match.groups())
        return '%s (%s)' % (hashed, blotted) if hashed else blotted
    return hashed


def redact_position(red, av):
    if isinstance(av, list):
        return [apply_redactor(red, x) for x in av]
    if isinstance(av, dict):
        return OrderedDict((k, apply_redactor(red, v)) for k, v in av.items())
    return apply_redactor(red, av)


def encode_p(m, t, av, perms, redact, item=False):
    """Permission- and redaction-aware reference encoder."""
    if av is None and redact and t is not None and t.kind == 'ref':
        # a null at a position whose alias chain carries a redactor may be handed to
        # the redactor (mask) or stay null: nothing can leak from null, so the
        # property allows both
        cur = t
        while cur is not None and cur.kind == 'ref':
            d = m.lookup(cur.ns, cur.name)
            if d.kind != 'alias':
                break
            if redactor_of(m, d.anns):
                return NULL_OR_MASK
            cur = d.type
    if t is None or (t.kind == 'prim' and t.name == 'Void') or av is None:
        return None
    if t.kind == 'prim':
        return encode_prim(t, av)
    if t.kind == 'list':
        return [encode_p(m, t.args['item'], x, perms, redact, True) for x in av]
    if t.kind == 'map':
        return OrderedDict((k, encode_p(m, t.args['value'], v, perms, redact, True)) for k, v in av.items())
    d = m.lookup(t.ns, t.name)
    if d.kind == 'alias':
        red = redactor_of(m, d.anns)
        if red and redact:
            return redact_position(red, av)
        return encode_p(m, d.type, av, perms, redact)
    if d.kind == 'struct':
        out = OrderedDict()
        vd = m.lookup(av.ns, av.name)
        if d.subtypes:
            out['.tag'] = [tg for tg, sn in d.subtypes['items'] if sn == (av.ns, av.name)][0]
        pub, extra = [], []
        for f in m.struct_all_fields(vd):
            c = omitted_caller(m, f)
            if c is None:
                pub.append(f)
            elif c in perms:
                extra.append((perms.index(c), f))
        for f in pub + [f for _, f in sorted(extra, key=lambda x: x[0])]:
            v = av.fields.get(f.name)
            if v is None:
                continue
            red = redactor_of(m, f.anns)
            if red and redact:
                out[f.name] = redact_position(red, v)
            else:
                out[f.name] = encode_p(m, f.type, v, perms, redact)
        return out
    f = [x for x in m.union_all_fields(m.lookup(av.ns, av.name)) if x.name == av.tag][0]
    c = omitted_caller(m, f) if not getattr(f, 'implicit', False) else None
    if c is not None and c not in perms:
        raise NoAccess(av.tag)
    out = OrderedDict([('.tag', av.tag)])
    if f.type is None or av.value is None:
        return out
    red = redactor_of(m, f.anns)
    if red and redact:
        enc = redact_position(red, av.value)
        out[av.tag] = enc
        return out
    enc = encode_p(m, f.type, av.value, perms, redact)
    tgt = m.target(f.type)
    if tgt is not None and tgt.kind == 'struct' and not tgt.subtypes:
        out.update(enc)
    else:
        out[av.tag] = enc
    return out
