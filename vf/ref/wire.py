"""Reference wire format, written from docs/json_serializer.rst and driven by the
model (never by generated reflection tables)."""
import base64
import datetime
import math
from collections import OrderedDict

from ..gen.values import SV, UV
from ..gen.model import PRIM_INTS, PRIM_FLOATS


class Unspecified(Exception):
    pass


def encode(m, t, av, perms=None):
    """JSON tree of value av at type position t.  perms: set of caller
    permissions (None = no permission model, every field visible)."""
    if t is None or (t.kind == 'prim' and t.name == 'Void'):
        return None
    if av is None:
        return None
    if t.kind == 'prim':
        return encode_prim(t, av)
    if t.kind == 'list':
        return [encode(m, t.args['item'], x, perms) for x in av]
    if t.kind == 'map':
        return OrderedDict((k, encode(m, t.args['value'], v, perms)) for k, v in av.items())
    d = m.lookup(t.ns, t.name)
    if d.kind == 'alias':
        return encode(m, d.type, av, perms)
    if d.kind == 'struct':
        return encode_struct(m, d, av, perms)
    return encode_union(m, d, av, perms)


def encode_prim(t, av):
    if t.name == 'Bytes':
        return base64.b64encode(bytes(av)).decode('ascii')
    if t.name == 'Timestamp':
        return av.strftime(t.args['format'])
    if t.name in PRIM_FLOATS and isinstance(av, int) and not isinstance(av, bool):
        return float(av)
    return av


def omitted_caller(m, f):
    for a in f.anns:
        ad = m.find_ann(*a)
        if ad.atype == 'Omitted':
            return ad.args[0]
    return None


def visible(m, f, perms):
    if perms is None:
        return True
    c = omitted_caller(m, f)
    return c is None or c in perms


def encode_struct(m, d, av, perms=None):
    out = OrderedDict()
    vd = m.lookup(av.ns, av.name)
    if d.subtypes:
        tag = [tg for tg, sn in d.subtypes['items'] if sn == (av.ns, av.name)]
        if not tag:
            raise Unspecified('instance of the root itself, or not a listed subtype')
        out['.tag'] = tag[0]
    elif (vd.ns, vd.name) != (d.ns, d.name):
        raise Unspecified('subclass instance in a plain struct position')
    for f in m.struct_all_fields(vd):
        if f.name in av.fields and visible(m, f, perms):
            v = av.fields[f.name]
            if v is None:
                continue
            out[f.name] = encode(m, f.type, v, perms)
    return out


def encode_union(m, d, av, perms=None):
    fs = [f for f in m.union_all_fields(m.lookup(av.ns, av.name)) if f.name == av.tag]
    f = fs[0]
    out = OrderedDict([('.tag', av.tag)])
    if f.type is None or av.value is None:
        return out
    enc = encode(m, f.type, av.value, perms)
    tgt = m.target(f.type)
    if tgt is not None and tgt.kind == 'struct' and not tgt.subtypes:
        out.update(enc)
    else:
        out[av.tag] = enc
    return out


# --------------------------------------------------------------- comparison

def kind(x):
    if x is None:
        return 'null'
    if isinstance(x, bool):
        return 'bool'
    if isinstance(x, (int, float)):
        return 'number'
    if isinstance(x, str):
        return 'string'
    if isinstance(x, (list, tuple)):
        return 'array'
    if isinstance(x, dict):
        return 'object'
    return 'other:' + type(x).__name__


def json_eq(a, b, path=''):
    """Kind-strict JSON comparison.  Returns None if equal else a path/description."""
    ka, kb = kind(a), kind(b)
    if ka != kb:
        return '%s: kind %s != %s' % (path or '$', ka, kb)
    if ka == 'number':
        if isinstance(a, float) and isinstance(b, float) and math.isnan(a) and math.isnan(b):
            return None
        return None if a == b else '%s: %r != %r' % (path or '$', a, b)
    if ka == 'array':
        if len(a) != len(b):
            return '%s: length %d != %d' % (path or '$', len(a), len(b))
        for i, (x, y) in enumerate(zip(a, b)):
            r = json_eq(x, y, '%s[%d]' % (path, i))
            if r:
                return r
        return None
    if ka == 'object':
        if set(a) != set(b):
            return '%s: keys %s != %s' % (path or '$', sorted(a, key=str), sorted(b, key=str))
        for k in a:
            r = json_eq(a[k], b[k], '%s.%s' % (path, k))
            if r:
                return r
        return None
    return None if a == b else '%s: %r != %r' % (path or '$', a, b)


def pure_json(x):
    """Is x built only from dict/list/str/int/float/bool/None with finite floats and str keys?"""
    if x is None or isinstance(x, (bool, int, str)):
        return True
    if isinstance(x, float):
        return not (math.isnan(x) or math.isinf(x))
    if isinstance(x, list):
        return all(pure_json(v) for v in x)
    if isinstance(x, dict):
        return all(isinstance(k, str) and pure_json(v) for k, v in x.items())
    return False
