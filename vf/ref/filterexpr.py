"""Independent model of --filter-by-route-attr expressions: trees, rendering, evaluation."""


class Pred:
    def __init__(self, attr, op, lit):
        self.attr, self.op, self.lit = attr, op, lit


class Conj:
    def __init__(self, op, lhs, rhs):
        self.op, self.lhs, self.rhs = op, lhs, rhs


def lit_text(v):
    if v is None:
        return 'null'
    if isinstance(v, bool):
        return 'true' if v else 'false'
    if isinstance(v, int):
        return str(v)
    if isinstance(v, float):
        s = repr(v)
        if 'e' in s:
            mant, exp = s.split('e')
            s = mant + 'e' + str(int(exp))
        return s
    # string literals take the escapes of spec string literals: \\ \" \n \t
    return '"%s"' % (v.replace('\\', '\\\\').replace('"', '\\"').replace('\n', '\\n').replace('\t', '\\t'))


def render(e, rnd, parent=None, side=None):
    """Text with the parentheses precedence requires, plus random redundant ones
    and random spacing."""
    if isinstance(e, Pred):
        sp = rnd.choice(['', ' '])
        s = '%s%s%s%s%s' % (e.attr, sp, e.op, sp, lit_text(e.lit))
        return '(%s)' % s if rnd.random() < 0.1 else s
    s = '%s %s %s' % (render(e.lhs, rnd, e.op, 'l'), e.op, render(e.rhs, rnd, e.op, 'r'))
    need = False
    if parent == 'and' and e.op == 'or':
        need = True
    if parent == e.op and side == 'r':
        need = rnd.random() < 0.5      # same operator on the right: grouping is irrelevant to truth
    if parent == 'or' and e.op == 'and':
        need = False
    if need or rnd.random() < 0.15:
        return '(%s)' % s
    return s


def same_kind_equal(a, b):
    """Equality between an attribute value and a literal of the same kind (or null)."""
    if a is None or b is None:
        return a is None and b is None
    if isinstance(a, bool) or isinstance(b, bool):
        return isinstance(a, bool) and isinstance(b, bool) and a == b
    if isinstance(a, (int, float)) and isinstance(b, (int, float)):
        return a == b
    return type(a) is type(b) and a == b


def evaluate(e, attrs):
    if isinstance(e, Pred):
        eq = same_kind_equal(attrs.get(e.attr), e.lit)
        return eq if e.op == '=' else not eq
    l, r = evaluate(e.lhs, attrs), evaluate(e.rhs, attrs)
    return (l and r) if e.op == 'and' else (l or r)


def atoms(e):
    if isinstance(e, Pred):
        return [e]
    return atoms(e.lhs) + atoms(e.rhs)


def shape(e):
    if isinstance(e, Pred):
        return 'p'
    return '(%s %s %s)' % (shape(e.lhs), e.op[0], shape(e.rhs))


def random_expr(rnd, atom_fn, depth):
    if depth == 0 or rnd.random() < 0.3:
        return atom_fn()
    return Conj(rnd.choice(['and', 'or']), random_expr(rnd, atom_fn, depth - 1),
                random_expr(rnd, atom_fn, depth - 1))
