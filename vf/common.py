"""Shared infrastructure: repo location, seeds, watchdog, result containers."""
import contextlib
import hashlib
import json
import os
import signal
import time
import sys
import traceback

VERIF = os.path.dirname(os.path.dirname(os.path.abspath(__file__)))
REPO = os.environ.get('VERIF_REPO', '/repo')
DEPS = os.path.join(VERIF, '.deps')
PY = '/venv/bin/python' if os.path.exists('/venv/bin/python') else sys.executable


def use_repo():
    """Make `import stone` resolve to the working tree under test."""
    if sys.path[0] != REPO:
        sys.path.insert(0, REPO)
    if DEPS not in sys.path:
        sys.path.append(DEPS)
    for name in list(sys.modules):
        if name == 'stone' or name.startswith('stone.'):
            f = getattr(sys.modules[name], '__file__', None) or ''
            if not f.startswith(REPO):
                del sys.modules[name]


def child_env(**extra):
    env = dict(os.environ)
    env['PYTHONPATH'] = os.pathsep.join([REPO, VERIF, DEPS])
    env.setdefault('PYTHONHASHSEED', '0')
    env['VERIF_REPO'] = REPO
    env.update({k: str(v) for k, v in extra.items()})
    return env


def base_seed():
    try:
        return int(os.environ.get('VERIF_SEED', '0'))
    except ValueError:
        return 0


def case_seed(prop, seed, idx, salt=''):
    h = hashlib.sha256(('%s/%s/%s/%s' % (prop, seed, idx, salt)).encode()).digest()
    return int.from_bytes(h[:8], 'big')


def default_limit(tier):
    """Wall-clock limit of one check run: 15 min for the quick tier (it needs about one), 40 min for the thorough
    tier (VERIF_THOROUGH_LIMIT overrides, in seconds).  Shards stop generating cases at 60 % of the limit and report
    what they did, so the thorough tier is time-bounded: a faster machine explores more cases, no machine is killed."""
    if tier == 'quick':
        return 900
    try:
        return max(300, int(os.environ.get('VERIF_THOROUGH_LIMIT', '2400')))
    except ValueError:
        return 2400


def out_of_time(frac=0.6):
    """True once the shard has used `frac` of the wall-clock limit the driver gave it (VERIF_T0 / VERIF_LIMIT).
    Workloads stop generating new cases then and report what they did, so that a slow or loaded machine yields a
    smaller exploration instead of a killed shard with nothing to report."""
    try:
        t0, limit = float(os.environ['VERIF_T0']), float(os.environ['VERIF_LIMIT'])
    except (KeyError, ValueError):
        return False
    return time.time() > t0 + frac * limit


def case_range(idx, total, n, res=None, frac=0.6):
    """range(idx, total, n) that ends early at the soft deadline; the number of cases cut is recorded."""
    done = 0
    for ci in range(idx, total, n):
        if out_of_time(frac):
            if res is not None:
                res.count('cases_cut_by_soft_deadline', len(range(ci, total, n)))
            return
        done += 1
        yield ci


class Watchdog(Exception):
    pass


@contextlib.contextmanager
def watchdog(seconds):
    def handler(signum, frame):
        raise Watchdog()
    old = signal.signal(signal.SIGALRM, handler)
    signal.alarm(int(seconds))
    try:
        yield
    finally:
        signal.alarm(0)
        signal.signal(signal.SIGALRM, old)


def exc_site(e, roots=None):
    """(file-relative, function) of the innermost frame inside the repo."""
    roots = roots or (REPO,)
    tb = traceback.extract_tb(e.__traceback__)
    site = None
    for fr in tb:
        for r in roots:
            if fr.filename.startswith(r):
                site = (os.path.relpath(fr.filename, r), fr.name)
    if site is None and tb:
        site = (os.path.basename(tb[-1].filename), tb[-1].name)
    return site or ('?', '?')


class Result:
    """What one shard observed."""

    def __init__(self):
        self.evaluations = 0
        self.distinct = set()
        self.counters = {}
        self.violations = []
        self.samples = []
        self.inconclusive = []
        self.skipped = {}

    def count(self, key, n=1):
        self.counters[key] = self.counters.get(key, 0) + n

    def skip(self, key, n=1):
        self.skipped[key] = self.skipped.get(key, 0) + n

    def see(self, *cell):
        self.distinct.add('|'.join(str(c) for c in cell))

    def sample(self, obj, cap=4):
        if len(self.samples) < cap:
            self.samples.append(obj)

    def violation(self, signature, detail, replay=None):
        """signature: small dict of mechanism facts (never random values)."""
        self.violations.append({'signature': signature, 'detail': detail, 'replay': replay})

    def capped_violations(self, per_sig=4, total=400):
        seen, out = {}, []
        for v in self.violations:
            k = json.dumps(v['signature'], sort_keys=True)
            seen[k] = seen.get(k, 0) + 1
            if seen[k] <= per_sig and len(out) < total:
                out.append(v)
        return out

    def dump(self):
        return {
            'evaluations': self.evaluations,
            'distinct': sorted(self.distinct),
            'counters': self.counters,
            'violations': self.capped_violations(),
            'n_violations': len(self.violations),
            'samples': self.samples,
            'inconclusive': self.inconclusive,
            'skipped': self.skipped,
        }


def jsonable(o, depth=0):
    if depth > 8:
        return repr(o)[:200]
    if isinstance(o, (str, int, bool)) or o is None:
        return o
    if isinstance(o, float):
        if o != o or o in (float('inf'), float('-inf')):
            return repr(o)
        return o
    if isinstance(o, bytes):
        return 'bytes:' + o.hex()
    if isinstance(o, dict):
        return {str(k): jsonable(v, depth + 1) for k, v in o.items()}
    if isinstance(o, (list, tuple, set, frozenset)):
        return [jsonable(v, depth + 1) for v in o]
    return repr(o)[:300]


def write_json(path, obj):
    os.makedirs(os.path.dirname(path), exist_ok=True)
    tmp = path + '.tmp'
    with open(tmp, 'w') as f:
        json.dump(jsonable(obj), f, indent=1, ensure_ascii=True)
    os.replace(tmp, path)
