"""Regenerates MANIFEST.json from the table below (run: /venv/bin/python -m vf.manifest)."""
import json
import os

HERE = os.path.dirname(os.path.dirname(os.path.abspath(__file__)))

CHECKS = {
    'C01': ('runtime monitoring: generated valid specs and single-rule violation injections compiled by the real '
            'frontend; outcome-class oracle at specs_to_ir, sys.monitoring RAISE observer',
            'Held on the executions produced: every generated valid model (3 layouts) accepted and every catalogued '
            'rule violation at every sampled site refused with InvalidSpec. Exploration, not proof: reach is the '
            'generator x catalogue, reported as (rule, context) pairs observed.', '4 C01'),
    'C02': ('runtime monitoring: Api returned by the real specs_to_ir read through public attributes and diffed '
            'field by field against an expectation computed from the model; closure/ordering invariants as '
            'post-conditions on every accepted compile',
            'Held on the executions produced: whole-description comparison for every generated model under three '
            'layouts plus invariants on every accepted compile (also of C01/C03 workloads).', '4 C02'),
    'C03': ('runtime monitoring: hostile text workloads (token-level mutants, exhaustive short token strings, '
            'reference snippets, CLI sample) with an exception-class oracle at specs_to_ir and sys.monitoring '
            'RAISE observer of raise sites',
            'Held on the executions produced: no exception other than InvalidSpec escaped, every InvalidSpec had a '
            'message and an input path, CLI answered exit 1 with path:line: error.', '4 C03'),
    'C11': ('runtime monitoring: differential observation of the real frontend and all 14 backend configurations '
            'under layout transformations of the same model (files, order, splits, inline definitions, '
            'comments/whitespace, continuations) and stdin delivery through stone.cli.main',
            'Held on the executions produced: canonical Api dump and every output byte (or raised exception) '
            'equal to the reference layout for every variant explored.', '4 C11'),
    'C12': ('runtime monitoring: byte-level differential observation of all 14 backend configurations across fresh '
            'interpreters that differ in hash seed, backend order, output directory, process history and '
            'whitelist path',
            'Held on the executions produced: sha256 of every output file (or the raised exception) identical '
            'across all process variants explored.', '4 C12'),
    'C04': ('runtime monitoring: round trips through the real generated classes and serializer at the public entry '
            'points with a dual equality oracle (generated ==, independent AV read-back) and re-encode check',
            'Held on the executions produced: every valid boundary-biased value of every typed position round-'
            'tripped in both modes and entry points. One open known finding (alias-of-nullable field).', '4 C04'),
    'C05': ('runtime monitoring: real encoder output compared with an independent reference encoder written from '
            'docs/json_serializer.rst and driven by the model',
            'Held on the executions produced: every encoding equal (kind-strict JSON) to the reference wire '
            'format and JSON-compatible.', '4 C05'),
    'C06': ('runtime monitoring: hostile documents (reference encodings, typed structural mutations, arbitrary small '
            'documents) through the real decoder entry points; exception-class oracle, AV read-back with a '
            'reference type predicate, and a reference must-accept/must-reject/unspecified classifier',
            'Held on the executions produced: every decode returned a valid value or ValidationError and agreed '
            'with the classifier on all must-accept and must-reject documents.', '4 C06'),
    'C08': ('runtime monitoring: assignments / union constructions / primitive decodes on the real generated classes, '
            'exhaustive over primitive parameter shapes x embeddings x boundary values, judged by a reference '
            'type predicate derived from the model',
            'Held on the executions produced: accepted exactly the values inside the declared type, refusal '
            'always ValidationError, accepted values read back equal up to documented normalisations.', '4 C08'),
    'C10': ('runtime monitoring: defaults read from never-set fields of the real generated classes and examples from '
            'the real UserDefined.get_examples() decoded strictly and re-encoded by the real serializer',
            'Held on the executions produced, with two open known findings (Bytes / Timestamp defaults emitted '
            'as text).', '4 C10'),
    'C13': ('runtime monitoring: real serializer output for every permission subset x redaction flag compared with a '
            'permission/redaction-aware reference encoder, plus a structure-independent search for unique '
            'sentinel payloads in the output text, plus strict decoding of foreign-permission documents',
            'Held on the executions produced: no omitted field or clear-text redacted sentinel in any output '
            'for a caller without the permission, present for callers holding it.', '4 C13'),
    'C07': ('runtime monitoring: two spec versions (A, and B = A after documented backwards-compatible edits) generated '
            'and imported side by side; messages of each decoded by the other and compared with a model-level '
            'A-view projection and a contains-unknown predicate',
            'Held on the executions produced: lenient old peers read the A-view, strict old peers refuse exactly '
            'messages with unknown material, new peers read old messages with new fields at defaults.', '4 C07'),
    'C09': ('runtime monitoring: python_types output imported in fresh interpreters (every namespace first), exposed '
            'classes / descriptors / helpers / validator trees / route objects read with dir, getattr and inspect '
            'and compared with the model; attribute set/get/delete exercised on the real classes',
            'Held on the executions produced, with one open known finding (union-tag route attributes emitted '
            'with repr()).', '4 C09'),
    'C14': ('runtime monitoring: the real python_client output imported next to python_types; a recording subclass of '
            'the generated client observes request() calls; inspect.signature and AV read-back of the sent '
            'argument compared with the model',
            'Held on the executions produced, with one open known finding (alias-of-nullable field reorders '
            'the positional construction).', '4 C14'),
    'C15': ('runtime monitoring: python_type_stubs output parsed with ast and compared with the introspected runtime '
            'modules of the same spec and with an independent Stone->PEP 484 mapping',
            'Held on the executions produced, with one open known finding (type behind a foreign alias named '
            'without import).', '4 C15'),
    'C19': ('runtime monitoring: the real filter parser/evaluator driven over all truth assignments of generated '
            'expression trees, and the Api a dump backend receives from stone.cli.main (in-process and real '
            'subprocess) for generated specs under -f / -w / -b / -a option sets, compared with the model',
            'Held on the executions produced: surviving routes, visible attributes, trimmed schema, retained '
            'types and by-name tables as the options select; malformed / unknown inputs reported with exit 1.',
            '4 C19'),
    'C20': ('runtime monitoring: Api returned by the real specs_to_ir under random route whitelists compared with a '
            'minimal and a maximal reference closure computed on the model, closure/registration invariants on '
            'the filtered Api, and fresh-interpreter import of python_types generated from it',
            'Held on the executions produced: minimal closure retained, nothing outside the maximal closure '
            'retained, no dangling reference, filtered modules import.', '4 C20'),
    'C18': ('runtime monitoring: file-system snapshots (authoritative) and a sys.addaudithook log of write-like events '
            'around every path request through the real Backend entry points in a sandbox; emit scripts run on '
            'a real CodeBackend and compared with a reference pretty-printer; manifest run vs real run of every '
            'built-in backend in-process and through the CLI',
            'Held on the executions produced: nothing written outside the output folder, refused requests wrote '
            'nothing, emitted text verbatim, manifests equal the created file sets.', '4 C18'),
    'C16': ('runtime monitoring: the four JavaScript/TypeScript backends run on generated specs x option sets; '
            'js_client output parsed by node --check and executed by a node harness with a recording request(); '
            'JSDoc / TypeScript output scanned by an own lexer and declaration scanner and compared with the model',
            'Held on the executions produced: backends completed, JavaScript parsed and requested the right URL / '
            'argument / attributes, every struct / union / alias / route declared once with the modelled members, '
            'every referenced type name resolvable.', '4 C16'),
    'C17': ('runtime monitoring: the six Swift / Objective-C backend configurations run on generated specs; every '
            'emitted source file lexed by own lexers (and clang raw tokens as second opinion for Objective-C); '
            'declarations counted under each naming scheme; qualified user-type names resolved',
            'Held on the executions produced, with two open known findings (Bytes/Timestamp defaults). Lexical '
            'and declarative assurance only: no Swift / Objective-C compiler is available.', '4 C17'),
}

PENDING = {}


def main():
    props = [json.loads(l) for l in open(os.path.join(HERE, 'properties.jsonl'))]
    checks = []
    na = []
    for p in props:
        pid = p['id']
        if pid in CHECKS:
            tech, text, ref = CHECKS[pid]
            checks.append({
                'property_id': pid,
                'quick_cmd': '/venv/bin/python -m vf.run %s quick' % pid,
                'thorough_cmd': '/venv/bin/python -m vf.run %s thorough' % pid,
                'evidence_file': 'evidence/%s.json' % pid,
                'replay_cmd_template': '/venv/bin/python -m vf.replay {path}',
                'engine': 'vf',
                'level_claimed': {'category': 'exploration', 'text': text,
                                  'design_ref': 'DESIGN.md section ' + ref},
                'level_note': 'Trusted base: CPython 3.12, the model generator/renderer and reference oracles '
                              'under /verif/vf (cross-checked against the unchanged tree), icontract. '
                              'Decides only the executions produced; evidence lists what was observed.',
                'technique': tech,
            })
        else:
            na.append({'property_id': pid,
                       'reason': PENDING.get(pid, 'check under construction in this session; not yet claimed')})
    m = {
        'version': 1,
        'setup_cmd': '/venv/bin/python -m vf.setup',
        'hooks': {
            'guard': 'STONE_VERIF',
            'enable': 'no source hooks: every monitor is installed from /verif at run time (wrappers on public '
                      'entry points, sys.monitoring, sys.addaudithook, subprocess boundaries)',
            'baseline_off_cmd': 'cd /repo && /venv/bin/python -m pytest -ra -q -p no:cacheprovider '
                                '--timeout=900 --continue-on-collection-errors',
            'source_commits': [],
            'add_only': True,
        },
        'engines': [{'name': 'vf', 'path': 'vf/run.py',
                     'serves_properties': sorted(CHECKS),
                     'kind_free_text': 'seeded workload generator + runtime monitors + reference oracles; '
                                       'python -m vf.run <ID> <tier>'}],
        'checks': checks,
        'not_applicable': na,
        'notes': 'Exit codes: 0 held on everything explored, 1 VIOLATION, 2 INCONCLUSIVE (a deciding monitor '
                 'observed nothing, watchdog, missing tool). known_findings.json lists open findings by '
                 'mechanism signature and the fix: commits made to /repo.',
    }
    with open(os.path.join(HERE, 'MANIFEST.json'), 'w') as f:
        json.dump(m, f, indent=1)
    print('checks:', [c['property_id'] for c in checks], 'n/a:', len(na))


if __name__ == '__main__':
    main()
