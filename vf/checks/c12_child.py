"""Fresh-interpreter worker of C12: runs backend configurations in a given order
and prints {config: {relative path: sha256} | {"raised": text}} as JSON."""
import json
import os
import sys


def main():
    specdir, outdir, order, pre, whitelist = sys.argv[1:6]
    from vf import common
    common.use_repo()
    from stone.frontend.frontend import specs_to_ir
    from stone.compiler import BackendException
    from vf.mon import backends as B
    files = []
    for name in sorted(os.listdir(specdir)):
        with open(os.path.join(specdir, name), encoding='utf-8') as f:
            files.append((name, f.read()))
    if pre == '1':
        # history: an unrelated spec compiled and generated first, in the same process
        api0 = specs_to_ir([('zz.stone', 'namespace zz\n\nannotation A = Omitted("q")\n\nunion U\n'
                                         '    a\n        @A\n    b String\n\nstruct S\n    f U = a\n'
                                         '    g List(S)?\n\nroute r(S, U, Void)\n')])
        for cfg in ('python_types', 'js_types', 'swift_types'):
            B.run_backend(api0, cfg, os.path.join(outdir, '_pre_' + cfg))
        # ... and a spec that reuses the names of this one for different things (every
        # alias and type name becomes a struct of another namespace), through every
        # configuration, so that state kept between runs has something to leak
        import re
        names = set()
        for _, text in files:
            names.update(re.findall(r'(?m)^(?:alias|struct|union|union_closed) ([A-Za-z_][A-Za-z0-9_]*)', text))
        hist = 'namespace zzhist\n\n' + ''.join(
            'struct %s\n    "history"\n    hist_field String?\n\n' % n for n in sorted(names))
        cfgfiles = [(n, t) for n, t in files if re.match(r'\s*namespace stone_cfg\b', t)]
        try:
            for cfg in order.split(','):
                api1 = specs_to_ir(cfgfiles + [('zzhist.stone', hist)])
                try:
                    B.run_backend(api1, cfg, os.path.join(outdir, '_hist_' + cfg))
                except BackendException:
                    pass
        except Exception:
            pass
        # ... and an earlier version of the very same API (same namespaces, same type names) in which every
        # enumerated-subtypes tree is open where it is closed now and vice versa: tables keyed by a
        # generated name must not carry over from one Api to the next
        def flip(text):
            out = []
            for ln in text.split('\n'):
                if ln.rstrip() == '    union':
                    ln = '    union_closed'
                elif ln.rstrip() == '    union_closed':
                    ln = '    union'
                out.append(ln)
            return '\n'.join(out)
        try:
            older = [(n, flip(t)) for n, t in files]
            for cfg in order.split(','):
                api3 = specs_to_ir(older)
                try:
                    B.run_backend(api3, cfg, os.path.join(outdir, '_older_' + cfg))
                except BackendException:
                    pass
        except Exception:
            pass
        # ... and runs that FAIL part-way through (two routes whose generated names collide, in a
        # namespace that has already made the backend register imports and emit types): whatever a
        # backend keeps on its class or module must not survive an aborted run either
        fail = ('namespace zzfail\n\nstruct Holder\n    a List(String)\n    b Map(String, Int64)?\n'
                '    c Timestamp("%Y")\n    d Holder?\n\nunion Choice\n    x\n    y Holder\n\n'
                'route fetch:2(Holder, Choice, Void)\n\nroute fetch_v2(Holder, Choice, Void)\n')
        try:
            for cfg in order.split(','):
                api2 = specs_to_ir(cfgfiles + [('zzfail.stone', fail)])
                try:
                    B.run_backend(api2, cfg, os.path.join(outdir, '_fail_' + cfg))
                except BackendException:
                    pass
        except Exception:
            pass
    wl = None
    if whitelist == '1':
        api = specs_to_ir(files)
        wl = {'route_whitelist': {n: ['*'] for n, ns in api.namespaces.items() if ns.routes},
              'datatype_whitelist': {}}
    out = {}
    for cfg in order.split(','):
        try:
            api = specs_to_ir(files, route_whitelist_filter=wl)
        except Exception as e:   # a frontend failure must at least be the same every time
            out[cfg] = {'raised': 'frontend: %s' % type(e).__name__}
            continue
        d = os.path.join(outdir, cfg)
        try:
            B.run_backend(api, cfg, d)
            out[cfg] = B.tree_digest(d)
        except BackendException as e:
            out[cfg] = {'raised': e.traceback.strip().split('\n')[-1][:200]}
    print(json.dumps(out))


if __name__ == '__main__':
    main()
