"""C15 - Python type stubs describe exactly what the generated modules define."""
import ast
import builtins
import inspect
import os
import random

from .. import common
from ..gen import model as gm, render as gr
from ..mon import pyrt
from ..ref import pep484
from . import rtwork, c09

PROPERTY = 'C15'
LEVEL = 'exploration'
RULE = ('for every generated spec the python_type_stubs output of each namespace is parsed with ast and compared '
        'with the imported python_types module of the same spec: same classes, bases, field attributes, '
        'constructor parameter names, is_/get_/creator helpers, ready void-tag attributes, <Name>_validator '
        'names, alias class names and route objects; every field / tag / helper annotation is compared with an '
        'independent Stone->PEP 484 mapping driven by the model, and every name used in an annotation must be '
        'imported or defined in the stub. distinct = distinct (declaration kind, annotation shape) cells')
RULE += ' ' + 'Annotation-type classes are compared too (constructor parameters, properties).'
ASSUMPTIONS = ['Text and str are the same annotation; ROUTES and private reflection attributes are not compared']
REQUIRED_COUNTERS = ['stubs_parsed', 'annotations_compared']


def time_limit(tier):
    return common.default_limit(tier)


def budget(tier):
    return dict(specs=320) if tier == 'quick' else dict(specs=3000)


def ann_text(node):
    return pep484.normalize(ast.unparse(node)) if node is not None else None


def names_in(node):
    out = set()
    for n in ast.walk(node):
        if isinstance(n, ast.Attribute):
            root = n
            while isinstance(root, ast.Attribute):
                root = root.value
            if isinstance(root, ast.Name):
                out.add(root.id)
        elif isinstance(n, ast.Name):
            out.add(n.id)
    return out


def run_shard(tier, seed, idx, n, res, tmp):
    from stone.backends.python_rsrc import stone_base as bb, stone_validators as bv
    b = budget(tier)
    for ci in common.case_range(idx, b['specs'], n, res):
        cs = common.case_seed(PROPERTY, seed, ci)
        rnd = random.Random(cs)
        m = gm.generate(cs, c09.profile())
        files = gr.render(m, None)
        replay = {'case': ci, 'files': files}
        try:
            pkg = pyrt.Pkg(files, tmp)
        except Exception as e:
            res.skip('python_types_failed:%s' % type(e).__name__)
            continue
        try:
            from stone.frontend.frontend import specs_to_ir
            from stone.compiler import BackendException
            from ..mon import backends as B
            try:
                B.run_backend(specs_to_ir(files), ('python_type_stubs', ['-p', pkg.name]), pkg.dir)
            except BackendException as e:
                res.violation({'kind': 'stub_backend_raised', 'last': e.traceback.strip().split('\n')[-1][:80]},
                              {'error': e.traceback[-400:]}, replay)
                continue
            try:
                mods = {ns.name: pkg.mod(ns.name) for ns in m.namespaces}
            except Exception as e:
                res.skip('runtime_not_importable:%s' % type(e).__name__)
                continue
            for ns in m.namespaces:
                path = os.path.join(pkg.dir, ns.name + '.pyi')
                res.evaluations += 1
                if not os.path.exists(path):
                    res.violation({'kind': 'stub_missing'}, {'ns': ns.name}, replay)
                    continue
                src = open(path, encoding='utf-8').read()
                try:
                    tree = ast.parse(src)
                except SyntaxError as e:
                    res.violation({'kind': 'stub_syntax_error'}, {'ns': ns.name, 'error': str(e)[:200]}, replay)
                    continue
                res.count('stubs_parsed')
                check_module(res, m, ns, tree, mods[ns.name], bb, bv, dict(replay, ns=ns.name))
            if ci < n:
                res.sample({'case': ci, 'namespaces': [x.name for x in m.namespaces]}, cap=3)
        finally:
            pkg.close()


def check_module(res, m, ns, tree, mod, bb, bv, replay):
    def bad(kind, detail):
        res.violation({'kind': kind}, detail, replay)

    defined = set()
    for node in tree.body:
        if isinstance(node, (ast.Import, ast.ImportFrom)):
            for a in node.names:
                defined.add((a.asname or a.name).split('.')[0])
        elif isinstance(node, ast.ClassDef):
            defined.add(node.name)
        elif isinstance(node, ast.Assign):
            for t in node.targets:
                if isinstance(t, ast.Name):
                    defined.add(t.id)
        elif isinstance(node, ast.AnnAssign) and isinstance(node.target, ast.Name):
            defined.add(node.target.id)
        elif isinstance(node, ast.Try):
            for sub in ast.walk(node):
                if isinstance(sub, (ast.Import, ast.ImportFrom)):
                    for a in sub.names:
                        defined.add((a.asname or a.name).split('.')[0])
    stub_classes = {n.name: n for n in tree.body if isinstance(n, ast.ClassDef)}
    rt_classes = {name: obj for name, obj in vars(mod).items()
                  if inspect.isclass(obj) and obj.__module__ == mod.__name__ and obj.__name__ == name}
    if set(stub_classes) != set(rt_classes):
        bad('class_set_differs', {'stub_only': sorted(set(stub_classes) - set(rt_classes)),
                                  'runtime_only': sorted(set(rt_classes) - set(stub_classes))})
    used_names = set()

    def note_ann(node):
        if node is not None:
            used_names.update(names_in(node))

    # annotation-type classes: constructor parameters and one read-only property per parameter
    for name, rc in rt_classes.items():
        sc = stub_classes.get(name)
        if sc is None or not issubclass(rc, bb.AnnotationType):
            continue
        res.count('annotation_type_classes_compared')
        rt_init = [p_ for p_ in inspect.signature(rc.__init__).parameters][1:]
        rt_props = sorted(a for a in vars(rc) if isinstance(vars(rc)[a], property))
        st_init, st_props = None, []
        for node in sc.body:
            if isinstance(node, ast.FunctionDef):
                if node.name == '__init__':
                    st_init = [a.arg for a in node.args.args][1:]
                    for a in node.args.args[1:]:
                        note_ann(a.annotation)
                elif any(ast.unparse(dc) == 'property' for dc in node.decorator_list):
                    st_props.append(node.name)
                    note_ann(node.returns)
        if st_init != rt_init:
            bad('annotation_type_init_differs', {'class': name, 'stub': st_init, 'runtime': rt_init})
        elif sorted(st_props) != rt_props:
            bad('annotation_type_properties_differ', {'class': name, 'stub': sorted(st_props), 'runtime': rt_props})
        else:
            res.see('annotation_type', min(len(rt_init), 3))

    for d in ns.defs:
        if d.kind not in ('struct', 'union'):
            continue
        sc = stub_classes.get(d.name)
        rc = rt_classes.get(d.name)
        if sc is None or rc is None:
            continue
        # bases
        exp_base = ('bb.Struct' if d.kind == 'struct' else 'bb.Union') if not d.parent else \
            (d.parent[1] if d.parent[0] == d.ns else '%s.%s' % d.parent)
        got_bases = [ast.unparse(x) for x in sc.bases]
        if got_bases != [exp_base]:
            bad('stub_bases', {'class': d.name, 'stub': got_bases, 'expected': exp_base})
        for x in sc.bases:
            note_ann(x)
        members = {}
        for node in sc.body:
            if isinstance(node, ast.AnnAssign) and isinstance(node.target, ast.Name):
                members[node.target.id] = ('attr', node.annotation)
            elif isinstance(node, ast.FunctionDef):
                members[node.name] = ('classmethod' if any(ast.unparse(dc) == 'classmethod'
                                                           for dc in node.decorator_list) else 'method', node)
        if d.kind == 'struct':
            fields = m.struct_all_fields(d)
            rt_attrs = sorted(a for a in dir(rc) if isinstance(inspect.getattr_static(rc, a, None), bb.Attribute))
            st_attrs = sorted(k for k, v in members.items() if v[0] == 'attr')
            if st_attrs != rt_attrs:
                bad('struct_attributes_differ', {'class': d.name, 'stub': st_attrs, 'runtime': rt_attrs})
            init = members.get('__init__')
            rt_init = [p for p in inspect.signature(rc.__init__).parameters][1:]
            if init is None:
                bad('stub_init_missing', {'class': d.name})
            else:
                st_init = [a.arg for a in init[1].args.args][1:]
                if st_init != rt_init:
                    bad('init_parameters_differ', {'class': d.name, 'stub': st_init, 'runtime': rt_init})
                for a in init[1].args.args[1:]:
                    note_ann(a.annotation)
                    f = [x for x in fields if x.name == a.arg]
                    if f:
                        res.count('annotations_compared')
                        base = pep484.annotation(m, ns.name, f[0].type)
                        exp = base if (not (f[0].default is not None) or base.startswith('Optional[')) \
                            else 'Optional[%s]' % base
                        got = ann_text(a.annotation)
                        if got != pep484.normalize(exp):
                            bad('init_annotation', {'class': d.name, 'param': a.arg, 'stub': got,
                                                    'expected': pep484.normalize(exp)})
                        else:
                            res.see('init_param', shape_of(exp))
            for f in fields:
                mv = members.get(f.name)
                if mv is None or mv[0] != 'attr':
                    continue
                note_ann(mv[1])
                res.count('annotations_compared')
                exp = 'bb.Attribute[%s]' % pep484.annotation(m, ns.name, f.type)
                got = ann_text(mv[1])
                if got != pep484.normalize(exp):
                    bad('field_annotation', {'class': d.name, 'field': f.name, 'stub': got,
                                             'expected': pep484.normalize(exp)})
                else:
                    res.see('field', shape_of(exp))
        else:
            tags = m.union_all_fields(d)
            own = {f.name for f in m.own_fields(d)} | ({'other'} if m.union_declares_other(d) else set())
            exp_members = {}
            for f in tags:
                if f.name not in own:
                    continue
                exp_members['is_' + f.name] = 'method'
                if f.type is None:
                    exp_members[f.name] = 'attr'
                else:
                    exp_members[f.name] = 'classmethod'
                    exp_members['get_' + f.name] = 'method'
            got_members = {k: v[0] for k, v in members.items() if not k.startswith('_')}
            if got_members != exp_members:
                bad('union_members_differ', {'class': d.name,
                                             'stub_only': sorted(set(got_members) - set(exp_members)),
                                             'missing': sorted(set(exp_members) - set(got_members)),
                                             'kind_differs': sorted(k for k in got_members
                                                                    if k in exp_members and
                                                                    got_members[k] != exp_members[k])})
            # runtime agreement
            for name, kind in exp_members.items():
                raw = inspect.getattr_static(rc, name, None)
                ok = (kind == 'method' and inspect.isfunction(raw)) or \
                    (kind == 'classmethod' and isinstance(raw, classmethod)) or \
                    (kind == 'attr' and isinstance(raw, bb.Union))
                if not ok:
                    bad('runtime_member_differs', {'class': d.name, 'member': name, 'expected': kind})
            for f in tags:
                if f.name not in own:
                    continue
                if f.type is None:
                    mv = members.get(f.name)
                    if mv and mv[0] == 'attr':
                        note_ann(mv[1])
                        res.count('annotations_compared')
                        if ann_text(mv[1]) != d.name:
                            bad('void_tag_annotation', {'class': d.name, 'tag': f.name, 'stub': ann_text(mv[1])})
                        else:
                            res.see('void_tag', 'class')
                    continue
                exp = pep484.normalize(pep484.annotation(m, ns.name, f.type))
                cm = members.get(f.name)
                if cm and cm[0] == 'classmethod':
                    args = cm[1].args.args
                    res.count('annotations_compared')
                    note_ann(args[1].annotation if len(args) > 1 else None)
                    note_ann(cm[1].returns)
                    got = ann_text(args[1].annotation) if len(args) > 1 else None
                    if got != exp:
                        bad('creator_annotation', {'class': d.name, 'tag': f.name, 'stub': got, 'expected': exp})
                    elif ann_text(cm[1].returns) != d.name:
                        bad('creator_return', {'class': d.name, 'tag': f.name, 'stub': ann_text(cm[1].returns)})
                    else:
                        res.see('creator', shape_of(exp))
                gm_ = members.get('get_' + f.name)
                if gm_ and gm_[0] == 'method':
                    res.count('annotations_compared')
                    note_ann(gm_[1].returns)
                    got = ann_text(gm_[1].returns)
                    if got != exp:
                        bad('getter_annotation', {'class': d.name, 'tag': f.name, 'stub': got, 'expected': exp})
                    else:
                        res.see('getter', shape_of(exp))
    # module-level names: validators, alias class names, route objects
    st_validators = {n.target.id for n in tree.body if isinstance(n, ast.AnnAssign) and
                     isinstance(n.target, ast.Name) and n.target.id.endswith('_validator')}
    rt_validators = {k for k, v in vars(mod).items() if k.endswith('_validator') and isinstance(v, bv.Validator)}
    if st_validators != rt_validators:
        bad('validator_names_differ', {'stub_only': sorted(st_validators - rt_validators),
                                       'runtime_only': sorted(rt_validators - st_validators)})
    st_routes = {n.target.id for n in tree.body if isinstance(n, ast.AnnAssign) and
                 isinstance(n.target, ast.Name) and ann_text(n.annotation) == 'bb.Route'}
    rt_routes = {k for k, v in vars(mod).items() if isinstance(v, bb.Route)}
    if st_routes != rt_routes:
        bad('route_names_differ', {'stub_only': sorted(st_routes - rt_routes),
                                   'runtime_only': sorted(rt_routes - st_routes)})
    st_alias_classes = {t.id for n in tree.body if isinstance(n, ast.Assign) for t in n.targets
                        if isinstance(t, ast.Name) and not t.id.endswith('_validator')
                        and t.id not in ('T', 'U')}
    rt_alias_classes = {k for k, v in vars(mod).items() if inspect.isclass(v) and
                        (issubclass(v, (bb.Struct, bb.Union))) and (v.__module__ != mod.__name__ or
                                                                    v.__name__ != k)}
    if st_alias_classes != rt_alias_classes:
        bad('alias_class_names_differ', {'stub_only': sorted(st_alias_classes - rt_alias_classes),
                                         'runtime_only': sorted(rt_alias_classes - st_alias_classes)})
    res.see('module', 'validators=%d' % min(3, len(rt_validators)), 'routes=%d' % min(3, len(rt_routes)))
    # every name used in an annotation is imported or defined
    undefined = sorted(x for x in used_names if x not in defined and not hasattr(builtins, x))
    if undefined:
        nsnames = {x.name for x in m.namespaces}
        # a spec-level `import` that only serves doc references produces no Python
        # import either, so what matters is whether the namespace names a type of
        # that namespace in one of its own type expressions
        direct = direct_type_namespaces(m, ns)
        cause = 'namespace_of_type_behind_foreign_alias_not_imported' \
            if all(u in nsnames and u not in direct for u in undefined) else 'other'
        res.violation({'kind': 'annotation_name_undefined', 'cause': cause}, {'names': undefined[:6]}, replay)


def direct_type_namespaces(m, ns):
    """Names of the namespaces whose types/aliases ns names in its own type expressions."""
    out = set()

    def walk(t):
        if t is None:
            return
        if t.kind == 'ref':
            out.add(t.ns)
        for v in t.args.values():
            if hasattr(v, 'kind'):
                walk(v)
    for d in ns.defs:
        if d.kind in ('struct', 'union'):
            if d.parent:
                out.add(d.parent[0])
            for f in m.own_fields(d):
                walk(f.type)
        elif d.kind == 'alias':
            walk(d.type)
        elif d.kind == 'route':
            for t in (d.arg, d.result, d.error):
                walk(t)
    return out


def shape_of(ann):
    import re
    return re.sub(r'[A-Za-z_][A-Za-z0-9_.]*', lambda mm: mm.group(0) if mm.group(0) in (
        'Optional', 'List', 'Dict', 'int', 'float', 'str', 'bool', 'bytes', 'bb.Attribute') else
        ('datetime' if 'datetime' in mm.group(0) else 'Cls'), ann)
