"""C17 - Swift and Objective-C backends handle every spec and declare the whole API."""
import os
import random
import re
import shutil

from .. import common
from ..gen import model as gm, render as gr
from ..mon import backends as B
from ..ref import scan_native as sn

PROPERTY = 'C17'
LEVEL = 'exploration'
RULE = ('generated specs (every primitive, List/Map/Nullable nesting, inheritance, enumerated subtypes, defaults, '
        'cross-namespace references, routes with the Dropbox-style attribute schema auth/host/style/scope) x '
        '{swift_types, swift_types --objc, swift_client, swift_client --objc, obj_c_types, obj_c_client} with '
        'the client-argument / style-to-request options these backends require: Compiler.build() must not '
        'raise; every emitted .swift/.h/.m file is lexed by an own lexer (terminated strings and comments, '
        'balanced brackets) and, for Objective-C, by clang -cc1 -dump-raw-tokens as a second opinion; '
        'declarations are counted under each backend\'s naming scheme (namespace, struct, union, serializer, '
        'field, tag, route object exactly once; client functions once per request variant) and every '
        'namespace-qualified user-type name in code must be declared. distinct = distinct (backend, '
        'declaration kind, type shape) cells')
RULE += ' ' + 'Client checks: swift_client functions with their parameter labels and route object; obj_c_client methods parsed from .h and .m (multiset of selectors per auth type, style variant and required-only/full overload, route object named in each body).'
ASSUMPTIONS = ['no Swift or Objective-C compiler with Foundation is available: lexical and declarative checking only',
               'by the backends\' design deprecated routes are absent from the Objective-C compatibility clients '
               'and app-only routes from non-app clients; those are not counted as missing']
REQUIRED_COUNTERS = ['backend_runs', 'files_lexed', 'declarations_checked']

CONFIGS = ['swift_types', 'swift_types_objc', 'swift_client', 'swift_client_objc', 'obj_c_types', 'obj_c_client']


def time_limit(tier):
    return common.default_limit(tier)


def budget(tier):
    return dict(specs=32) if tier == 'quick' else dict(specs=2000)


def profile(ci):
    return gm.make_profile(cfg_style='dropbox', n_ns=(1, 4), p_doc=0.5, p_hostile_doc=0.05, p_foreign=0.5,
                           p_examples=0.0, n_routes=(1, 5), p_default=0.5,
                           route_arg_kinds=('struct', 'union', 'void', 'alias') if ci % 3 else
                           gm.DEFAULT_PROFILE['route_arg_kinds'],
                           route_result_kinds=('struct', 'union', 'void', 'alias') if ci % 3 else None,
                           route_alias_user_only=bool(ci % 3),
                           p_route_container_result=0.25, p_sparse_namespace=0.2, p_container_of_root=0.08,
                           p_ts_bytes_default=0.1 if ci % 5 == 0 else 0.0,
                           p_three_part_field_ref=0.3 if ci % 7 == 0 else 0.0)


def words(s):
    out = []
    for w in re.split(r'[-_/]+', s):
        out.extend(re.findall(r'^[a-z0-9]+|[A-Z][a-z0-9]+|[A-Z]+(?=[A-Z][a-z0-9])|[A-Z]+$', w) or [w])
    return [w for w in out if w]


def pascal(s):
    return ''.join(w.capitalize() for w in words(s))


def camel(s):
    ws = words(s)
    return ws[0].lower() + ''.join(w.capitalize() for w in ws[1:])


def run_shard(tier, seed, idx, n, res, tmp):
    from stone.frontend.frontend import specs_to_ir
    from stone.compiler import BackendException
    b = budget(tier)
    for ci in common.case_range(idx, b['specs'], n, res):
        cs = common.case_seed(PROPERTY, seed, ci)
        m = gm.generate(cs, profile(ci))
        files = gr.render(m, None)
        base = os.path.join(tmp, 'nat%d' % ci)
        for cfg in CONFIGS:
            d = os.path.join(base, cfg)
            res.evaluations += 1
            res.count('backend_runs')
            replay = {'case': ci, 'backend': cfg, 'files': files}
            run_cfg = cfg
            if cfg == 'obj_c_client':
                replay['objc_auth'] = OBJC_AUTHS[ci % len(OBJC_AUTHS)]
                args = list(B.CONFIGS[cfg][1])
                args[args.index('-w') + 1] = replay['objc_auth']
                run_cfg = (B.CONFIGS[cfg][0], args)
            try:
                B.run_backend(specs_to_ir(files), run_cfg, d)
            except BackendException as e:
                last = e.traceback.strip().split('\n')[-1]
                site = [ln for ln in e.traceback.split('\n') if ln.strip().startswith('File')]
                where = site[-1].split(', in ')[-1].strip() if site else '?'
                sig = {'kind': 'backend_raised', 'backend': cfg.replace('_objc', ''), 'cause': _cause(last),
                       'in': where}
                if where == 'fmt_default_value' and ('Timestamp' in last or 'Bytes' in last):
                    sig = {'kind': 'backend_raised', 'backend': cfg.split('_types')[0].split('_client')[0],
                           'in': 'fmt_default_value', 'cause': 'bytes_or_timestamp_default'}
                res.violation(sig, {'error': e.traceback[-500:]}, replay)
                continue
            texts = {}
            lex_ok = True
            for root, _, fs in os.walk(d):
                for fn in fs:
                    p = os.path.join(root, fn)
                    rel = os.path.relpath(p, d)
                    if fn.endswith('.swift'):
                        text = open(p, encoding='utf-8').read()
                        code, probs = sn.lex_swift(text)
                    elif fn.endswith(('.h', '.m')):
                        text = open(p, encoding='utf-8').read()
                        code, probs = sn.lex_objc(text)
                        cp = sn.clang_raw_problems(p) if (hash(rel) % 3 == 0 or probs) else []
                        if cp is None:
                            res.inconclusive.append('clang raw lexer unavailable')
                        elif bool(cp) != bool([x for x in probs if x.startswith('unterminated')]):
                            res.violation({'kind': 'lexers_disagree', 'backend': cfg},
                                          {'file': rel, 'own': probs[:3], 'clang': cp[:3]}, replay)
                    else:
                        continue
                    res.count('files_lexed')
                    texts[rel] = code
                    if probs:
                        lex_ok = False
                        res.violation({'kind': 'lexically_malformed', 'backend': cfg, 'problem': probs[0]},
                                      {'file': rel, 'problems': probs[:4]}, replay)
                    else:
                        res.see(cfg, 'lexed', fn.rsplit('.', 1)[-1])
            if not lex_ok:
                continue
            try:
                {'swift_types': check_swift_types, 'swift_types_objc': check_swift_types_objc,
                 'swift_client': check_swift_client, 'swift_client_objc': check_swift_client_objc,
                 'obj_c_types': check_objc_types, 'obj_c_client': check_objc_client}[cfg](res, m, texts, replay)
            except Exception as e:
                res.inconclusive.append('declaration scanner failed for %s: %r' % (cfg, e))
        if ci < n:
            res.sample({'case': ci, 'namespaces': [x.name for x in m.namespaces],
                        'routes': [x.name for x in m.defs('route')][:5]}, cap=3)
        shutil.rmtree(base, ignore_errors=True)


def _cause(last):
    last = re.sub(r"'[^']*'", "'_'", last)
    return re.sub(r'\d+', 'N', last)[:70]


def count(pattern, text):
    return len(re.findall(pattern, text, re.M))


def expect_once(res, replay, cfg, what, pattern, text, detail, shape=''):
    res.count('declarations_checked')
    k = count(pattern, text)
    if k != 1:
        res.violation({'kind': 'declared_%s_times' % ('zero' if k == 0 else 'several'), 'backend': cfg,
                       'what': what}, dict(detail, count=k, pattern=pattern), replay)
        return False
    res.see(cfg, what, shape)
    return True


def types_with_fields(m, ns):
    for d in ns.defs:
        if d.kind in ('struct', 'union'):
            yield d


def shape_of(m, t):
    if t is None:
        return 'void'
    s = ('nullable>' if t.nullable else '')
    if t.kind in ('list', 'map'):
        inner = t.args['item'] if t.kind == 'list' else t.args['value']
        return s + t.kind + '>' + shape_of(m, inner).split('>')[0]
    if t.kind == 'ref':
        return s + m.lookup(t.ns, t.name).kind
    return s + 'prim'


def swift_qualified_names_declared(res, m, text, fn, cfg, replay):
    """every Namespace.Name in code must be declared in that namespace"""
    alias_names = {(d.ns, d.name) for d in m.defs('alias')}
    declared = {}
    for ns2 in m.namespaces:
        names = set()
        for d in types_with_fields(m, ns2):
            names.add(d.name)
            names.add(d.name + 'Serializer')
        declared[pascal(ns2.name)] = names
    for nscls2, name in set(re.findall(r'\b([A-Z]\w*)\.([A-Z]\w*)\b', text)):
        res.count('qualified_names_resolved')
        if nscls2 in declared and name not in declared[nscls2]:
            is_alias = any(pascal(a[0]) == nscls2 and (name == a[1] or name == a[1] + 'Serializer')
                           for a in alias_names)
            res.violation({'kind': 'undeclared_user_type_name', 'backend': cfg,
                           'what': 'alias_name' if is_alias else 'other'},
                          {'file': fn, 'name': '%s.%s' % (nscls2, name)}, replay)


def _strip_nested(text):
    """text with the contents of every (...) {...} [...] group removed (labels of a call's own arguments only)."""
    out, depth = [], 0
    for ch in text:
        if ch in '({[':
            depth += 1
        elif ch in ')}]':
            depth -= 1
        elif depth == 0:
            out.append(ch)
    return ''.join(out)


def swift_funcs(code):
    """(name, [parameter labels], body) of every `public func` in comment-free code."""
    out = []
    for mm in re.finditer(r'public func (\w+)\(', code):
        end = _match_paren(code, mm.end() - 1)
        params = code[mm.end():end - 1]
        labels, depth, cur = [], 0, ''
        for ch in params + ',':
            if ch in '(<[':
                depth += 1
            elif ch in ')>]':
                depth -= 1
            if ch == ',' and depth == 0:
                if cur.strip():
                    labels.append(cur.strip().split(':')[0].strip())
                cur = ''
            else:
                cur += ch
        i = code.find('{', end)
        depth, j = 0, i
        while 0 <= j < len(code):
            if code[j] == '{':
                depth += 1
            elif code[j] == '}':
                depth -= 1
                if depth == 0:
                    break
            j += 1
        out.append((mm.group(1), labels, code[i:j + 1] if i >= 0 else ''))
    return out


SWIFT_STYLE_VARIANTS = {'rpc': [[]], 'upload': [['input']], 'download': [['overwrite', 'destination'], []]}


def swift_expected_funcs(m, ns):
    """[(function name, parameter labels, route object)] for the routes of ns the Swift client must offer;
    None when a route argument is of a kind whose rendering is not modelled here."""
    exp = []
    for r in ns.defs:
        if r.kind != 'route' or not valid_for_client(r):
            continue
        nm = camel(r.name + ('' if r.version == 1 else '_v%d' % r.version))
        rt, nullable = m.resolve_alias(r.arg)
        if rt.kind == 'ref' and not nullable:
            d = m.lookup(rt.ns, rt.name)
            if d.kind == 'struct':
                own = [f for s_ in m.chain(d) for f in m.own_fields(s_)]
                req = [f for f in own if f.default is None and not m.is_nullable(f.type)]
                args = [camel(f.name) for f in req + [f for f in own if f not in req]]
            else:
                args = [camel(d.name)]
        elif rt.kind == 'prim' and rt.name == 'Void' and not nullable:
            args = []
        else:
            args = ['request']
        for extra in SWIFT_STYLE_VARIANTS[route_style(r)]:
            exp.append((nm, args + extra, '%s.%s' % (pascal(ns.name), nm)))
    return exp


def check_swift_types(res, m, texts, replay, cfg='swift_types'):
    alias_names = {(d.ns, d.name) for d in m.defs('alias')}
    for ns in m.namespaces:
        fn = pascal(ns.name) + '.swift'
        text = texts.get(fn)
        if text is None:
            res.violation({'kind': 'file_missing', 'backend': cfg}, {'file': fn}, replay)
            continue
        nscls = pascal(ns.name)
        expect_once(res, replay, cfg, 'namespace', r'^public class %s \{' % nscls, text, {'ns': ns.name})
        for d in types_with_fields(m, ns):
            if d.kind == 'struct':
                ok = expect_once(res, replay, cfg, 'struct', r'^\s*public class %s: ' % d.name, text,
                                 {'type': d.name}, 'child' if d.parent else 'top')
                expect_once(res, replay, cfg, 'serializer', r'^\s*public class %sSerializer: JSONSerializer' % d.name,
                            text, {'type': d.name})
                if ok:
                    body = _block_after(text, r'^\s*public class %s: ' % d.name)
                    for f in m.own_fields(d):
                        expect_once(res, replay, cfg, 'field', r'^\s*public let %s: ' % camel(f.name), body,
                                    {'type': d.name, 'field': f.name}, shape_of(m, f.type))
            else:
                ok = expect_once(res, replay, cfg, 'union', r'^\s*public enum %s: ' % d.name, text, {'type': d.name},
                                 'child' if d.parent else 'top')
                expect_once(res, replay, cfg, 'serializer', r'^\s*public class %sSerializer: JSONSerializer' % d.name,
                            text, {'type': d.name})
                if ok:
                    body = _block_after(text, r'^\s*public enum %s: ' % d.name)
                    for f in m.union_all_fields(d):
                        expect_once(res, replay, cfg, 'tag', r'^\s*case %s(\(|$)' % camel(f.name), body,
                                    {'type': d.name, 'tag': f.name}, shape_of(m, f.type))
        for r in ns.defs:
            if r.kind == 'route':
                nm = camel(r.name + ('' if r.version == 1 else '_v%d' % r.version))
                expect_once(res, replay, cfg, 'route_object', r'^\s*static let %s = Route\(' % nm, text,
                            {'route': r.name, 'version': r.version}, 'v%d' % r.version)
        swift_qualified_names_declared(res, m, text, fn, cfg, replay)


def _block_full(text, pattern):
    """the whole braced block (nested blocks included) that follows the first match of pattern"""
    mt = re.search(pattern, text, re.M)
    if not mt:
        return ''
    i = text.find('{', mt.end() - 1)
    depth, j = 0, i
    while 0 <= j < len(text):
        if text[j] == '{':
            depth += 1
        elif text[j] == '}':
            depth -= 1
            if depth == 0:
                break
        j += 1
    return text[i + 1:j]


def _block_after(text, pattern):
    mt = re.search(pattern, text, re.M)
    if not mt:
        return ''
    i = text.find('{', mt.end() - 1)
    depth, j = 0, i
    while j < len(text):
        if text[j] == '{':
            depth += 1
        elif text[j] == '}':
            depth -= 1
            if depth == 0:
                break
        j += 1
    body = text[i + 1:j]
    # keep only the direct level of the block (drop nested blocks)
    out, depth = [], 0
    for ch in body:
        if ch == '{':
            depth += 1
        elif ch == '}':
            depth -= 1
        elif depth == 0:
            out.append(ch)
    return ''.join(out)


def check_swift_types_objc(res, m, texts, replay):
    cfg = 'swift_types_objc'
    for ns in m.namespaces:
        fn = 'DBX' + pascal(ns.name) + '.swift'
        text = texts.get(fn)
        if text is None:
            if any(True for _ in types_with_fields(m, ns)):
                res.violation({'kind': 'file_missing', 'backend': cfg}, {'file': fn}, replay)
            continue
        for d in types_with_fields(m, ns):
            cls = 'DBX%s%s' % (pascal(ns.name), d.name)
            expect_once(res, replay, cfg, d.kind, r'^public class %s: ' % cls, text, {'type': d.name})
            if d.kind == 'union':
                for f in m.union_all_fields(d):
                    expect_once(res, replay, cfg, 'tag', r'^public class %s%s: ' % (cls, pascal(f.name)), text,
                                {'type': d.name, 'tag': f.name}, shape_of(m, f.type))


def valid_for_client(r):
    auth = (r.attrs.get('auth') or ('lit', 'user'))[1]
    return auth != 'app'


def route_style(r):
    return (r.attrs.get('style') or ('lit', 'rpc'))[1]


def check_swift_client(res, m, texts, replay):
    cfg = 'swift_client'
    for ns in m.namespaces:
        routes = [r for r in ns.defs if r.kind == 'route']
        if not any(valid_for_client(r) for r in routes):
            continue      # by design no file for a namespace without routes for this client
        fn = pascal(ns.name) + 'Routes.swift'
        text = texts.get(fn)
        if text is None:
            res.violation({'kind': 'file_missing', 'backend': cfg}, {'file': fn}, replay)
            continue
        expect_once(res, replay, cfg, 'routes_class', r'^public class %sRoutes: ' % pascal(ns.name), text,
                    {'ns': ns.name})
        for r in routes:
            if not valid_for_client(r):
                continue
            nm = camel(r.name + ('' if r.version == 1 else '_v%d' % r.version))
            exp = {'rpc': 1, 'upload': 1, 'download': 2}[route_style(r)]
            k = count(r'public func %s\(' % nm, text)
            res.count('declarations_checked')
            if k != exp:
                res.violation({'kind': 'client_function_count', 'backend': cfg, 'style': route_style(r)},
                              {'route': r.name, 'version': r.version, 'count': k, 'expected': exp}, replay)
            else:
                res.see(cfg, 'route_function', route_style(r), 'v%d' % r.version)
        swift_qualified_names_declared(res, m, text, fn, cfg, replay)
        # every function: parameter labels (argument fields, then the style's extra arguments) and the
        # route object it sends
        want = sorted((n_, tuple(a_), o_) for n_, a_, o_ in swift_expected_funcs(m, ns))
        have = []
        for name, labels, body in swift_funcs(text):
            mo = re.search(r'let route = (\w+\.\w+)', body)
            have.append((name, tuple(labels), mo.group(1) if mo else None))
        res.count('swift_client_functions_checked', len(want))
        if sorted(have) != want:
            res.violation({'kind': 'client_functions_differ', 'backend': cfg},
                          {'file': fn, 'missing': [x for x in want if x not in have][:3],
                           'surplus': [x for x in have if x not in want][:3]}, replay)
        else:
            res.see(cfg, 'functions_match', min(len(want), 5))


def check_swift_client_objc(res, m, texts, replay):
    cfg = 'swift_client_objc'
    for ns in m.namespaces:
        routes = [r for r in ns.defs if r.kind == 'route' and valid_for_client(r) and r.deprecated is None]
        if not routes:
            continue
        fn = 'DBX' + pascal(ns.name) + 'Routes.swift'
        text = texts.get(fn)
        if text is None:
            res.violation({'kind': 'file_missing', 'backend': cfg}, {'file': fn}, replay)
            continue
        for r in routes:
            nm = camel(r.name + ('' if r.version == 1 else '_v%d' % r.version))
            k = count(r'public func %s\w*\(' % nm, text)
            res.count('declarations_checked')
            if k < 1:
                res.violation({'kind': 'client_function_missing', 'backend': cfg, 'style': route_style(r)},
                              {'route': r.name, 'version': r.version}, replay)
            else:
                res.see(cfg, 'route_function', route_style(r))
        # every Objective-C compatible function: name + suffix of the style variant, parameter labels
        # (full and required-only overloads), and the labels handed on to the Swift function
        want = []
        unsupported = False
        for r in routes:
            nm = camel(r.name + ('' if r.version == 1 else '_v%d' % r.version))
            rt, nullable = m.resolve_alias(r.arg)
            full = req = None
            if rt.kind == 'ref' and not nullable:
                d = m.lookup(rt.ns, rt.name)
                if d.kind == 'struct':
                    own = [f for s_ in m.chain(d) for f in m.own_fields(s_)]
                    rq = [f for f in own if f.default is None and not m.is_nullable(f.type)]
                    req = [camel(f.name) for f in rq]
                    full = req + [camel(f.name) for f in own if f not in rq]
                else:
                    full = req = [camel(d.name)]
            elif rt.kind == 'prim' and rt.name == 'Void' and not nullable:
                full = req = []
            else:
                unsupported = True
                break
            for suffix, extra in {'rpc': [('', [])], 'upload': [('UploadBody', ['input'])],
                                  'download': [('URL', ['overwrite', 'destination']), ('', [])]}[route_style(r)]:
                want.append((nm + suffix, tuple(full + extra), nm))
                if full != req:
                    want.append((nm + suffix, tuple(req + extra), nm))
        if unsupported:
            res.skip('swift_objc_client_unmodelled_argument_type')
            continue
        body = _block_full(text, r'^public class DBX%sRoutes: ' % pascal(ns.name))
        have = []
        for name, labels, fbody in swift_funcs(body):
            # (which arguments the wrapper hands on is not judged: the statement is about declarations;
            # for union and Void arguments the template drops the style's extra arguments today)
            mo = re.search(r'let swift = swift\.(\w+)\(', fbody)
            have.append((name, tuple(labels), mo.group(1) if mo else None))
            res.count('swift_objc_functions_checked')
        if sorted(have) != sorted(want):
            res.violation({'kind': 'client_functions_differ', 'backend': cfg},
                          {'file': fn, 'missing': [x for x in want if x not in have][:3],
                           'surplus': [x for x in have if x not in want][:3]}, replay)
        else:
            res.see(cfg, 'functions_match', min(len(want), 5))


def check_objc_types(res, m, texts, replay):
    cfg = 'obj_c_types'
    headers = '\n'.join(t for p, t in texts.items() if p.endswith('.h'))
    alias_names = {(d.ns, d.name) for d in m.defs('alias')}
    for ns in m.namespaces:
        pre = 'DB' + pascal(ns.name).upper()
        for d in types_with_fields(m, ns):
            cls = pre + d.name
            hdr = [t for p, t in texts.items() if p.endswith('/%s.h' % cls)]
            if len(hdr) != 1:
                res.violation({'kind': 'header_file_count', 'backend': cfg}, {'type': cls, 'count': len(hdr)}, replay)
                continue
            text = hdr[0]
            expect_once(res, replay, cfg, d.kind, r'^@interface %s : ' % cls, headers, {'type': cls})
            expect_once(res, replay, cfg, 'serializer', r'^@interface %sSerializer : ' % cls, headers, {'type': cls})
            if d.kind == 'struct':
                for f in m.own_fields(d):
                    nm = camel(f.name)
                    expect_once(res, replay, cfg, 'field', r'^@property \([^)]*\)[^;]*?\b%s;' % nm, text,
                                {'type': cls, 'field': f.name}, shape_of(m, f.type))
            else:
                for f in m.union_all_fields(d):
                    expect_once(res, replay, cfg, 'tag', r'^- \(BOOL\)is%s;' % pascal(f.name), text,
                                {'type': cls, 'tag': f.name}, shape_of(m, f.type))
                    # the tag's case of the <Union>Tag enumeration
                    expect_once(res, replay, cfg, 'tag_enumerator', r'^\s*%s%s,\s*$' % (cls, pascal(f.name)),
                                text, {'type': cls, 'tag': f.name},
                                'inherited' if f not in m.own_fields(d) else 'own')
        for r in ns.defs:
            if r.kind == 'route':
                nm = pre + pascal(r.name) + ('' if r.version == 1 else 'V%d' % r.version)
                expect_once(res, replay, cfg, 'route_object', r'^\+ \(DBRoute \*\)%s;' % nm, headers,
                            {'route': r.name}, 'v%d' % r.version)
    # initializers: a subclass hands its inherited fields to an initializer that the
    # parent's header declares (a selector nobody declares is an undeclared name)
    impl = {}
    for p, t in texts.items():
        if p.endswith('.m'):
            for mt in re.finditer(r'(?ms)^@implementation (\w+)\b(.*?)^@end', t):
                impl[mt.group(1)] = mt.group(2)

    def selector(call):
        parts = call.split()
        if len(parts) == 1 and ':' not in parts[0]:
            return parts[0]
        return ''.join(x.split(':')[0] + ':' for x in parts if ':' in x)
    for ns in m.namespaces:
        pre = 'DB' + pascal(ns.name).upper()
        for d in ns.defs:
            if d.kind != 'struct' or not d.parent:
                continue
            cls = pre + d.name
            pcls = 'DB' + pascal(d.parent[0]).upper() + d.parent[1]
            phdr = [t for p, t in texts.items() if p.endswith('/%s.h' % pcls)]
            body = impl.get(cls)
            if body is None or len(phdr) != 1:
                continue
            declared = set()
            for mt in re.finditer(r'(?m)^- \(instancetype\)(init[^;{]*);', phdr[0]):
                sig = re.sub(r'\([^)]*\)', '', mt.group(1))
                declared.add(selector(sig))
            for mt in re.finditer(r'self = \[super (init[^\]]*)\];', body):
                res.count('super_initializers_checked')
                sel = selector(mt.group(1))
                if sel not in declared:
                    res.violation({'kind': 'undeclared_super_initializer', 'backend': cfg},
                                  {'type': cls, 'parent': pcls, 'selector': sel, 'declared': sorted(declared)},
                                  replay)
                else:
                    res.see(cfg, 'super_init', 'depth%d' % min(3, len(m.ancestors(d))))
    # user-type names: DB<NS><Name>... tokens must start with a declared type name
    allcode = '\n'.join(texts.values())
    prefixes = {}
    for ns in m.namespaces:
        pre = 'DB' + pascal(ns.name).upper()
        prefixes[pre] = ({d.name for d in types_with_fields(m, ns)},
                         {d.name for d in ns.defs if d.kind == 'alias'},
                         {pascal(r.name) for r in ns.defs if r.kind == 'route'})
    for tok in set(sn.identifiers(allcode)):
        for pre in sorted(prefixes, key=len, reverse=True):
            if tok.startswith(pre) and len(tok) > len(pre) and tok[len(pre)].isupper():
                rest = tok[len(pre):]
                types, aliases, routes = prefixes[pre]
                if any(rest.startswith(t) for t in types) or any(rest.startswith(r_) for r_ in routes) or \
                        rest.startswith(('RouteObjects', 'Objects', 'Routes')) or 'AuthRoutes' in rest:
                    break
                if any(rest.startswith(a) for a in aliases):
                    res.violation({'kind': 'undeclared_user_type_name', 'backend': cfg, 'what': 'alias_name'},
                                  {'name': tok}, replay)
                break


OBJC_AUTHS = ['user', 'user', 'app', 'team', 'noauth', 'user']
OBJC_STYLE_VARIANTS = {'upload': [('Url', ['inputUrl'], 'Upload'), ('Data', ['inputData'], 'Upload')],
                       'download': [('Url', ['overwrite', 'destination'], 'Download'), ('Data', [], 'Download')],
                       'rpc': [('', [], 'Rpc')]}


def _match_paren(text, i):
    """text[i] == '(' -> index just after the matching ')'."""
    depth = 0
    for j in range(i, len(text)):
        if text[j] == '(':
            depth += 1
        elif text[j] == ')':
            depth -= 1
            if depth == 0:
                return j + 1
    return len(text)


def objc_methods(code):
    """(selector, body-or-None) of every instance/class method declared or defined in comment-free code."""
    out = []
    for mm in re.finditer(r'^[-+] *\(', code, re.M):
        k = _match_paren(code, mm.end() - 1)
        e = k
        while e < len(code) and code[e] not in ';{':
            e = _match_paren(code, e) if code[e] == '(' else e + 1
        sig = code[k:e]
        body = None
        if e < len(code) and code[e] == '{':
            depth, j = 0, e
            while j < len(code):
                if code[j] == '{':
                    depth += 1
                elif code[j] == '}':
                    depth -= 1
                    if depth == 0:
                        break
                j += 1
            body = code[e:j + 1]
        m0 = re.match(r'\s*(\w+)', sig)
        if not m0:
            continue
        labels, pos, nargs = [m0.group(1)], m0.end(), 0
        while True:
            m1 = re.match(r'\s*:\s*\(', sig[pos:])
            if not m1:
                break
            pos = _match_paren(sig, pos + m1.end() - 1)
            m2 = re.match(r'\s*\w+', sig[pos:])
            pos += m2.end() if m2 else 0
            nargs += 1
            m3 = re.match(r'\s*(\w+)(?=\s*:)', sig[pos:])
            if not m3:
                break
            labels.append(m3.group(1))
            pos += m3.end()
        out.append((':'.join(labels) + (':' if nargs else ''), body))
    return out


def objc_route_generated(r, auth):
    have = [a.strip() for a in (r.attrs.get('auth') or ('lit', 'user'))[1].split(',')]
    return auth in have or ('noauth' in have and auth == 'user')


def objc_expected_methods(m, ns, auth):
    """selector -> (route variable, request style) for every method the routes of `ns` must get."""
    exp = []
    pre = 'DB' + pascal(ns.name).upper()
    for r in ns.defs:
        if r.kind != 'route' or not objc_route_generated(r, auth):
            continue
        vs = '' if r.version == 1 else 'V%d' % r.version
        func = camel(r.name) + vs
        var = pre + pascal(r.name) + vs
        rt, nullable = m.resolve_alias(r.arg)
        variants = []
        if rt.kind == 'ref' and not nullable and not r.arg.nullable:
            d = m.lookup(rt.ns, rt.name)
            if d.kind == 'struct':
                # these backends see the Api with aliases removed: a field typed by an alias of a
                # nullable type is an optional field there (required first, then optional, ancestors first)
                own = [f for s_ in m.chain(d) for f in m.own_fields(s_)]
                req = [f for f in own if f.default is None and not m.is_nullable(f.type)]
                allf = req + [f for f in own if f not in req]
                if len(req) != len(allf):
                    variants.append([camel(f.name) for f in req])
                variants.append([camel(f.name) for f in allf])
            else:
                variants.append([camel(d.name)])
        elif rt.kind == 'prim' and rt.name == 'Void':
            variants.append([])
        else:
            return None     # argument types the backend does not support (recorded finding)
        for suffix, extras, req_style in OBJC_STYLE_VARIANTS[route_style(r)]:
            for args in variants:
                names = args + extras
                sel = func + suffix + (':' + ''.join(a + ':' for a in names[1:]) if names else '')
                exp.append((sel, var, req_style, bool(args) or rt.kind == 'ref'))
    return exp


def check_objc_client(res, m, texts, replay):
    cfg = 'obj_c_client'
    auth = replay.get('objc_auth', 'user')
    if not texts:
        res.violation({'kind': 'no_output', 'backend': cfg}, {}, replay)
        return
    res.count('declarations_checked')
    res.see(cfg, 'files', min(len(texts), 6))
    auth_cls = pascal('user' if auth == 'noauth' else auth)
    with_routes = []
    for ns in m.namespaces:
        exp = objc_expected_methods(m, ns, auth)
        if exp is None:
            res.skip('objc_client_unsupported_argument_type')
            return
        cls = 'DB%s%sAuthRoutes' % (pascal(ns.name).upper(), auth_cls)
        for ext in ('h', 'm'):
            fn = 'Routes/%s.%s' % (cls, ext)
            text = texts.get(fn)
            if not exp:
                if text is not None:
                    res.violation({'kind': 'routes_file_for_namespace_without_routes', 'backend': cfg},
                                  {'file': fn, 'auth': auth}, replay)
                continue
            if text is None:
                res.violation({'kind': 'file_missing', 'backend': cfg}, {'file': fn, 'auth': auth}, replay)
                continue
            got = [(sel, body) for sel, body in objc_methods(text) if sel != 'init:']
            want = sorted(e[0] for e in exp)
            have = sorted(sel for sel, _ in got)
            res.count('objc_client_methods_checked', len(want))
            if want != have:
                missing = [x for x in want if x not in have]
                extra = [x for x in have if x not in want]
                dup = sorted({x for x in have if have.count(x) > 1})
                res.violation({'kind': 'client_methods_differ', 'backend': cfg, 'file': ext,
                               'how': 'missing' if missing else ('duplicate' if dup else 'surplus')},
                              {'file': fn, 'auth': auth, 'missing': missing[:4], 'surplus': extra[:4],
                               'duplicates': dup[:4]}, replay)
                continue
            res.see(cfg, 'methods_' + ext, auth, min(len(want), 5))
            if ext == 'm':
                by_sel = {e[0]: e for e in exp}
                for sel, body in got:
                    _, var, style, has_arg = by_sel[sel]
                    body = body or ''
                    res.count('objc_client_bodies_checked')
                    m1 = re.search(r'DBRoute \*route = (\w+)\.(\w+);', body)
                    m2 = re.search(r'\[self\.client request(\w+?):route arg:(\w+)', body)
                    # judged: the route object the method names (a declared one, of this route); the
                    # request style and argument are recorded only
                    ok = (m1 and m1.group(1) == 'DB%sRouteObjects' % pascal(ns.name).upper() and
                          m1.group(2) == var)
                    if not ok:
                        res.violation({'kind': 'client_method_wiring', 'backend': cfg},
                                      {'selector': sel, 'expected_route': var, 'expected_style': style,
                                       'body': body[:300]}, replay)
                    else:
                        res.see(cfg, 'wiring', style, has_arg)
        if exp:
            with_routes.append(ns)
    # the client class holds one routes object per namespace that has routes for this auth type
    hdr, impl = texts.get('Client/ApiClient.h'), texts.get('Client/ApiClient.m')
    if hdr is None or impl is None:
        res.violation({'kind': 'file_missing', 'backend': cfg}, {'file': 'Client/ApiClient.[hm]'}, replay)
        return
    want = sorted('%sRoutes' % camel(ns.name) for ns in with_routes)
    have_h = sorted(re.findall(r'@property \([^)]*\) \w+ \*\s*(\w+Routes);', hdr))
    have_m = sorted(x[1:] for x in re.findall(r'(_\w+Routes) = \[\[\w+ alloc\] init:client\];', impl))
    res.count('declarations_checked', 2)
    if want != have_h or want != have_m:
        res.violation({'kind': 'client_namespace_properties_differ', 'backend': cfg},
                      {'expected': want, 'header': have_h, 'implementation': have_m, 'auth': auth}, replay)
    else:
        res.see(cfg, 'namespace_properties', min(len(want), 4))
