"""C16 - JavaScript and TypeScript output is well formed and covers the whole API."""
import json
import os
import random
import re
import shutil
import subprocess

from .. import common
from ..gen import model as gm, render as gr
from ..gen.model import PRIM_INTS, PRIM_FLOATS
from ..mon import backends as B
from ..ref import scan_ts

PROPERTY = 'C16'
LEVEL = 'exploration'
RULE = ('every generated spec x option sets (single file vs file per namespace, --export-namespaces, '
        '--import-namespaces, wrap-response/error, --request-options, attribute comments) through js_client, '
        'js_types, tsd_types, tsd_client: the backend must complete; js_client output must pass `node --check` '
        'and an evaluation harness (node) that binds a recording request() and calls every route function '
        '(URL, argument or null, attribute values in schema order); JSDoc and TypeScript output is scanned by '
        'an own lexer (terminated comments/strings, balanced brackets) and declaration scanner: every struct, '
        'union (and alias for TypeScript) declared exactly once with every field/tag, optionality and mapped '
        'type, one method per route version, and every referenced type name declared, imported or built in. '
        'distinct = distinct (backend, option set, declaration kind, type shape) cells')
ASSUMPTIONS = ['no TypeScript compiler is available: TypeScript and JSDoc are checked lexically and declaratively',
               'exact type text is asserted for primitives, user types, aliases and lists/maps of those',
               'optionality of a field typed by an alias of a nullable type is not judged (see C04 finding)']
REQUIRED_COUNTERS = ['backend_runs', 'node_evaluations', 'declarations_checked']


def time_limit(tier):
    return common.default_limit(tier)


def budget(tier):
    return dict(specs=40) if tier == 'quick' else dict(specs=2000)


def profile(ci):
    return gm.make_profile(p_cfg=0.8, p_cfg_union_attr=0.15 if ci % 4 == 0 else 0.0, n_ns=(1, 4),
                           p_doc=0.5, p_hostile_doc=0.05, p_foreign=0.5, p_examples=0.1, n_routes=(1, 5),
                           p_route_container_result=0.35,
                           p_sparse_namespace=0.2)


def camel(s):
    words = [w for w in re.split(r'[-_/]+', s) if w]
    return words[0].lower() + ''.join(w.capitalize() for w in words[1:])


def pascal_ns(ns):
    return ''.join(w.capitalize() for w in ns.split('_'))


JS_OPTS = [('base', []), ('wrap', ['--wrap-response-in', 'Resp', '--wrap-error-in', 'Err']),
           ('options', ['--request-options']), ('attr_comment', None)]
TSD_TYPES_OPTS = [('single', [B.TYPES_TPL, 'types.d.ts']),
                  ('single_export', [B.TYPES_TPL, 'types.d.ts', '--export-namespaces']),
                  ('per_namespace', [B.TYPES_TPL]),
                  ('per_namespace_prefix', [B.TYPES_TPL, '-p', 'pre/'])]
TSD_CLIENT_OPTS = [('base', [B.CLIENT_TPL, 'client.d.ts']),
                   ('import', [B.CLIENT_TPL, 'client.d.ts', '--import-namespaces', '--types-file', './types']),
                   ('wrap', [B.CLIENT_TPL, 'client.d.ts', '--wrap-response-in', 'Resp', '--wrap-error-in', 'Err'])]

JS_PRIM = {'Boolean': 'boolean', 'Bytes': 'string', 'String': 'string', 'Timestamp': 'Timestamp', 'Void': 'void'}


def prim_js(t):
    if t.name in PRIM_INTS or t.name in PRIM_FLOATS:
        return 'number'
    return JS_PRIM[t.name]


def ts_type(m, cur_ns, t, poly=True):
    """Exact TypeScript type text for 'simple' types, else None (not asserted)."""
    if t is None:
        return 'void'
    if t.nullable:
        return None
    if t.kind == 'prim':
        return prim_js(t)
    if t.kind == 'list':
        inner = ts_type(m, cur_ns, t.args['item'])
        return None if inner is None else 'Array<%s>' % inner
    if t.kind == 'map':
        inner = ts_type(m, cur_ns, t.args['value'], poly=False)
        return None if inner is None else '{[key: string]: %s}' % inner
    d = m.lookup(t.ns, t.name)
    q = d.name if d.ns == cur_ns else '%s.%s' % (d.ns, d.name)
    if d.kind == 'struct' and d.subtypes and poly:
        names = [(sn[1] if sn[0] == cur_ns else '%s.%s' % sn) + 'Reference' for _, sn in d.subtypes['items']]
        if not d.subtypes['closed']:
            names.append(q + 'Reference')
        return '|'.join(names)
    return q


def jsdoc_type(m, t):
    """Exact JSDoc type text for 'simple' field types (after unwrapping aliases / nullable at the top)."""
    rt, _ = m.resolve_alias(t)
    if rt.kind == 'prim':
        return prim_js(rt)
    if rt.kind == 'map':
        return 'Object'
    if rt.kind == 'list':
        it = rt.args['item']
        if it.nullable or (it.kind == 'ref' and m.lookup(it.ns, it.name).kind == 'alias') or it.kind != 'prim' \
                and it.kind != 'ref':
            return None
        inner = jsdoc_type(m, it)
        return None if inner is None else 'Array.<%s>' % inner
    d = m.lookup(rt.ns, rt.name)
    name = pascal_ns(d.ns) + d.name
    if d.kind == 'struct' and d.subtypes:
        names = [pascal_ns(sn[0]) + sn[1] for _, sn in d.subtypes['items']]
        if not d.subtypes['closed']:
            names.append(name)
        return '(' + '|'.join(names) + ')' if len(names) > 1 else names[0]
    return name


def attr_json(m, r, f):
    if f.name in r.attrs and r.attrs[f.name] != ('null',):
        v = r.attrs[f.name]
        return ('TAG',) if v[0] == 'tag' else v[1]
    if f.default is not None:
        k, v = f.default
        return ('TAG',) if k == 'tag' else (float(v) if f.type.kind == 'prim' and f.type.name in PRIM_FLOATS else v)
    return None


def run_shard(tier, seed, idx, n, res, tmp):
    from stone.frontend.frontend import specs_to_ir
    from stone.compiler import BackendException
    b = budget(tier)
    for ci in common.case_range(idx, b['specs'], n, res):
        cs = common.case_seed(PROPERTY, seed, ci)
        rnd = random.Random(cs)
        m = gm.generate(cs, profile(ci))
        files = gr.render(m, None)
        base = os.path.join(tmp, 'js%d' % ci)
        routes = list(m.defs('route'))
        has_tag_attr = any(f.type.kind == 'ref' for f in m.cfg_fields)

        def run(cfg, args, tag):
            d = os.path.join(base, tag)
            res.count('backend_runs')
            res.evaluations += 1
            try:
                B.run_backend(specs_to_ir(files), (cfg, args), d)
                return d
            except BackendException as e:
                last = e.traceback.strip().split('\n')[-1]
                res.violation({'kind': 'backend_raised', 'backend': cfg, 'cause': _cause(last)},
                              {'error': e.traceback[-500:], 'options': tag},
                              {'case': ci, 'backend': cfg, 'args': args, 'files': files})
                return None

        # ---------------- js_client
        for oname, oargs in JS_OPTS:
            if oargs is None:
                oargs = [x for f in m.cfg_fields[:2] for x in ('-a', f.name)]
            d = run('js_client', ['routes.mjs', '-c', 'Api'] + oargs, 'js_client_' + oname)
            if d is None:
                continue
            path = os.path.join(d, 'routes.mjs')
            replay = {'case': ci, 'backend': 'js_client', 'options': oname, 'files': files}
            chk = subprocess.run(['node', '--check', path], capture_output=True, text=True, timeout=60)
            if chk.returncode != 0:
                res.violation({'kind': 'js_client_not_javascript', 'cause': _js_cause(chk.stderr)},
                              {'stderr': chk.stderr[-400:]}, replay)
                continue
            ev = subprocess.run(['node', os.path.join(common.VERIF, 'harness', 'eval_routes.mjs'), path],
                                capture_output=True, text=True, timeout=60)
            res.count('node_evaluations')
            if ev.returncode != 0:
                res.violation({'kind': 'js_client_evaluation_failed'}, {'stderr': ev.stderr[-400:]}, replay)
                continue
            got = json.loads(ev.stdout)
            exp_names = {}
            for r in routes:
                nm = camel(r.ns + '_' + r.name) + ('' if r.version == 1 else 'V%d' % r.version)
                exp_names.setdefault(nm, []).append(r)
            if set(got) != set(exp_names):
                res.violation({'kind': 'js_route_functions_differ'},
                              {'missing': sorted(set(exp_names) - set(got))[:5],
                               'extra': sorted(set(got) - set(exp_names))[:5]}, replay)
            for nm, rs in exp_names.items():
                if nm not in got or len(rs) != 1:
                    continue
                r = rs[0]
                g = got[nm]
                void_arg = r.arg.kind == 'prim' and r.arg.name == 'Void'
                url = '%s/%s%s' % (r.ns, r.name, '' if r.version == 1 else '_v%d' % r.version)
                exp_call = [url, None if void_arg else {'sentinel': 'ARG'}]
                for f in m.cfg_fields:
                    exp_call.append(attr_json(m, r, f))
                if oname == 'options':
                    exp_call.append({'sentinel': 'ARG'} if void_arg else {'sentinel': 'OPTIONS'})
                ok = g['err'] is None and g['ret'] == 'RETURNED' and len(g['calls']) == 1 and \
                    _json_same(g['calls'][0], exp_call)
                if not ok:
                    res.violation({'kind': 'js_route_request_differs', 'options': oname},
                                  {'function': nm, 'got': g, 'expected': exp_call}, replay)
                else:
                    res.see('js_client', oname, 'void_arg' if void_arg else 'arg', 'v%d' % r.version,
                            len(m.cfg_fields) > 0)
            if ci < n and oname == 'base':
                res.sample({'js_client_functions': sorted(got)[:5], 'first_call': next(iter(got.values()), None)},
                           cap=2)
        # ---------------- js_types
        d = run('js_types', ['types.js'], 'js_types')
        if d is not None:
            check_js_types(res, m, open(os.path.join(d, 'types.js'), encoding='utf-8').read(),
                           {'case': ci, 'backend': 'js_types', 'files': files})
        # ---------------- tsd_types
        for oname, oargs in TSD_TYPES_OPTS:
            d = run('tsd_types', oargs, 'tsd_types_' + oname)
            if d is not None:
                check_tsd_types(res, m, d, oname, {'case': ci, 'backend': 'tsd_types', 'options': oname,
                                                  'files': files})
        # ---------------- tsd_client
        for oname, oargs in TSD_CLIENT_OPTS:
            d = run('tsd_client', oargs, 'tsd_client_' + oname)
            if d is not None:
                check_tsd_client(res, m, open(os.path.join(d, 'client.d.ts'), encoding='utf-8').read(), oname,
                                 {'case': ci, 'backend': 'tsd_client', 'options': oname, 'files': files})
        shutil.rmtree(base, ignore_errors=True)


def _json_same(a, b):
    if isinstance(b, tuple):
        return isinstance(a, str)       # union-tag attribute: some string naming the tag
    if isinstance(a, list) and isinstance(b, list):
        return len(a) == len(b) and all(_json_same(x, y) for x, y in zip(a, b))
    if isinstance(a, dict) and isinstance(b, dict):
        return a == b
    if isinstance(a, bool) or isinstance(b, bool):
        return a is b
    if isinstance(a, (int, float)) and isinstance(b, (int, float)):
        return float(a) == float(b)      # JavaScript numbers are doubles
    return a == b


def _cause(last):
    last = re.sub(r"'[^']*'", "'_'", last)
    return re.sub(r'\d+', 'N', last)[:70]


def _js_cause(stderr):
    for ln in stderr.split('\n'):
        if 'SyntaxError' in ln:
            return ln.strip()[:60]
    return 'unknown'


def check_js_types(res, m, text, replay):
    f = scan_ts.JsDocFile(text)

    def bad(kind, detail):
        res.violation({'kind': kind, 'backend': 'js_types'}, detail, replay)
    if f.problems:
        bad('lexically_malformed', {'problems': f.problems[:4]})
        return
    if f.dups:
        bad('declared_twice', {'names': f.dups[:5]})
    declared = set(f.typedefs) | scan_ts.JS_BUILTINS
    for d in m.defs():
        if d.kind not in ('struct', 'union'):
            continue
        res.count('declarations_checked')
        name = pascal_ns(d.ns) + d.name
        td = f.typedefs.get(name)
        if td is None:
            bad('declaration_missing', {'name': name, 'kind': d.kind})
            continue
        if td['prop_dups']:
            bad('member_declared_twice', {'name': name, 'members': td['prop_dups'][:4]})
        if d.kind == 'struct':
            fields = m.struct_all_fields(d)
            exp = {x.name for x in fields}
            got = {p for p in td['props'] if p != '.tag'}
            if exp != got:
                bad('struct_fields_differ', {'name': name, 'missing': sorted(exp - got)[:5],
                                             'extra': sorted(got - exp)[:5]})
                continue
            for x in fields:
                p = td['props'][x.name]
                alias_nullable = m.is_nullable(x.type) and not x.type.nullable
                if not alias_nullable and p['optional'] != x.type.nullable:
                    bad('jsdoc_optionality', {'name': name, 'field': x.name, 'optional': p['optional']})
                et = jsdoc_type(m, x.type.copy(nullable=False))
                if et is not None and p['type'].replace(' ', '') != et.replace(' ', ''):
                    bad('jsdoc_field_type', {'name': name, 'field': x.name, 'got': p['type'], 'expected': et})
                elif et is not None:
                    res.see('js_types', 'struct_field', re.sub(r'[A-Z]\w+', 'T', et)[:30])
        else:
            tags = m.union_all_fields(d)
            typed = {x.name for x in tags if x.type is not None}
            got = {p for p in td['props'] if p != '.tag'}
            if typed != got:
                bad('union_members_differ', {'name': name, 'missing': sorted(typed - got)[:5],
                                             'extra': sorted(got - typed)[:5]})
            tagp = td['props'].get('.tag')
            if tags:
                got_tags = set(re.findall(r"'([^']+)'", tagp['type'])) if tagp else set()
                if got_tags != {x.name for x in tags}:
                    bad('union_tag_values_differ', {'name': name, 'got': sorted(got_tags)[:6]})
                else:
                    res.see('js_types', 'union', 'open' if not d.closed else 'closed')
        for p in td['props'].values():
            for nm in scan_ts.jsdoc_type_names(p['type']):
                if nm not in declared:
                    bad('referenced_type_not_declared', {'in': name, 'name': nm})


def check_tsd_types(res, m, d, oname, replay):
    def bad(kind, detail):
        res.violation({'kind': kind, 'backend': 'tsd_types', 'options': oname.split('_')[0]}, detail, replay)
    files = {}
    for fn in os.listdir(d):
        if fn.endswith('.d.ts'):
            files[fn] = scan_ts.TsFile(open(os.path.join(d, fn), encoding='utf-8').read())
    per_ns = oname.startswith('per_namespace')
    prefix = 'pre/' if oname.endswith('prefix') else ''
    all_ns = {}
    for fn, f in files.items():
        if f.problems:
            bad('lexically_malformed', {'file': fn, 'problems': f.problems[:4]})
            return
        for nsname, nsd in f.namespaces.items():
            key = nsname[len(prefix):] if prefix and nsname.startswith(prefix) else nsname
            if key in all_ns:
                bad('namespace_declared_twice', {'namespace': key})
            all_ns[key] = (nsd, f)
    for ns in m.namespaces:
        has_types = any(x.kind in ('struct', 'union', 'alias') for x in ns.defs)
        if not has_types:
            continue
        if ns.name not in all_ns:
            bad('namespace_missing', {'namespace': ns.name})
            continue
        nsd, f = all_ns[ns.name]
        if nsd['dups']:
            bad('declared_twice', {'namespace': ns.name, 'names': nsd['dups'][:5]})
        known_ns = set(all_ns) if not per_ns else (set(f.imports) | {ns.name})
        local = set(nsd['interfaces']) | set(nsd['types'])

        def resolve(type_text, where):
            for nm in scan_ts.type_names(type_text):
                parts = nm.split('.')
                if len(parts) == 1:
                    if nm in local or nm in scan_ts.TS_BUILTINS:
                        continue
                    bad('referenced_type_not_declared', {'namespace': ns.name, 'in': where, 'name': nm})
                else:
                    tns, tn = parts[0], parts[1]
                    if tns not in known_ns:
                        bad('referenced_namespace_not_imported', {'namespace': ns.name, 'in': where, 'name': nm})
                    elif tns in all_ns and tn not in all_ns[tns][0]['interfaces'] and \
                            tn not in all_ns[tns][0]['types']:
                        bad('referenced_type_not_declared', {'namespace': ns.name, 'in': where, 'name': nm})

        for x in ns.defs:
            if x.kind == 'struct':
                res.count('declarations_checked')
                it = nsd['interfaces'].get(x.name)
                if it is None:
                    bad('declaration_missing', {'namespace': ns.name, 'name': x.name, 'kind': 'struct'})
                    continue
                exp_parent = None if not x.parent else (x.parent[1] if x.parent[0] == ns.name
                                                        else '%s.%s' % x.parent)
                if it['extends'] != exp_parent:
                    bad('struct_extends', {'name': x.name, 'got': it['extends'], 'expected': exp_parent})
                if it['extends']:
                    resolve(it['extends'], x.name)
                own = m.own_fields(x)
                if {f_.name for f_ in own} != set(it['members']):
                    bad('struct_fields_differ', {'name': x.name,
                                                 'missing': sorted({f_.name for f_ in own} - set(it['members']))[:5],
                                                 'extra': sorted(set(it['members']) - {f_.name for f_ in own})[:5]})
                    continue
                if it['member_dups']:
                    bad('member_declared_twice', {'name': x.name, 'members': it['member_dups'][:4]})
                for f_ in own:
                    mem = it['members'][f_.name]
                    alias_nullable = m.is_nullable(f_.type) and not f_.type.nullable
                    exp_opt = f_.type.nullable or f_.default is not None
                    if not alias_nullable and mem['optional'] != exp_opt:
                        bad('ts_optionality', {'name': x.name, 'field': f_.name, 'optional': mem['optional'],
                                               'expected': exp_opt})
                    et = ts_type(m, ns.name, f_.type.copy(nullable=False))
                    if et is not None and mem['type'].replace(' ', '') != et.replace(' ', ''):
                        bad('ts_field_type', {'name': x.name, 'field': f_.name, 'got': mem['type'], 'expected': et})
                    elif et is not None:
                        res.see('tsd_types', oname, 'struct_field', re.sub(r'[A-Z]\w+', 'T', et)[:30])
                    resolve(mem['type'], '%s.%s' % (x.name, f_.name))
                if x.subtypes or m.is_leaf(x):
                    if x.name + 'Reference' not in nsd['interfaces']:
                        bad('declaration_missing', {'namespace': ns.name, 'name': x.name + 'Reference',
                                                    'kind': 'subtype_reference'})
            elif x.kind == 'union':
                res.count('declarations_checked')
                ut = nsd['types'].get(x.name)
                if ut is None:
                    bad('declaration_missing', {'namespace': ns.name, 'name': x.name, 'kind': 'union'})
                    continue
                own = list(m.own_fields(x))
                if m.union_declares_other(x):
                    own.append(gm.FieldDef(name='other', type=None, default=None, doc=None, anns=[]))
                exp_variants = [x.name + ''.join(w.capitalize() for w in t_.name.split('_')) for t_ in own]
                exp_members = ([x.parent[1] if x.parent[0] == ns.name else '%s.%s' % x.parent]
                               if x.parent else []) + exp_variants
                if not ut.strip():
                    bad('type_alias_without_right_hand_side', {'name': x.name})
                    continue
                got_members = [p.strip() for p in ut.split('|')]
                if got_members == ['never']:
                    got_members = []
                if got_members != exp_members:
                    bad('union_members_differ', {'name': x.name, 'got': got_members[:8],
                                                 'expected': exp_members[:8]})
                for t_, vn in zip(own, exp_variants):
                    it = nsd['interfaces'].get(vn)
                    if it is None:
                        bad('declaration_missing', {'namespace': ns.name, 'name': vn, 'kind': 'union_variant'})
                        continue
                    tagm = it['members'].get('.tag')
                    if tagm is None or tagm['type'] != "'%s'" % t_.name:
                        bad('union_variant_tag', {'variant': vn, 'got': tagm})
                    for mem_name, mem in it['members'].items():
                        resolve(mem['type'], vn)
                    if it['extends']:
                        resolve(it['extends'], vn)
                    res.see('tsd_types', oname, 'union_variant', 'void' if t_.type is None else t_.type.kind)
                resolve(ut, x.name)
            elif x.kind == 'alias':
                res.count('declarations_checked')
                at = nsd['types'].get(x.name)
                if at is None:
                    bad('declaration_missing', {'namespace': ns.name, 'name': x.name, 'kind': 'alias'})
                    continue
                resolve(at, x.name)
                et = ts_type(m, ns.name, x.type, poly=False)
                if et is not None and at.replace(' ', '') != et.replace(' ', ''):
                    bad('ts_alias_type', {'name': x.name, 'got': at, 'expected': et})
                else:
                    res.see('tsd_types', oname, 'alias', x.type.kind)


def check_tsd_client(res, m, text, oname, replay):
    def bad(kind, detail):
        res.violation({'kind': kind, 'backend': 'tsd_client', 'options': oname}, detail, replay)
    f = scan_ts.TsFile(text)
    if f.problems:
        bad('lexically_malformed', {'problems': f.problems[:4]})
        return
    if f.method_dups:
        bad('method_declared_twice', {'names': f.method_dups[:4]})
    exp = {}
    for r in m.defs('route'):
        exp[camel(r.ns + '_' + r.name) + ('' if r.version == 1 else 'V%d' % r.version)] = r
    if set(exp) != set(f.methods):
        bad('client_methods_differ', {'missing': sorted(set(exp) - set(f.methods))[:5],
                                      'extra': sorted(set(f.methods) - set(exp))[:5]})
    ns_with_types = {ns.name for ns in m.namespaces
                     if any(x.kind in ('struct', 'union', 'alias') for x in ns.defs)}
    for nm, r in exp.items():
        if nm not in f.methods:
            continue
        res.count('declarations_checked')
        arg_t, ret_t = f.methods[nm]
        void_arg = r.arg.kind == 'prim' and r.arg.name == 'Void'
        if void_arg != (arg_t is None):
            bad('client_method_argument_presence', {'method': nm, 'arg': arg_t})
            continue
        if not void_arg:
            et = ts_type(m, None, r.arg) if not r.arg.nullable else None
            if et is not None and arg_t.replace(' ', '') != et.replace(' ', ''):
                bad('client_argument_type', {'method': nm, 'got': arg_t, 'expected': et})
        et = ts_type(m, None, r.result) if not r.result.nullable else None
        if et is not None:
            exp_ret = 'Resp<%s>' % et if oname == 'wrap' else et
            if ret_t.replace(' ', '') != exp_ret.replace(' ', ''):
                bad('client_result_type', {'method': nm, 'got': ret_t, 'expected': exp_ret})
            else:
                res.see('tsd_client', oname, 'void_arg' if void_arg else 'arg', 'v%d' % r.version)
        for tt in (arg_t or '', ret_t):
            for name in scan_ts.type_names(tt):
                parts = name.split('.')
                if len(parts) == 1:
                    if name not in scan_ts.TS_BUILTINS and name not in ('Resp', 'Err'):
                        bad('referenced_type_not_declared', {'method': nm, 'name': name})
                elif parts[0] not in ns_with_types:
                    bad('referenced_namespace_without_types', {'method': nm, 'name': name})
    if oname == 'import':
        mi = re.search(r"import \{ (.*) \} from './types';", text)
        if not mi:
            bad('import_statement_missing', {})
        else:
            got = {x.strip() for x in mi.group(1).split(',') if x.strip()}
            if got != ns_with_types:
                bad('imported_namespaces_differ', {'got': sorted(got), 'expected': sorted(ns_with_types)})
