"""C04 - encoding then decoding any valid value returns the same value.
(The same executions are judged by the C05 oracle in c05.py.)"""
import json

from .. import common
from ..gen.values import ValueGen, Uninhabited, SV, UV
from ..mon import pyrt
from ..ref import wire
from . import rtwork

PROPERTY = 'C04'
LEVEL = 'exploration'
RULE = ('for every struct, union, alias and route arg/result/error type of generated specs, boundary-biased '
        'valid values are built through the documented API of the imported python_types package, encoded '
        'and decoded through json_encode/json_decode and json_compat_obj_encode/json_compat_obj_decode in '
        'strict and lenient mode; oracle: generated == , AV read-back (attribute reads, is_/get_) equals the '
        'public view of the value that was built, and re-encoding gives the same JSON. distinct = distinct '
        '(value shape path, entry point, mode) triples')
ASSUMPTIONS = ['excluded as documented: nullable struct-valued tag whose value encodes to {}; the implicit '
               '`other` tag; subclass instances in plain-struct positions; NaN/inf',
               'new-style JSON only']
REQUIRED_COUNTERS = ['round_trips']
JUDGE = 'roundtrip'


def time_limit(tier):
    return common.default_limit(tier)


def budget(tier):
    return dict(specs=200, values=8) if tier == 'quick' else dict(specs=6000, values=12)


def excluded(m, t, av):
    """Documented non-round-trippable: nullable struct member encoding to {} (anywhere inside)."""
    if av is None or t is None:
        return False
    if t.kind == 'list':
        return any(excluded(m, t.args['item'], x) for x in av)
    if t.kind == 'map':
        return any(excluded(m, t.args['value'], x) for x in av.values())
    if t.kind == 'prim':
        return False
    d = m.lookup(t.ns, t.name)
    if d.kind == 'alias':
        return excluded(m, d.type, av)
    if isinstance(av, SV):
        vd = m.lookup(av.ns, av.name)
        return any(excluded(m, f.type, av.fields.get(f.name)) for f in m.struct_all_fields(vd))
    if isinstance(av, UV):
        f = [x for x in m.union_all_fields(m.lookup(av.ns, av.name)) if x.name == av.tag][0]
        if getattr(f, 'implicit', False):
            return True      # the catch-all tag cannot be sent explicitly (C06)
        if f.type is None or av.value is None:
            return False
        tgt = m.target(f.type)
        if m.is_nullable(f.type) and tgt is not None and tgt.kind == 'struct' and not tgt.subtypes:
            if not wire.encode(m, f.type, av.value):
                return True
        return excluded(m, f.type, av.value)
    return False


def run_shard(tier, seed, idx, n, res, tmp, judge=None, prop=None):
    judge = judge or JUDGE
    prop = prop or PROPERTY
    from stone.backends.python_rsrc import stone_serializers as ss, stone_validators as bv
    b = budget(tier)
    for ci in common.case_range(idx, b['specs'], n, res):
        try:
            case = rtwork.SpecCase(prop, seed, ci, tmp, rtwork.rt_profile(p_shared_type_name=0.15))
        except Exception as e:
            res.violation({'kind': 'package_unusable', 'exc': type(e).__name__,
                           'site': '%s:%s' % common.exc_site(e)}, {'error': repr(e)[:300]},
                          {'case': ci})
            continue
        m, pkg, rnd = case.m, case.pkg, case.rnd
        try:
            positions = rtwork.typed_positions(m, pkg)
        except Exception as e:
            # an unimportable package is C09's business; here it only means "nothing observed"
            res.skip('package_not_importable:%s' % type(e).__name__)
            case.close()
            continue
        try:
            vg = ValueGen(m, rnd, bool_for_number=(judge != 'roundtrip'), subclass_slots=(judge == 'wire'))
            if judge == 'roundtrip':
                alias_nullable_probe(res, m, pkg, vg, ss, ci, case)
            for label, shape, t, validator in positions:
                for vi in range(b['values']):
                    try:
                        av = vg.value(t, avoid_null=(vi % 3 != 2))
                    except Uninhabited:
                        res.skip('uninhabited_type')
                        break
                    if excluded(m, t, av):
                        res.skip('catch_all_or_nullable_empty_struct_member')
                        continue
                    replay = {'case': ci, 'type': label, 'av': repr(av)[:600], 'files': case.files}
                    sp = rtwork.shape_path(m, t, av)
                    try:
                        obj = pyrt.build(pkg, m, av, use_ctor=(vi % 2 == 0))
                    except Exception as e:
                        res.violation({'kind': 'valid_value_refused', 'exc': type(e).__name__,
                                       'shape': sp.split('>')[0]},
                                      {'error': repr(e)[:300], 'shape': sp}, replay)
                        continue
                    for entry in ('compat', 'json'):
                        try:
                            if entry == 'compat':
                                enc = ss.json_compat_obj_encode(validator, obj)
                                tree = enc
                            else:
                                enc = ss.json_encode(validator, obj)
                                tree = json.loads(enc)
                        except Exception as e:
                            res.violation({'kind': 'encode_raised', 'exc': type(e).__name__, 'entry': entry},
                                          {'error': repr(e)[:300], 'shape': sp}, replay)
                            continue
                        res.evaluations += 1
                        if judge == 'wire':
                            res.count('encodings_compared')
                            try:
                                ref_tree = wire.encode(m, t, av)
                            except wire.Unspecified:
                                res.skip('unspecified_value')
                                continue
                            if not wire.pure_json(tree):
                                res.violation({'kind': 'not_json_compatible', 'entry': entry},
                                              {'shape': sp, 'got': repr(tree)[:300]}, replay)
                            diff = wire.json_eq(ref_tree, tree)
                            if diff:
                                res.violation({'kind': 'wire_format', 'rule': wire_rule(sp)},
                                              {'diff': diff, 'shape': sp, 'expected': ref_tree, 'got': tree},
                                              replay)
                            else:
                                res.see(wire_rule(sp), sp.split('>')[0], entry)
                            if vi == 0 and ci < n and entry == 'compat':
                                res.sample({'type': label, 'shape': sp, 'json': tree}, cap=5)
                            continue
                        for strict in (True, False):
                            res.count('round_trips')
                            mode = 'strict' if strict else 'lenient'
                            try:
                                if entry == 'compat':
                                    dec = ss.json_compat_obj_decode(validator, enc, strict=strict)
                                else:
                                    dec = ss.json_decode(validator, enc, strict=strict)
                            except Exception as e:
                                res.violation({'kind': 'decode_of_own_encoding_raised',
                                               'exc': type(e).__name__, 'mode': mode},
                                              {'error': repr(e)[:300], 'shape': sp, 'json': tree}, replay)
                                continue
                            bad = None
                            try:
                                if not (dec == obj):
                                    bad = ('generated_eq', 'decoded value != original by generated ==')
                            except Exception as e:
                                bad = ('generated_eq_raised', repr(e)[:200])
                            if bad is None:
                                try:
                                    back = pyrt.read(pkg, m, t, dec)
                                    d = pyrt.av_eq(pyrt.public_view(m, t, av), back)
                                    if d:
                                        bad = ('readback', d)
                                except pyrt.ReadError as e:
                                    bad = ('readback', str(e))
                            if bad is None:
                                try:
                                    enc2 = ss.json_compat_obj_encode(validator, dec)
                                    d = wire.json_eq(tree, enc2)
                                    if d:
                                        bad = ('reencode', d)
                                except Exception as e:
                                    bad = ('reencode_raised', repr(e)[:200])
                            if bad:
                                res.violation({'kind': 'roundtrip_' + bad[0], 'mode': mode,
                                               'top': sp.split('>')[0]},
                                              {'why': bad[1], 'shape': sp, 'json': tree}, replay)
                            else:
                                res.see(sp, entry, mode)
                    if vi == 0 and ci < n and judge != 'wire':
                        res.sample({'type': label, 'shape': sp, 'value': repr(av)[:300]}, cap=5)
        finally:
            case.close()


def alias_nullable_probe(res, m, pkg, vg, ss, ci, case):
    """A field typed by an alias of a nullable type is optional by the language
    reference; leaving it out of the constructor must give an encodable value."""
    for d in m.defs('struct'):
        if d.subtypes:
            continue
        hit = [f for f in m.struct_all_fields(d) if m.is_nullable(f.type) and not f.type.nullable]
        if not hit:
            continue
        try:
            av = vg.struct_value(d, 0, exact=True)
        except Uninhabited:
            continue
        for f in hit:
            av.fields.pop(f.name, None)
        vals = {k: pyrt.build(pkg, m, v) for k, v in av.fields.items() if v is not None}
        res.evaluations += 1
        res.count('alias_nullable_probes')
        try:
            obj = pkg.cls(d.ns, d.name)(**vals)
            ss.json_compat_obj_encode(pkg.validator(d.ns, d.name), obj)
            res.see('alias_nullable_field_left_out', 'ok')
        except Exception as e:
            res.violation({'kind': 'alias_of_nullable_field_left_unset', 'exc': type(e).__name__},
                          {'error': repr(e)[:200], 'struct': d.name, 'field': hit[0].name},
                          {'case': ci, 'files': case.files})
        break


def wire_rule(sp):
    """Document rule exercised by a shape path."""
    parts = sp.split('>')
    rules = []
    for i, p in enumerate(parts):
        if p.startswith('tag:'):
            rest = p[4:]
            if rest in ('void', 'null'):
                rules.append('union-void-or-null-member')
            elif rest in ('struct', 'child-struct'):
                rules.append('union-struct-member-flattened')
            elif rest == 'nullable':
                continue
            else:
                rules.append('union-member-nested:' + rest.split(':')[0])
        elif p == 'subtype-leaf':
            rules.append('subtype-tag')
        elif p in ('Bytes', 'Timestamp'):
            rules.append(p)
    return '+'.join(rules[:3]) or parts[0]
