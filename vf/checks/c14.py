"""C14 - generated Python client methods send the right route and argument."""
import importlib
import inspect
import random
import warnings

from .. import common
from ..gen import model as gm, render as gr
from ..gen.model import PRIM_FLOATS
from ..gen.values import ValueGen, Uninhabited, SV, UV
from ..mon import pyrt
from . import rtwork

PROPERTY = 'C14'
LEVEL = 'exploration'
RULE = ('generated specs whose routes take struct (inherited, defaulted, nullable, aliased fields), union or Void '
        'arguments, versions 1-3, deprecation with and without successor, upload/download/rpc styles; the '
        'python_client output is imported next to the python_types output, a subclass records request() '
        'calls; for every route version: the method exists under the documented name, inspect.signature shows '
        'the argument struct fields (required positional in all_fields order, optional keywords with the spec '
        'defaults), a call with random valid arguments issues exactly one request with the route object, the '
        'namespace name, an argument equal (AV read-back) to the struct built from the parameters, the upload '
        'body for upload routes, DeprecationWarning for deprecated routes, and returns the request result '
        '(None for Void). distinct = distinct (argument shape, field-kind mix, style, version, deprecation) cells')
ASSUMPTIONS = ['identifiers are identity-stable under the backend case conversion']
REQUIRED_COUNTERS = ['methods_checked', 'calls_made']


def time_limit(tier):
    return common.default_limit(tier)


def budget(tier):
    return dict(specs=400, calls=3) if tier == 'quick' else dict(specs=3000, calls=5)


def profile(ci):
    return rtwork.rt_profile(route_arg_kinds=('struct', 'struct', 'union', 'void', 'alias'),
                             route_result_kinds=('struct', 'union', 'void', 'alias'), route_alias_user_only=True,
                             cfg_style='dropbox' if ci % 3 else None, n_routes=(2, 6), p_default=0.5,
                             p_parent=0.6, p_route_deprecated=0.4, p_cfg=0.0 if ci % 3 else 0.5,
                             p_cfg_union_attr=0.0, p_foreign=0.5, n_ns=(1, 3), p_doc=0.3)


def method_name(r):
    return '%s_%s%s' % (r.ns, r.name.replace('/', '_'), '' if r.version == 1 else '_v%d' % r.version)


def run_shard(tier, seed, idx, n, res, tmp):
    b = budget(tier)
    for ci in common.case_range(idx, b['specs'], n, res):
        cs = common.case_seed(PROPERTY, seed, ci)
        rnd = random.Random(cs)
        m = gm.generate(cs, profile(ci))
        files = gr.render(m, None)
        replay = {'case': ci, 'files': files}
        try:
            pkg = pyrt.Pkg(files, tmp)
        except Exception as e:
            res.skip('python_types_failed:%s' % type(e).__name__)
            continue
        try:
            from stone.frontend.frontend import specs_to_ir
            from stone.compiler import BackendException
            from ..mon import backends as B
            try:
                B.run_backend(specs_to_ir(files), ('python_client', ['-m', 'client_base', '-c', 'ClientBase',
                                                                     '-t', pkg.name]), pkg.dir)
            except BackendException as e:
                res.violation({'kind': 'client_backend_raised', 'last': e.traceback.strip().split('\n')[-1][:80]},
                              {'error': e.traceback[-400:]}, replay)
                continue
            try:
                for ns in m.namespaces:
                    pkg.mod(ns.name)
                cmod = importlib.import_module(pkg.name + '.client_base')
            except Exception as e:
                res.violation({'kind': 'client_import_failed', 'exc': type(e).__name__,
                               'cause': str(e)[:40] if type(e).__name__ != 'NameError' else 'name'},
                              {'error': repr(e)[:300]}, replay)
                continue

            class Recorder(cmod.ClientBase):
                def __init__(self):
                    self.calls = []
                    self.token = object()

                def request(self, route, namespace, request_arg, request_binary, timeout=None):
                    self.calls.append((route, namespace, request_arg, request_binary))
                    return self.token

            vg = ValueGen(m, rnd, max_depth=2)
            for r in m.defs('route'):
                res.evaluations += 1
                res.count('methods_checked')
                name = method_name(r)
                style = (r.attrs.get('style') or (None, None))[1] if 'style' in r.attrs else \
                    next((f.default[1] for f in m.cfg_fields if f.name == 'style' and f.default), None)
                tgt = m.target(r.arg)
                if r.arg.kind == 'prim' and r.arg.name == 'Void':
                    shape = 'void'
                elif tgt is not None and not r.arg.nullable and not m.is_nullable(r.arg):
                    shape = tgt.kind
                else:
                    continue      # outside the property's quantifier
                rp = dict(replay, route=name)
                rec = Recorder()
                meth = getattr(rec, name, None)
                if meth is None:
                    res.violation({'kind': 'method_missing', 'shape': shape}, {'name': name}, rp)
                    continue
                params = list(inspect.signature(meth).parameters.values())
                exp = []
                if style == 'upload':
                    exp.append(('f', inspect.Parameter.empty))
                fields = []
                if shape == 'struct':
                    if tgt.subtypes:
                        pass
                    fields = m.struct_all_fields(tgt)
                    for f in fields:
                        if f.default is not None:
                            exp.append((f.name, ('default', f)))
                        elif m.is_nullable(f.type):
                            exp.append((f.name, None))
                        else:
                            exp.append((f.name, inspect.Parameter.empty))
                elif shape == 'union':
                    exp.append(('arg', inspect.Parameter.empty))
                if [p.name for p in params] != [e[0] for e in exp]:
                    cause = 'other'
                    if sorted(p.name for p in params) == sorted(e[0] for e in exp) and \
                            any(m.is_nullable(f.type) and not f.type.nullable for f in fields):
                        # the client backend sees the API with aliases removed, where a field typed
                        # by an alias of a nullable type has become optional and moved
                        cause = 'alias_of_nullable_field_reordered'
                    res.violation({'kind': 'signature_parameters', 'shape': shape, 'cause': cause},
                                  {'got': [p.name for p in params], 'expected': [e[0] for e in exp]}, rp)
                    continue
                sig_ok = True
                for p, (en, ed) in zip(params, exp):
                    if isinstance(ed, tuple):
                        f = ed[1]
                        k, v = f.default
                        if k == 'tag':
                            u = m.target(f.type)
                            ok = p.default is not inspect.Parameter.empty and \
                                getattr(p.default, '_tag', None) == v and p.default == getattr(pkg.cls(u.ns, u.name), v)
                        else:
                            rt, _ = m.resolve_alias(f.type)
                            ok = p.default is not inspect.Parameter.empty and p.default == v and \
                                isinstance(p.default, bool) == isinstance(v, bool)
                    else:
                        ok = p.default is ed
                    if not ok:
                        sig_ok = False
                        res.violation({'kind': 'signature_default', 'shape': shape},
                                      {'param': en, 'got': repr(p.default)[:80]}, rp)
                if not sig_ok:
                    continue
                mix = '+'.join(sorted({('default' if f.default is not None else
                                        ('nullable' if m.is_nullable(f.type) else 'required')) for f in fields}))
                inh = 'inherited' if shape == 'struct' and tgt.parent else 'flat'
                # calls
                for k in range(b['calls']):
                    body = b'body-%d' % k if style == 'upload' else None
                    args, kwargs, expected_av = [], {}, None
                    if style == 'upload':
                        args.append(body)
                    try:
                        if shape == 'struct':
                            av = vg.struct_value(tgt, 1, exact=True)
                            for f in fields:
                                v = av.fields.get(f.name)
                                if v is None and m.is_nullable(f.type) and not f.type.nullable:
                                    # alias-of-nullable field: must be given (C04 known finding)
                                    v = vg.value(f.type, 2, avoid_null=True)
                                    if v is None:
                                        raise Uninhabited(f.name)
                                    av.fields[f.name] = v
                                optional = f.default is not None or m.is_nullable(f.type)
                                if not optional:
                                    (args.append if rnd.random() < 0.7 and not kwargs else
                                     (lambda x, n=f.name: kwargs.__setitem__(n, x)))(pyrt.build(pkg, m, v))
                                elif v is not None and f.name in av.fields:
                                    kwargs[f.name] = pyrt.build(pkg, m, v)
                            expected_av = av
                        elif shape == 'union':
                            av = vg.union_value(tgt, 1)
                            args.append(pyrt.build(pkg, m, av))
                            expected_av = av
                    except Uninhabited:
                        res.skip('uninhabited_argument')
                        break
                    rec.calls[:] = []
                    with warnings.catch_warnings(record=True) as w:
                        warnings.simplefilter('always')
                        try:
                            ret = meth(*args, **kwargs)
                        except Exception as e:
                            res.violation({'kind': 'call_raised', 'exc': type(e).__name__, 'shape': shape},
                                          {'error': repr(e)[:300], 'args': repr(args)[:200],
                                           'kwargs': repr(kwargs)[:200]}, rp)
                            break
                    res.evaluations += 1
                    res.count('calls_made')
                    problems = []
                    if len(rec.calls) != 1:
                        problems.append(('request_count', len(rec.calls)))
                    else:
                        route_obj, nsname, sent, sent_body = rec.calls[0]
                        exp_route = pkg.mod(r.ns).ROUTES[rtwork.route_key(r)]
                        if route_obj is not exp_route:
                            problems.append(('route_object', repr(route_obj)[:80]))
                        if nsname != r.ns:
                            problems.append(('namespace', nsname))
                        if sent_body != body:
                            problems.append(('body', repr(sent_body)[:60]))
                        if shape == 'void':
                            if sent is not None:
                                problems.append(('argument_for_void', repr(sent)[:60]))
                        else:
                            try:
                                back = pyrt.read(pkg, m, r.arg, sent)
                                d = pyrt.av_eq(pyrt.public_view(m, r.arg, expected_av), back)
                                if d:
                                    problems.append(('argument_value', d))
                            except pyrt.ReadError as e:
                                problems.append(('argument_unreadable', str(e)[:80]))
                    dep = [x for x in w if issubclass(x.category, DeprecationWarning)]
                    if (r.deprecated is not None) != bool(dep):
                        problems.append(('deprecation_warning', len(dep)))
                    result_void = r.result.kind == 'prim' and r.result.name == 'Void'
                    if result_void and ret is not None:
                        problems.append(('return_for_void_result', repr(ret)[:40]))
                    if not result_void and ret is not rec.token:
                        problems.append(('return_value', repr(ret)[:40]))
                    for pk, pd in problems:
                        res.violation({'kind': 'call_' + pk, 'shape': shape, 'style': style or 'none'},
                                      {'detail': pd, 'route': name}, rp)
                    if not problems:
                        res.see(shape, mix or '-', inh, style or 'none', 'v%d' % r.version,
                                'deprecated' if r.deprecated else '-')
                if ci < n:
                    res.sample({'method': name, 'parameters': [p.name for p in params], 'style': style}, cap=4)
        finally:
            pkg.close()
