"""C11 - meaning does not depend on file order, definition order, layout or delivery."""
import os
import random
import shutil

from .. import common
from ..gen import model as gm, render as gr
from ..mon import boundary, backends as B, cli
from ..ref import irexpect

PROPERTY = 'C11'
LEVEL = 'exploration'
RULE = ('each generated model is rendered under the reference layout and under random layouts (file '
        'permutations, definition permutations, splits into 1-6 files per namespace, inline anonymous '
        'definitions, comments / blank lines / trailing spaces at line boundaries, continuation-line and '
        'multi-line-map variants) and delivered once on standard input to stone.cli; the canonical dump of '
        'the Api (paths and line numbers excluded) and every byte (or the raised exception) of all 14 '
        'backend configurations must equal the reference layout\'s. distinct = distinct (layout '
        'transformation x model feature) pairs on which equality was observed')
ASSUMPTIONS = ['one namespace doc per namespace (the documented file-order dependence is not exercised)',
               'a backend that raises must raise the same exception for every layout']
REQUIRED_COUNTERS = ['layouts_compared', 'backend_outputs_compared', 'stdin_compared']


def time_limit(tier):
    return common.default_limit(tier)


def budget(tier):
    return dict(models=32, layouts=6) if tier == 'quick' else dict(models=1200, layouts=14)


def backend_outcomes(api_files, tmp, tag):
    from stone.frontend.frontend import specs_to_ir
    from stone.compiler import BackendException
    out = {}
    for cfg in B.ORDER:
        api = specs_to_ir(api_files)
        d = os.path.join(tmp, 'o_%s_%s' % (tag, cfg))
        try:
            B.run_backend(api, cfg, d)
            out[cfg] = ('files', B.read_tree(d))
        except BackendException as e:
            out[cfg] = ('raised', e.traceback.strip().split('\n')[-1][:200])
        finally:
            shutil.rmtree(d, ignore_errors=True)
    return out


def run_shard(tier, seed, idx, n, res, tmp):
    b = budget(tier)
    for ci in common.case_range(idx, b['models'], n, res):
        cs = common.case_seed(PROPERTY, seed, ci)
        rnd = random.Random(cs)
        prof = gm.make_profile(cfg_style='dropbox' if ci % 2 else None, p_keyword_doc=0.08, p_multi_ns_doc=0.25,
                               route_arg_kinds=('struct', 'union', 'void', 'alias') if ci % 3 else
                               gm.DEFAULT_PROFILE['route_arg_kinds'])
        m = gm.generate(cs, prof)
        ref_files = gr.render(m, None)
        klass, api = boundary.compile_outcome(ref_files)
        if klass != 'api':
            res.violation({'kind': 'valid_not_accepted', 'class': klass}, {'error': repr(api)[:300]},
                          {'files': ref_files})
            continue
        ref_dump = irexpect.observe(api)
        ref_out = backend_outcomes(ref_files, tmp, 'ref')
        feats = list(m.features)
        for li in range(b['layouts']):
            lay = gr.Layout(cs + 1 + li)
            files = gr.render(m, lay)
            trace = sorted(set(lay.trace))
            replay = {'case': ci, 'layout': li, 'files': files, 'ref_files': ref_files}
            klass, api2 = boundary.compile_outcome(files)
            res.evaluations += 1
            if klass != 'api':
                res.violation({'kind': 'layout_refused', 'class': klass,
                               'message': _msg_class(getattr(api2, 'msg', repr(api2)))},
                              {'error': repr(api2)[:300], 'trace': trace}, replay)
                continue
            res.count('layouts_compared')
            diffs = list(irexpect.diff(ref_dump, irexpect.observe(api2)))
            seen = set()
            for path, e, g in diffs:
                cell = irexpect.cell_of(path)
                if cell not in seen:
                    seen.add(cell)
                    res.violation({'kind': 'api_differs', 'cell': cell},
                                  {'path': [str(p) for p in path], 'ref': e, 'variant': g, 'trace': trace},
                                  replay)
            out = backend_outcomes(files, tmp, 'v%d' % li)
            for cfg in B.ORDER:
                res.count('backend_outputs_compared')
                a, bb = ref_out[cfg], out[cfg]
                if a[0] != bb[0]:
                    res.violation({'kind': 'backend_outcome_differs', 'backend': cfg},
                                  {'ref': a[0] if a[0] == 'files' else a[1],
                                   'variant': bb[0] if bb[0] == 'files' else bb[1], 'trace': trace}, replay)
                elif a[0] == 'raised':
                    res.count('backend_raised_both')
                    if a[1] != bb[1]:
                        res.violation({'kind': 'backend_exception_differs', 'backend': cfg},
                                      {'ref': a[1], 'variant': bb[1]}, replay)
                elif a[1] != bb[1]:
                    names = sorted(set(a[1]) ^ set(bb[1])) or \
                        sorted(k for k in a[1] if a[1][k] != bb[1].get(k))
                    res.violation({'kind': 'backend_bytes_differ', 'backend': cfg},
                                  {'files': names[:5], 'trace': trace,
                                   'first_diff': _first_diff(a[1], bb[1], names)}, replay)
            if not diffs:
                for t in trace:
                    for f in feats:
                        res.see(t.split('_')[0] if t.startswith('split') else t, f)
            if ci < n and li == 0:
                res.sample({'case': ci, 'layout_trace': trace, 'files': [p for p, _ in files],
                            'api_differences': len(diffs)}, cap=3)
        # delivery on standard input (reference order, one text); half of the
        # cases carry the word "namespace" inside a doc string and an identifier
        if ci % 2 == 0:
            import copy
            from ..gen.model import Doc, FieldDef, prim
            m2 = copy.deepcopy(m)
            hosts = [d for d in m2.defs() if d.kind in ('struct', 'union')]
            if hosts:
                h = rnd.choice(hosts)
                line = 'the namespace of this item, see namespace docs d0'
                if h.doc is None:
                    h.doc = Doc([[line]])
                else:
                    h.doc.paras[0].insert(0, line)
                if h.kind == 'struct' and not h.subtypes:
                    h.fields.append(FieldDef(name='namespace_id0', type=prim('String', nullable=True),
                                             default=None, doc=None, anns=[]))
                ref_files = gr.render(m2, None)
                klass, api = boundary.compile_outcome(ref_files)
                if klass != 'api':
                    res.inconclusive.append('namespace-word variant refused: %r' % (api,))
                    continue
                ref_dump = irexpect.observe(api)
                res.count('stdin_with_namespace_word')
        text = '\n'.join(t if t.endswith('\n') else t + '\n' for _, t in ref_files)
        r = cli.run_main([cli.DUMP_BACKEND, os.path.join(tmp, 'stdin_out'), '-a', ':all'], stdin_text=text)
        shutil.rmtree(os.path.join(tmp, 'stdin_out'), ignore_errors=True)
        res.evaluations += 1
        if r.received is None:
            res.violation({'kind': 'stdin_refused', 'code': r.code},
                          {'stderr': r.stderr[-400:], 'exc': repr(r.exc)}, {'stdin': text})
        else:
            res.count('stdin_compared')
            d2 = irexpect.observe(r.received)
            seen = set()
            for path, e, g in irexpect.diff(ref_dump, d2):
                cell = irexpect.cell_of(path)
                if cell not in seen:
                    seen.add(cell)
                    res.violation({'kind': 'stdin_api_differs', 'cell': cell},
                                  {'path': [str(p) for p in path], 'files': e, 'stdin': g},
                                  {'stdin': text, 'ref_files': ref_files})
            res.see('stdin', len(ref_files))


def _first_diff(a, b, names):
    for nm in names:
        x, y = a.get(nm), b.get(nm)
        if x is None or y is None:
            return {'file': nm, 'only_in': 'ref' if y is None else 'variant'}
        xs, ys = x.split(b'\n'), y.split(b'\n')
        for i, (p, q) in enumerate(zip(xs, ys)):
            if p != q:
                return {'file': nm, 'line': i + 1, 'ref': p.decode('utf-8', 'replace')[:200],
                        'variant': q.decode('utf-8', 'replace')[:200]}
        return {'file': nm, 'len': (len(xs), len(ys))}
    return None


def _msg_class(msg):
    import re
    return re.sub(r"'[^']*'|\"[^\"]*\"|\d+", '_', str(msg))[:80]


def replay(payload):
    common.use_repo()
    for key in ('ref_files', 'files'):
        if key in payload:
            klass, p = boundary.compile_outcome([tuple(x) for x in payload[key]])
            print(key, klass, repr(p)[:300])
