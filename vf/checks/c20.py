"""C20 - a route whitelist yields a dependency-closed, minimal API."""
import json
import os
import random
import subprocess

from .. import common
from ..gen import model as gm, render as gr
from ..mon import boundary, pyrt
from ..ref import closure
from . import c02inv, rtwork

PROPERTY = 'C20'
LEVEL = 'exploration'
RULE = ('generated multi-namespace specs (doc references across namespaces, aliases in and out of reach, '
        'enumerated subtypes, tag defaults) x random whitelists (subsets of routes incl. versions and `*`, '
        'subsets of data types) compiled with the real specs_to_ir(route_whitelist_filter=...). Oracle: a '
        'reference closure on the model in a minimal and a maximal reading (violation iff minimal is not '
        'retained or something retained is outside maximal), no dangling reference from any retained field, '
        'parent, subtype list, alias target or route signature (closure invariants with registration checks), '
        'and the python_types output of the filtered Api imports in a fresh interpreter. distinct = distinct '
        '(edge kind that decided retention, seed kind) cells')
ASSUMPTIONS = ['between the minimal and the maximal closure nothing is judged (statement ambiguous there)']
REQUIRED_COUNTERS = ['whitelists_checked', 'filtered_imports']


def time_limit(tier):
    return common.default_limit(tier)


def budget(tier):
    return dict(specs=96, whitelists=6, imports=1) if tier == 'quick' else dict(specs=2000, whitelists=10, imports=2)


def profile():
    return rtwork.rt_profile(n_ns=(2, 4), p_doc=0.6, p_doc_ref=0.8, p_foreign=0.6, p_alias=0.3, n_routes=(1, 5),
                             p_ns_doc=0.5, p_cfg_union_attr=0.0, p_annotations=0.3, p_custom_ann=0.2,
                             p_three_part_field_ref=0.5, p_alias_field_ref=0.5,
                             p_route_container_result=0.25, p_shared_route_name=0.2)


def random_whitelist(m, rnd):
    wl = {'route_whitelist': {}, 'datatype_whitelist': {}}
    for ns in m.namespaces:
        rs = [d for d in ns.defs if d.kind == 'route']
        if rs and rnd.random() < 0.6:
            if rnd.random() < 0.25:
                wl['route_whitelist'][ns.name] = ['*']
            else:
                pick = rnd.sample(rs, rnd.randint(1, len(rs)))
                wl['route_whitelist'][ns.name] = [r.name if r.version == 1 else '%s:%d' % (r.name, r.version)
                                                  for r in pick]
        ts = [d for d in ns.defs if d.kind in ('struct', 'union')]
        if ts and rnd.random() < 0.3:
            wl['datatype_whitelist'][ns.name] = [d.name for d in rnd.sample(ts, rnd.randint(1, min(2, len(ts))))]
    if not wl['route_whitelist'] and not wl['datatype_whitelist']:
        ns = rnd.choice(m.namespaces)
        ts = [d for d in ns.defs if d.kind in ('struct', 'union')]
        if ts:
            wl['datatype_whitelist'][ns.name] = [rnd.choice(ts).name]
    return wl


def run_shard(tier, seed, idx, n, res, tmp):
    b = budget(tier)
    for ci in common.case_range(idx, b['specs'], n, res):
        cs = common.case_seed(PROPERTY, seed, ci)
        rnd = random.Random(cs)
        m = gm.generate(cs, profile())
        files = gr.render(m, None)
        for wi in range(b['whitelists']):
            wl = random_whitelist(m, rnd)
            replay = {'case': ci, 'whitelist': wl, 'files': files}
            klass, api = boundary.compile_outcome(files, route_whitelist_filter=wl)
            res.evaluations += 1
            res.count('whitelists_checked')
            if klass != 'api':
                sig = {'kind': 'whitelist_compile_failed', 'class': klass}
                if klass == 'escape':
                    sig.update(boundary.escape_signature(api))
                    sig['kind'] = 'whitelist_compile_failed'
                res.violation(sig, {'error': repr(api)[:300]}, replay)
                continue
            cmin, cmax = closure.closures(m, wl)
            kept_types = {(nsn, t.name) for nsn, ns_ in api.namespaces.items() for t in ns_.data_types}
            kept_routes = {(nsn, r.name, r.version) for nsn, ns_ in api.namespaces.items() for r in ns_.routes}
            missing_t = cmin.types - kept_types
            missing_r = cmin.routes - kept_routes
            extra_t = kept_types - cmax.types
            extra_r = kept_routes - cmax.routes
            if missing_t:
                res.violation({'kind': 'needed_type_missing'}, {'missing': sorted(missing_t)[:5]}, replay)
            if missing_r:
                res.violation({'kind': 'needed_route_missing'}, {'missing': sorted(missing_r)[:5]}, replay)
            if extra_t:
                res.violation({'kind': 'type_outside_closure_retained'}, {'extra': sorted(extra_t)[:5]}, replay)
            if extra_r:
                res.violation({'kind': 'route_outside_closure_retained'}, {'extra': sorted(extra_r)[:5]}, replay)
            for bad in c02inv.check_api_invariants(api, filtered=True):
                res.violation({'kind': 'filtered_api_invariant', 'which': bad[0]}, bad[1], replay)
            seeds = ('routes' if wl['route_whitelist'] else '') + ('+types' if wl['datatype_whitelist'] else '')
            if not (missing_t or missing_r or extra_t or extra_r):
                for e in cmin.edges:
                    res.see(e, seeds)
                res.see('gap', len(cmax.types - cmin.types) > 0)
            # code generated from the filtered API loads
            if wi < b['imports']:
                try:
                    pkg = pyrt.Pkg(files, tmp, whitelist=wl)
                except Exception as e:
                    tb = getattr(e, 'traceback', '') or repr(e)
                    res.violation({'kind': 'filtered_backend_raised', 'last': tb.strip().split('\n')[-1][:80]},
                                  {'error': tb[-400:]}, replay)
                    continue
                try:
                    names = [nsn for nsn in api.namespaces]
                    r = subprocess.run([common.PY, '-m', 'vf.checks.c09_child', pkg.root, pkg.name] + names,
                                       env=common.child_env(), cwd=common.VERIF, capture_output=True,
                                       text=True, timeout=300)
                    res.count('filtered_imports')
                    if r.returncode != 0:
                        res.inconclusive.append('import child failed: %s' % r.stderr[-200:])
                    else:
                        desc = json.loads(r.stdout.strip().split('\n')[-1])
                        if desc['import_error']:
                            ie = desc['import_error']
                            res.violation({'kind': 'filtered_module_import_failed', 'exc': ie['exc']},
                                          ie, replay)
                        else:
                            res.see('filtered_import_ok', len(kept_types) > 0)
                finally:
                    pkg.close()
            if ci < n and wi == 0:
                res.sample({'whitelist': wl, 'retained_types': len(kept_types), 'minimal': len(cmin.types),
                            'maximal': len(cmax.types), 'all_types': len(list(m.defs('struct'))) +
                            len(list(m.defs('union')))}, cap=4)
