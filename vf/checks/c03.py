"""C03 - compilation of arbitrary text ends in an API description or a spec error."""
import itertools
import os
import random
import re
import subprocess

from .. import common
from ..gen import model as gm, render as gr, mutate as mu
from ..mon import boundary, coverage
from . import c02inv

PROPERTY = 'C03'
LEVEL = 'exploration'
RULE = ('valid generated specs under 1-3 token-level edits (own tokenizer), all strings over a '
        'structural token alphabet after a namespace header (exhaustive to the tier bound), the '
        'literal blocks of docs/lang_ref.rst alone / with header / pairwise, and a sample of refused '
        'inputs through `python -m stone.cli`; oracle: outcome class at specs_to_ir '
        '(api | InvalidSpec with non-empty message and input path | escape). distinct = distinct '
        '(outcome class, exception type, raising function) triples observed via sys.monitoring RAISE '
        'plus distinct edit kinds applied')
RULE += ' ' + 'The edits include argument lists mixing positional and keyword arguments and definitions named like imported namespaces; five special inputs (not UTF-8, UTF-16, wrong extension, missing file, NUL bytes) go through the command line.'
ASSUMPTIONS = ['inputs bounded as in the quantifier; RecursionError from unbounded size is out of scope',
               'the exhaustive workload re-uses one ParserFactory through get_parser(); every 50th '
               'string is cross-checked against a pristine specs_to_ir and a disagreement is inconclusive']
REQUIRED_COUNTERS = ['mutant_compiles', 'enum_compiles', 'snippet_compiles']


def time_limit(tier):
    return common.default_limit(tier)


def budget(tier):
    if tier == 'quick':
        return dict(models=260, mutants_per=16, a1_len=4, a2_len=2, cli=12)
    return dict(models=9000, mutants_per=16, a1_len=6, a2_len=3, cli=150)


def judge(res, klass, payload, files, what, replay):
    paths = [p for p, _ in files]
    if klass == 'api':
        res.see('api', what)
        bad = c02inv.check_api_invariants(payload)
        res.count('c02_invariant_evals')
        for b in bad:
            res.violation({'kind': 'ir_invariant', 'which': b[0]}, b[1], replay)
        return 'api'
    if klass == 'invalid_spec':
        probs = boundary.check_invalid_spec(payload, paths)
        res.count('invalid_spec')
        for pr in probs:
            res.violation({'kind': 'bad_spec_error', 'problem': pr},
                          {'error': repr(payload)}, replay)
        return 'invalid_spec'
    if klass == 'watchdog':
        res.inconclusive.append('watchdog fired in %s after %.1fs' % (what, payload))
        return 'watchdog'
    sig = boundary.escape_signature(payload)
    res.count('escapes')
    res.violation(sig, {'error': repr(payload)[:300], 'what': what}, replay)
    return 'escape'


def snippets():
    path = os.path.join(common.REPO, 'docs', 'lang_ref.rst')
    lines = open(path, encoding='utf-8').read().split('\n')
    blocks, cur = [], None
    for ln in lines:
        if cur is None:
            if ln.rstrip().endswith('::'):
                cur = []
        else:
            if ln.startswith('    ') or not ln.strip():
                cur.append(ln[4:] if ln.startswith('    ') else '')
            else:
                txt = '\n'.join(cur).strip('\n')
                if txt.strip():
                    blocks.append(txt + '\n')
                cur = [] if ln.rstrip().endswith('::') else None
    return blocks


def run_cli(files, tmp, n):
    d = os.path.join(tmp, 'cli%d' % n)
    os.makedirs(d, exist_ok=True)
    paths = []
    for p, t in files:
        fp = os.path.join(d, os.path.basename(p))
        with open(fp, 'w', encoding='utf-8', newline='') as f:
            f.write(t)
        paths.append(fp)
    r = subprocess.run([common.PY, '-m', 'stone.cli', 'python_types', os.path.join(d, 'out')] + paths +
                       ['--', '-p', 'x'], env=common.child_env(), capture_output=True, text=True,
                       timeout=120, cwd=d)
    return r, paths


def run_shard(tier, seed, idx, n, res, tmp):
    b = budget(tier)
    obs = coverage.RaiseObserver()
    obs.start()
    refused = []
    try:
        # (1) token-level mutants of valid renderings
        prev_text = 'namespace q\nstruct S\n    f String\n'
        for ci in common.case_range(idx, b['models'], n, res):
            cs = common.case_seed(PROPERTY, seed, ci)
            rnd = random.Random(cs)
            m = gm.generate(cs, gm.make_profile(p_cfg_ts_bytes_attr=0.3))
            files = gr.render(m, gr.Layout(cs) if rnd.random() < 0.5 else None)
            for mi in range(b['mutants_per']):
                fi = rnd.randrange(len(files))
                text = files[fi][1]
                edits = []
                for _ in range(rnd.choice([1, 1, 2, 3])):
                    text, e = mu.mutate(text, rnd, prev_text)
                    edits.append(e)
                mfiles = list(files)
                mfiles[fi] = (files[fi][0], text)
                if rnd.random() < 0.15:
                    mfiles = [mfiles[fi]]
                replay = {'workload': 'mutant', 'files': mfiles}
                klass, payload = boundary.compile_outcome(mfiles)
                res.evaluations += 1
                res.count('mutant_compiles')
                for e in edits:
                    res.see('edit', e)
                out = judge(res, klass, payload, mfiles, 'mutant', replay)
                res.count('mutant_' + out)
                if out == 'invalid_spec' and len(refused) < b['cli'] * 4:
                    # the CLI reads files with universal newlines, so a text holding a
                    # carriage return is not the text the in-process compile refused
                    if not any('\r' in t for _, t in mfiles):
                        refused.append(mfiles)
                if mi == 0 and ci < 3 * n:
                    res.sample({'workload': 'mutant', 'edits': edits, 'outcome': out,
                                'error': repr(payload)[:160] if out != 'api' else None,
                                'text_head': text[:200]})
            prev_text = files[0][1]
        # (2) exhaustive short token strings after a header
        k = 0
        for alpha, name, maxlen in ((mu.A1, 'A1', b['a1_len']), (mu.A2, 'A2', b['a2_len'])):
            for L in range(1, maxlen + 1):
                for seq in itertools.product(alpha, repeat=L):
                    k += 1
                    if k % n != idx:
                        continue
                    if (k // n) % 2048 == 0 and common.out_of_time(0.8):
                        res.count('enum_cut_by_soft_deadline')
                        break
                    text = 'namespace x\n' + mu.join_tokens(seq)
                    files = [('x.stone', text)]
                    klass, payload = boundary.compile_outcome(files, fast=True)
                    res.evaluations += 1
                    res.count('enum_compiles')
                    out = judge(res, klass, payload, files, 'enum_' + name,
                                {'workload': 'enum', 'files': files})
                    res.count('enum_' + out)
                    if (k // n) % 50 == 0:
                        k2, p2 = boundary.compile_outcome(files)
                        res.count('enum_crosschecks')
                        same = (k2 == klass) and (k2 != 'escape' or type(p2) is type(payload)) and \
                            (k2 != 'invalid_spec' or p2.msg == payload.msg)
                        if not same:
                            res.inconclusive.append('fast/pristine disagreement on %r' % text)
        # (3) language-reference snippets
        blocks = snippets()
        combos = []
        for i, bl in enumerate(blocks):
            combos.append([('s%d.stone' % i, bl)])
            if not bl.lstrip().startswith('namespace'):
                combos.append([('s%d.stone' % i, 'namespace snip\n\n' + bl)])
        for i, j in itertools.combinations(range(len(blocks)), 2):
            combos.append([('s%d.stone' % i, blocks[i]), ('s%d.stone' % j, blocks[j])])
            combos.append([('p.stone', 'namespace snip\n\n' + blocks[i] + '\n' + blocks[j])])
        for ci, files in enumerate(combos):
            if ci % n != idx:
                continue
            klass, payload = boundary.compile_outcome(files)
            res.evaluations += 1
            res.count('snippet_compiles')
            out = judge(res, klass, payload, files, 'snippet', {'workload': 'snippet', 'files': files})
            res.count('snippet_' + out)
        # (4) CLI sample of refused inputs
        rnd = random.Random(common.case_seed(PROPERTY, seed, idx, 'cli'))
        rnd.shuffle(refused)
        share = max(1, b['cli'] // n)
        for ci, files in enumerate(refused[:share]):
            try:
                r, paths = run_cli(files, tmp, ci)
            except subprocess.TimeoutExpired:
                res.inconclusive.append('cli timeout')
                continue
            res.evaluations += 1
            res.count('cli_runs')
            first = (r.stderr.strip().split('\n') or [''])[0]
            ok_line = re.match(r'^(.+|None):(\d+|None): error: .+', first) is not None
            names = [p for p in paths] + ['None']
            ok_path = any(first.startswith(p + ':') for p in names)
            if r.returncode != 1 or not ok_line or not ok_path or 'Traceback' in r.stderr:
                res.violation({'kind': 'cli_bad_answer', 'returncode': r.returncode,
                               'traceback': 'Traceback' in r.stderr},
                              {'stderr': r.stderr[-600:]}, {'workload': 'cli', 'files': files})
            res.see('cli', r.returncode, ok_line)
        # (5) inputs the command line must refuse before or while reading them: each must be answered
        # on stderr with an 'error:' line, exit status 1 and no traceback
        if idx == 0:
            d = os.path.join(tmp, 'cli_special')
            os.makedirs(d, exist_ok=True)
            good = os.path.join(d, 'good.stone')
            with open(good, 'w') as f:
                f.write('namespace good\n\nstruct S\n    f String\n')
            specials = {
                'not_utf8': (b'namespace x\n\nstruct S\n    "caf\xe9 \xff\xfe"\n    f String\n', 'bad.stone'),
                'utf16_bom': ('namespace x\n'.encode('utf-16'), 'bom.stone'),
                'wrong_extension': (b'namespace x\n', 'spec.txt'),
                'missing_file': (None, 'nowhere.stone'),
                'nul_bytes': (b'namespace x\n\x00\x00struct S\n    f String\n', 'nul.stone'),
            }
            for name, (data, fn) in specials.items():
                pth = os.path.join(d, fn)
                if data is not None:
                    with open(pth, 'wb') as f:
                        f.write(data)
                for order in ([pth], [good, pth]):
                    try:
                        r = subprocess.run([common.PY, '-m', 'stone.cli', 'python_types', os.path.join(d, 'out'), *order,
                                            '--', '-p', 'x'], env=common.child_env(), capture_output=True,
                                           text=True, timeout=120, cwd=d)
                    except subprocess.TimeoutExpired:
                        res.inconclusive.append('cli timeout on special input %s' % name)
                        continue
                    res.evaluations += 1
                    res.count('cli_special_inputs')
                    ok = r.returncode == 1 and 'error' in r.stderr and 'Traceback' not in r.stderr
                    if not ok:
                        res.violation({'kind': 'cli_bad_answer', 'returncode': r.returncode,
                                       'traceback': 'Traceback' in r.stderr, 'input': name},
                                      {'stderr': r.stderr[-500:]}, {'workload': 'cli_special', 'input': name})
                    res.see('cli_special', name, r.returncode)
    finally:
        obs.stop()
    for (et, f, fn), c in obs.origins.items():
        res.see('raise', et, f, fn)
        res.count('raise_sites_%s' % et, 0)
    res.count('stone_functions_reached', 0)
    res.counters['raise_origin_events'] = sum(obs.origins.values())
    res.counters.setdefault('functions_reached_max', 0)
    res.counters['functions_reached_max'] = len(obs.functions)


def post(merged, tier, seed):
    raises = sorted(x for x in merged.distinct if x.startswith('raise|'))
    return {'raise_sites_observed': raises,
            'invalid_spec_sites': len([x for x in raises if x.startswith('raise|InvalidSpec')])}


def replay(payload):
    common.use_repo()
    files = [tuple(x) for x in payload['files']]
    klass, p = boundary.compile_outcome(files)
    print(klass, repr(p)[:500])
    return klass
