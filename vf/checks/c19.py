"""C19 - backends see exactly the routes and attributes the command line selects."""
import itertools
import os
import random
import shutil

from .. import common
from ..gen import model as gm, render as gr, mutate as mu
from ..mon import cli
from ..ref import filterexpr as fx
from . import c02inv

PROPERTY = 'C19'
LEVEL = 'exploration'
RULE = ('(1) random filter expressions (depth <=4, and/or, =/!=, parentheses, same-kind literals and null over '
        'String/Boolean/Int/Float/nullable attributes and attributes absent from the schema) rendered from a '
        'tree, parsed by the real parse_route_attr_filter and evaluated on synthetic routes for all truth '
        'assignments of their atoms, against the tree\'s own boolean evaluation; (2) the same expressions, '
        'all subsets of namespaces for -w / -b and of attributes for -a (incl. :all) through stone.cli.main '
        'with a dump backend on generated multi-namespace specs: surviving routes, visible attributes, '
        'trimmed schema, retained types and by-name tables are compared with the model; (3) malformed '
        'expressions (token-level edits), unknown namespaces and unknown attributes must end in exit 1 with '
        'an error. distinct = distinct (expression shape, assignment) pairs + distinct option combinations')
RULE += ' ' + "String literals carry escapes; malformed expressions include a fixed list judged without the repository's parser (the empty expression included); route names are shared between namespaces."
ASSUMPTIONS = ['comparisons across literal kinds (e.g. true = 1) are unspecified and not generated']
REQUIRED_COUNTERS = ['truth_assignments', 'cli_runs', 'malformed_checked']


def time_limit(tier):
    return common.default_limit(tier)


def budget(tier):
    return dict(exprs=1600, specs=48, cli_exprs=6) if tier == 'quick' else dict(exprs=20000, specs=400, cli_exprs=12)


class FakeRoute:
    def __init__(self, attrs):
        self.attrs = attrs


def profile():
    return gm.make_profile(p_cfg=1.0, n_ns=(2, 4), n_routes=(1, 5), p_cfg_union_attr=0.2, p_examples=0.1,
                           p_doc=0.2, p_shared_route_name=0.4)


LIT_POOL = {
    'String': ['', 'a', 'abc', 'x y', 'user', 'C:\\temp', 'C:\\new', 'q"uote', 'tab\there', 'nl\nx', 'two\\\\back',
               'end\\', '\\', 'a\\"b'],
    'Boolean': [True, False],
    'Int': [0, 1, -1, 42, 7],
    'Float': [0.0, 0.5, -1.5, 2.25, 1e10],
}


# literals of a kind other than the attribute's whose Python value would compare equal untyped
CROSS_KIND = {
    'Boolean': [0, 1, 0.0, 1.0, 'true', ''],
    'Int': [True, False, '1', '0'],
    'Float': [True, False, '0.5'],
    'String': [0, 1, True, False],
}


def attr_kind(f):
    n = f.type.name if f.type.kind == 'prim' else None
    if n == 'String':
        return 'String'
    if n == 'Boolean':
        return 'Boolean'
    if n in gm.PRIM_INTS:
        return 'Int'
    if n in gm.PRIM_FLOATS:
        return 'Float'
    return None


def route_attr_values(m, r):
    """Attribute values of a route as the filter sees them (schema defaults filled, absent = null)."""
    out = {}
    for f in m.cfg_fields:
        if f.name in r.attrs and r.attrs[f.name] != ('null',):
            v = r.attrs[f.name]
            out[f.name] = ('TAG', v[1]) if v[0] == 'tag' else v[1]
        elif f.default is not None:
            k, v = f.default
            out[f.name] = ('TAG', v) if k == 'tag' else (float(v) if attr_kind(f) == 'Float' else v)
        else:
            out[f.name] = None
    return out


def run_shard(tier, seed, idx, n, res, tmp):
    from stone.cli_helpers import parse_route_attr_filter
    b = budget(tier)
    # (1) expressions x all truth assignments, through the real parser/evaluator
    for ei in common.case_range(idx, b['exprs'], n, res):
        rnd = random.Random(common.case_seed(PROPERTY, seed, ei, 'expr'))
        k = rnd.randint(1, 6)
        names = ['attr_%d' % i for i in range(k)]
        kinds = [rnd.choice(list(LIT_POOL)) for _ in names]

        def atom():
            i = rnd.randrange(k)
            lit = rnd.choice(LIT_POOL[kinds[i]] + [None])
            if rnd.random() < 0.2:
                # a literal of another kind: literals are typed, so true never equals 1 and "1" never equals 1
                lit = rnd.choice(CROSS_KIND[kinds[i]])
            return fx.Pred(names[i], rnd.choice(['=', '!=']), lit)
        tree = fx.random_expr(rnd, atom, rnd.randint(0, 4))
        text = fx.render(tree, rnd)
        replay = {'workload': 'truth', 'expr': text}
        try:
            parsed, errors = parse_route_attr_filter(text)
        except Exception as e:
            res.violation({'kind': 'filter_parse_raised', 'exc': type(e).__name__},
                          {'expr': text, 'error': repr(e)[:200]}, replay)
            continue
        if errors or parsed is None:
            res.violation({'kind': 'valid_expression_refused'}, {'expr': text, 'errors': errors}, replay)
            continue
        ats = fx.atoms(tree)
        # all assignments: each attribute takes each literal it is compared with, another value, or null
        domains = []
        for i, nm in enumerate(names):
            lits = {a.lit for a in ats if a.attr == nm}
            other = [x for x in LIT_POOL[kinds[i]] if x not in lits][:1]
            domains.append(list(lits | set(other) | {None}))
        combos = list(itertools.product(*domains))
        if len(combos) > 64:
            combos = rnd.sample(combos, 64)
        for combo in combos:
            attrs = {nm: v for nm, v in zip(names, combo) if not (v is None and rnd.random() < 0.5)}
            res.evaluations += 1
            res.count('truth_assignments')
            exp = fx.evaluate(tree, attrs)
            try:
                got = bool(parsed.eval(FakeRoute(dict(attrs))))
            except Exception as e:
                res.violation({'kind': 'filter_eval_raised', 'exc': type(e).__name__},
                              {'expr': text, 'attrs': attrs}, replay)
                break
            if got != exp:
                res.violation({'kind': 'filter_truth_differs', 'shape': fx.shape(tree)[:40]},
                              {'expr': text, 'attrs': attrs, 'expected': exp, 'got': got}, replay)
                break
            res.see('shape', fx.shape(tree)[:60], exp)
        if ei < n:
            res.sample({'expr': text, 'atoms': len(ats), 'assignments': len(combos)}, cap=3)
    # (2)+(3) through the command line
    for ci in common.case_range(idx, b['specs'], n, res):
        cs = common.case_seed(PROPERTY, seed, ci)
        rnd = random.Random(cs)
        m = gm.generate(cs, profile())
        files = gr.render(m, None)
        d = os.path.join(tmp, 'cli%d' % ci)
        paths = cli.write_specs(files, d)
        out = os.path.join(d, 'out')
        routes = list(m.defs('route'))
        nsnames = [x.name for x in m.namespaces]
        attr_names = [f.name for f in m.cfg_fields]
        usable = [f for f in m.cfg_fields if attr_kind(f)]

        def run(extra):
            r = cli.run_main([cli.DUMP_BACKEND, out] + paths + extra)
            shutil.rmtree(out, ignore_errors=True)
            res.evaluations += 1
            res.count('cli_runs')
            return r

        def check_api(r, exp_routes, exp_attrs, what, replay):
            """exp_routes: set of (ns, name, version); exp_attrs: set of visible attribute names."""
            if r.received is None:
                res.violation({'kind': 'cli_failed', 'what': what, 'code': r.code},
                              {'stderr': r.stderr[-300:], 'exc': repr(r.exc)}, replay)
                return
            api = r.received
            got = {(nsn, x.name, x.version) for nsn, ns_ in api.namespaces.items() for x in ns_.routes}
            if got != exp_routes:
                res.violation({'kind': 'visible_routes_differ', 'what': what},
                              {'missing': sorted(exp_routes - got)[:5], 'extra': sorted(got - exp_routes)[:5]},
                              replay)
            for nsn, ns_ in api.namespaces.items():
                md = m.ns(nsn)
                exp_types = {x.name for x in md.defs if x.kind in ('struct', 'union')}
                if {t.name for t in ns_.data_types} != exp_types:
                    res.violation({'kind': 'types_lost', 'what': what}, {'ns': nsn}, replay)
                for x in ns_.routes:
                    if set(x.attrs) != exp_attrs:
                        res.violation({'kind': 'visible_attributes_differ', 'what': what},
                                      {'route': x.name, 'got': sorted(x.attrs), 'expected': sorted(exp_attrs)},
                                      replay)
                        break
            if {f.name for f in api.route_schema.fields} != exp_attrs:
                res.violation({'kind': 'schema_attributes_differ', 'what': what},
                              {'got': sorted(f.name for f in api.route_schema.fields),
                               'expected': sorted(exp_attrs)}, replay)
            if set(api.route_schema._fields_by_name) != exp_attrs:
                res.violation({'kind': 'schema_by_name_table_differs', 'what': what}, {}, replay)
            for bad in c02inv.check_api_invariants(api, filtered=True):
                if bad[0] != 'dangling_type':
                    res.violation({'kind': 'by_name_tables', 'which': bad[0], 'what': what}, bad[1], replay)

        all_routes = {(r_.ns, r_.name, r_.version) for r_ in routes}
        # filter expressions on real routes
        for k in range(b['cli_exprs']):
            if not usable:
                break

            def atom():
                f = rnd.choice(usable + [None])
                if f is None:
                    return fx.Pred('no_such_attr', rnd.choice(['=', '!=']), rnd.choice([None, 1, 'a']))
                vals = [route_attr_values(m, r_)[f.name] for r_ in routes]
                pool = [v for v in vals if v is not None] + LIT_POOL[attr_kind(f)]
                if attr_kind(f) == 'Float':
                    pool = [float(v) for v in pool]
                lit = rnd.choice(pool + [None])
                if rnd.random() < 0.2:
                    lit = rnd.choice(CROSS_KIND[attr_kind(f)])
                return fx.Pred(f.name, rnd.choice(['=', '!=']), lit)
            tree = fx.random_expr(rnd, atom, rnd.randint(0, 3))
            text = fx.render(tree, rnd)
            replay = {'workload': 'cli_filter', 'expr': text, 'files': files}
            exp = {(r_.ns, r_.name, r_.version) for r_ in routes
                   if fx.evaluate(tree, {k_: v for k_, v in route_attr_values(m, r_).items()
                                         if not isinstance(v, tuple)})}
            r = run(['-f', text, '-a', ':all'])
            check_api(r, exp, set(attr_names), 'filter', replay)
            res.see('cli_filter', fx.shape(tree)[:40], len(exp) * 10 // max(1, len(all_routes)))
            # malformed variants
            for _ in range(2):
                bad_text, edit = mu.mutate(text, rnd)
                if not bad_text.strip() or bad_text.startswith('-'):
                    continue      # no expression at all / an option: not a malformed expression
                res.count('malformed_checked')
                r2 = run(['-f', bad_text, '-a', ':all'])
                from stone.cli_helpers import parse_route_attr_filter as prf
                try:
                    p2, e2 = prf(bad_text)
                except Exception as e:
                    res.violation({'kind': 'filter_parse_raised', 'exc': type(e).__name__},
                                  {'expr': bad_text}, {'workload': 'malformed', 'expr': bad_text})
                    continue
                if e2 or p2 is None:
                    if not (r2.code == 1 and r2.received is None and 'rror' in r2.stderr):
                        res.violation({'kind': 'malformed_filter_not_reported', 'code': r2.code},
                                      {'expr': bad_text, 'stderr': r2.stderr[-200:], 'exc': repr(r2.exc)},
                                      {'workload': 'malformed', 'expr': bad_text, 'files': files})
                    else:
                        res.see('malformed', edit, 'reported')
                else:
                    res.see('malformed', edit, 'still_well_formed')
        # expressions that are malformed whatever the schema is (judged without the repository's parser)
        a0 = attr_names[0] if attr_names else 'a'
        for bad_text in ['', ' ', '()', a0, a0 + '=', '=1', a0 + '=1 and', a0 + '==1', a0 + '=1 or or ' + a0 + '=2',
                         '(' + a0 + '=1', a0 + '=1)', a0 + '=1 ' + a0 + '=2', 'and', a0 + '="unterminated',
                         a0 + "='x'", a0 + '=1;', a0 + ' = = 1'][ci % 3::3]:
            res.count('malformed_checked')
            r2 = run(['-f', bad_text, '-a', ':all'])
            if not (r2.code == 1 and r2.received is None and 'rror' in r2.stderr):
                res.violation({'kind': 'malformed_filter_not_reported', 'code': r2.code, 'fixed_list': True},
                              {'expr': bad_text, 'stderr': r2.stderr[-200:], 'exc': repr(r2.exc)},
                              {'workload': 'malformed', 'expr': bad_text, 'files': files})
            else:
                res.see('malformed', 'fixed_list', bad_text[:12])
        # namespace lists
        subsets = [list(s) for kk in range(len(nsnames) + 1) for s in itertools.combinations(nsnames, kk)]
        for sub in subsets:
            if sub:
                args = [x for s_ in sub for x in ('-w', s_)]
                exp = {x for x in all_routes if x[0] in sub}
                check_api(run(args + ['-a', ':all']), exp, set(attr_names), 'whitelist',
                          {'workload': 'whitelist', 'namespaces': sub, 'files': files})
                args = [x for s_ in sub for x in ('-b', s_)]
                exp = {x for x in all_routes if x[0] not in sub}
                check_api(run(args + ['-a', ':all']), exp, set(attr_names), 'blacklist',
                          {'workload': 'blacklist', 'namespaces': sub, 'files': files})
                res.see('namespace_subset', len(sub), len(nsnames))
        for flag in ('-w', '-b'):
            r = run([flag, 'no_such_ns', '-a', ':all'])
            if not (r.code == 1 and r.received is None and 'rror' in r.stderr):
                res.violation({'kind': 'unknown_namespace_not_reported', 'flag': flag},
                              {'code': r.code, 'stderr': r.stderr[-200:]}, {'files': files})
            else:
                res.see('unknown_namespace', flag)
        # attribute lists
        asubs = [list(s) for kk in range(len(attr_names) + 1) for s in itertools.combinations(attr_names, kk)]
        if len(asubs) > 12:
            asubs = rnd.sample(asubs, 12)
        for sub in asubs:
            args = [x for a in sub for x in ('-a', a)]
            check_api(run(args), all_routes, set(sub), 'attributes',
                      {'workload': 'attributes', 'attributes': sub, 'files': files})
            res.see('attribute_subset', len(sub), len(attr_names))
        check_api(run(['-a', ':all'] + ([x for a in attr_names[:1] for x in ('-a', a)])), all_routes,
                  set(attr_names), 'attributes_all', {'workload': 'attributes_all', 'files': files})
        for args, label in ((['-a', 'no_such_attr'], 'alone'), (['-a', 'no_such_attr', '-a', ':all'], 'with_all'),
                            (['-a', ':all', '-a', 'no_such_attr'], 'after_all')):
            r = run(args)
            if not (r.code == 1 and r.received is None and 'rror' in r.stderr):
                res.violation({'kind': 'unknown_attribute_not_reported', 'how': label},
                              {'code': r.code, 'stderr': r.stderr[-200:]}, {'files': files, 'args': args})
            else:
                res.see('unknown_attribute', label)
        # combination of the three
        if usable and len(nsnames) > 1:
            sub = rnd.sample(nsnames, rnd.randint(1, len(nsnames) - 1))
            f = rnd.choice(usable)
            vals = [route_attr_values(m, r_)[f.name] for r_ in routes]
            lit = rnd.choice(vals + [None])
            if attr_kind(f) == 'Float' and lit is not None:
                lit = float(lit)
            if True:
                tree = fx.Pred(f.name, '=', lit)
                exp = {(r_.ns, r_.name, r_.version) for r_ in routes if r_.ns in sub and
                       fx.evaluate(tree, {k_: v for k_, v in route_attr_values(m, r_).items()
                                          if not isinstance(v, tuple)})}
                keep = attr_names[:1]
                args = [x for s_ in sub for x in ('-w', s_)] + ['-f', fx.render(tree, rnd)] + \
                    [x for a in keep for x in ('-a', a)]
                check_api(run(args), exp, set(keep), 'combined',
                          {'workload': 'combined', 'args': args, 'files': files})
                res.see('combined', len(sub), len(exp) > 0)
        if ci == idx:
            # the same answers from a real process
            pr = cli.run_subprocess([cli.DUMP_BACKEND, out] + paths + ['-w', 'no_such_ns'])
            res.count('subprocess_runs')
            if pr.returncode != 1 or b'rror' not in pr.stderr:
                res.violation({'kind': 'unknown_namespace_not_reported', 'flag': '-w', 'via': 'subprocess'},
                              {'code': pr.returncode, 'stderr': pr.stderr[-200:].decode('utf-8', 'replace')},
                              {'files': files})
            pr = cli.run_subprocess([cli.DUMP_BACKEND, out] + paths + ['-f', 'x = = 1'])
            if pr.returncode != 1 or b'rror' not in pr.stderr:
                res.violation({'kind': 'malformed_filter_not_reported', 'via': 'subprocess'},
                              {'code': pr.returncode, 'stderr': pr.stderr[-200:].decode('utf-8', 'replace')},
                              {'files': files})
            shutil.rmtree(out, ignore_errors=True)
        shutil.rmtree(d, ignore_errors=True)
