"""C06 - the decoder accepts exactly valid serializations and fails only by validation."""
import copy
import json

from .. import common
from ..gen import jsonmut
from ..gen.values import ValueGen, Uninhabited
from ..mon import pyrt
from ..ref import wire, typepred
from . import rtwork, c04

PROPERTY = 'C06'
LEVEL = 'exploration'
RULE = ('for every typed position of generated specs: reference encodings of valid values, the forms the '
        'serializer specification declares valid (explicit null, bare-string void tags, tag-only nullable '
        'members), 1-2 typed structural mutations (drop/add/rename key, each other JSON kind, bound+-1, retag, '
        'flatten/nest) and arbitrary small documents are decoded through json_compat_obj_decode and '
        'json_decode, strict and lenient.  Every outcome must be a value that is valid for the type '
        '(AV read-back + reference predicate) or ValidationError; documents a reference classifier marks '
        'must-accept / must-reject are judged, unspecified ones only for the first clause. distinct = '
        'distinct (mutation, expected class, outcome, mode) tuples')
RULE += ' ' + 'Text that is not JSON (also NaN/Infinity tokens and 200000-deep nesting) goes through json_decode and must end in ValidationError.'
ASSUMPTIONS = ['classifier vf/ref/wire.py returns unspecified wherever the documents are silent '
               '(bool for number, 1.0 for integer, lax base64, null for an all-optional struct, extra keys '
               'next to a nested member in lenient mode, bare string for a nullable member)']
REQUIRED_COUNTERS = ['decodes', 'judged_accept', 'judged_reject']


def time_limit(tier):
    return common.default_limit(tier)


def budget(tier):
    return dict(specs=60, values=3, muts=30, small=12) if tier == 'quick' else \
        dict(specs=2500, values=5, muts=60, small=30)


def json_able(x):
    try:
        json.dumps(x)
        return all(isinstance(k, str) for k in _keys(x))
    except (TypeError, ValueError):
        return False


def _keys(x):
    if isinstance(x, dict):
        for k, v in x.items():
            yield k
            yield from _keys(v)
    elif isinstance(x, list):
        for v in x:
            yield from _keys(v)


MALFORMED_TEXTS = ['', ' ', '{', '[1,', '{"a":}', 'nul', "{'a': 1}", '{"a" 1}', '"unterminated', '\x00',
                   '{"a": 1} trailing', 'NaN', 'Infinity', '-Infinity', '[NaN]', '[' * 200000, '{"a":' * 100000]


def run_shard(tier, seed, idx, n, res, tmp):
    from stone.backends.python_rsrc import stone_serializers as ss, stone_validators as bv
    b = budget(tier)
    for ci in common.case_range(idx, b['specs'], n, res):
        try:
            case = rtwork.SpecCase(PROPERTY, seed, ci, tmp, rtwork.rt_profile(p_shared_type_name=0.15))
            positions = rtwork.typed_positions(case.m, case.pkg)
        except Exception as e:
            res.skip('package_not_usable:%s' % type(e).__name__)
            continue
        m, pkg, rnd = case.m, case.pkg, case.rnd
        try:
            vg = ValueGen(m, rnd, max_depth=3)
            for label, shape, t, validator in positions:
                docs = []
                for vi in range(b['values']):
                    try:
                        av = vg.value(t, avoid_null=True)
                    except Uninhabited:
                        break
                    try:
                        doc = wire.encode(m, t, av)
                    except wire.Unspecified:
                        continue
                    if c04.excluded(m, t, av):
                        continue
                    docs.append(('reference_encoding', doc))
                    muts = jsonmut.mutations(m, t, doc, rnd, b['muts'])
                    docs.extend(muts)
                    for nm, d2 in muts[:6]:
                        for nm2, d3 in jsonmut.mutations(m, t, d2, rnd, 2):
                            docs.append((nm + '+' + nm2, d3))
                atoms = [None, True, 0, -1, 1.5, '', 'x']
                tgt = m.target(t)
                if tgt is not None:
                    fs = m.struct_all_fields(tgt) if tgt.kind == 'struct' else m.union_all_fields(tgt)
                    atoms += [f.name for f in fs[:4]]
                    if tgt.kind == 'struct' and tgt.subtypes:
                        atoms += [tg for tg, _ in tgt.subtypes['items'][:2]]
                docs.extend(('small_doc', d) for d in jsonmut.small_docs(atoms, rnd, b['small']))
                docs.append(('non_string_key', {5: 1}))
                for mut, doc in docs:
                    for strict in (True, False):
                        mode = 'strict' if strict else 'lenient'
                        expected = wire.classify(m, t, doc, strict) if mut != 'non_string_key' else wire.UNSPEC
                        entries = ['compat'] + (['json'] if json_able(doc) and rnd.random() < 0.3 else [])
                        for entry in entries:
                            res.evaluations += 1
                            res.count('decodes')
                            replay = {'case': ci, 'type': label, 'doc': doc, 'strict': strict,
                                      'files': case.files}
                            try:
                                if entry == 'compat':
                                    val = ss.json_compat_obj_decode(validator, copy.deepcopy(doc), strict=strict)
                                else:
                                    val = ss.json_decode(validator, json.dumps(doc), strict=strict)
                                outcome = 'value'
                            except bv.ValidationError:
                                outcome = 'validation_error'
                            except Exception as e:
                                outcome = 'escape'
                                res.violation({'kind': 'decoder_escape', 'exc': type(e).__name__,
                                               'site': '%s:%s' % common.exc_site(e)},
                                              {'error': repr(e)[:200], 'mutation': mut, 'doc': doc}, replay)
                            res.see(mut.split('+')[0], expected, outcome, mode)
                            if outcome == 'value':
                                why = None
                                try:
                                    back = pyrt.read(pkg, m, t, val)
                                    why = typepred.deep_valid(m, t, back)
                                except pyrt.ReadError as e:
                                    why = 'unreadable: %s' % e
                                except Exception as e:
                                    why = 'read raised %r' % (e,)
                                if why:
                                    res.violation({'kind': 'invalid_value_returned', 'top': shape},
                                                  {'why': why, 'mutation': mut, 'doc': doc,
                                                   'expected': expected}, replay)
                            if expected == wire.ACCEPT:
                                res.count('judged_accept')
                                if outcome == 'validation_error':
                                    res.violation({'kind': 'must_accept_rejected', 'mutation': mut.split('+')[0],
                                                   'mode': mode}, {'doc': doc, 'type': label}, replay)
                            elif expected == wire.REJECT:
                                res.count('judged_reject')
                                if outcome == 'value':
                                    res.violation({'kind': 'must_reject_accepted', 'mutation': mut.split('+')[0],
                                                   'mode': mode, 'top': shape},
                                                  {'doc': doc, 'type': label, 'value': repr(val)[:200]}, replay)
                            else:
                                res.count('unspecified')
                # the string entry point on text that is not a JSON document at all: only the
                # validation error may come out ("given any JSON document ... no other exception escapes")
                for text in MALFORMED_TEXTS:
                    for strict in (True, False):
                        res.evaluations += 1
                        res.count('malformed_text_decodes')
                        try:
                            ss.json_decode(validator, text, strict=strict)
                            out = 'value'
                        except bv.ValidationError:
                            out = 'validation_error'
                        except Exception as e:
                            out = 'escape'
                            res.violation({'kind': 'decoder_escape', 'exc': type(e).__name__,
                                           'site': '%s:%s' % common.exc_site(e)},
                                          {'error': repr(e)[:200], 'text': text[:60]},
                                          {'case': ci, 'type': label, 'text': text[:200], 'files': case.files})
                        res.see('malformed_text', out)
                        if out == 'value':
                            res.violation({'kind': 'must_reject_accepted', 'mutation': 'malformed_text',
                                           'mode': 'strict' if strict else 'lenient', 'top': shape},
                                          {'text': text[:60], 'type': label},
                                          {'case': ci, 'type': label, 'text': text[:200], 'files': case.files})
                if ci < n and docs:
                    res.sample({'type': label, 'mutation': docs[min(2, len(docs) - 1)][0],
                                'doc': docs[min(2, len(docs) - 1)][1]}, cap=4)
        finally:
            case.close()
