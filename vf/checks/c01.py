"""C01 - the compiler accepts exactly the specs that obey the language rules."""
import copy
import random

from .. import common
from ..gen import model as gm, render as gr, violations as gv
from ..mon import boundary, coverage
from . import c02inv

PROPERTY = 'C01'
LEVEL = 'exploration'
RULE = ('(a) every generated valid model rendered under the reference layout and two random layouts must '
        'be accepted; (b) each catalogued single rule violation is injected at every applicable site of '
        'every model (cap per rule and model) and must end in InvalidSpec (outcome class only). '
        'distinct = distinct (rule, site context) pairs observed refused + distinct layouts accepted + '
        'distinct InvalidSpec raise sites reached (sys.monitoring RAISE)')
ASSUMPTIONS = ['validity of generated models is by construction (vf/gen/model.py docstring)',
               'an injection changes exactly one declared attribute of a valid model',
               'rules the reference leaves implicit are tagged implicit and reported, not judged']
REQUIRED_COUNTERS = ['valid_compiles', 'injections']

SITE_CAP = 4      # per (rule, model)


def time_limit(tier):
    return common.default_limit(tier)


def budget(tier):
    return dict(models=64 if tier == 'quick' else 3000)


def profile():
    return gm.make_profile(p_cfg_ts_bytes_attr=0.3, p_alias_of_alias=0.2)


def run_shard(tier, seed, idx, n, res, tmp):
    b = budget(tier)
    obs = coverage.RaiseObserver()
    obs.start()
    try:
        for ci in common.case_range(idx, b['models'], n, res):
            cs = common.case_seed(PROPERTY, seed, ci)
            rnd = random.Random(cs)
            m = gm.generate(cs, profile())
            # (a) valid under three layouts
            ok = True
            for li, lay in enumerate([None, gr.Layout(cs + 1), gr.Layout(cs + 2)]):
                files = gr.render(m, lay)
                klass, payload = boundary.compile_outcome(files)
                res.evaluations += 1
                res.count('valid_compiles')
                replay = {'workload': 'valid', 'case': ci, 'layout': li, 'files': files}
                if klass == 'api':
                    res.count('valid_accepted')
                    for b_ in c02inv.check_api_invariants(payload):
                        res.violation({'kind': 'ir_invariant', 'which': b_[0]}, b_[1], replay)
                    if lay is not None:
                        for t in set(lay.trace):
                            res.see('layout_accepted', t)
                elif klass == 'invalid_spec':
                    ok = False
                    res.violation({'kind': 'valid_refused', 'message': _msg_class(payload.msg)},
                                  {'error': repr(payload), 'features': dict(m.features)}, replay)
                elif klass == 'watchdog':
                    ok = False
                    res.inconclusive.append('watchdog on valid model %d' % ci)
                else:
                    ok = False
                    sig = boundary.escape_signature(payload)
                    sig['kind'] = 'valid_crashed'
                    res.violation(sig, {'error': repr(payload)[:300]}, replay)
            if not ok:
                continue
            for f in m.features:
                res.see('feature', f)
            # (b) injections
            for rule in gv.RULES:
                try:
                    sites = list(rule(m, rnd))
                except Exception as e:   # a bug in the catalogue is not a verdict
                    res.inconclusive.append('rule %s site enumeration failed: %r' % (rule.rule_name, e))
                    continue
                if len(sites) > SITE_CAP:
                    sites = rnd.sample(sites, SITE_CAP)
                for ctx, apply in sites:
                    m2 = copy.deepcopy(m)
                    try:
                        edit = apply(m2)
                        # "wherever it sits in the inputs": half of the structural
                        # injections are rendered under a random layout (definition
                        # and file order, file splits, comments, continuation lines)
                        lay = None
                        if edit is None and rnd.random() < 0.5:
                            lay = gr.Layout(rnd.randrange(1 << 30), inline=False)
                            res.count('injections_under_random_layout')
                        files = gr.render(m2, lay)
                        if edit is not None:
                            files = edit(files, rnd)
                            if files is None:
                                res.count('injection_not_applicable')
                                continue
                    except Exception as e:
                        res.inconclusive.append('rule %s apply failed: %r' % (rule.rule_name, e))
                        continue
                    klass, payload = boundary.compile_outcome(files, fast=True)
                    res.evaluations += 1
                    res.count('injections')
                    if res.counters['injections'] % 40 == 0:
                        k2, p2 = boundary.compile_outcome(files)
                        res.count('fast_path_crosschecks')
                        if k2 != klass or (k2 == 'invalid_spec' and p2.msg != payload.msg):
                            res.inconclusive.append('fast/pristine parser disagreement on rule %s'
                                                    % rule.rule_name)
                    replay = {'workload': 'inject', 'case': ci, 'rule': rule.rule_name,
                              'context': ctx, 'files': files}
                    if klass == 'invalid_spec':
                        res.count('injections_refused')
                        res.see('refused', rule.rule_name, ctx)
                        if ci < 2 * n and rule.rule_name in ('field_clashes_with_inherited',
                                                             'undefined_type'):
                            res.sample({'rule': rule.rule_name, 'context': ctx, 'error': payload.msg})
                    elif klass == 'api':
                        if rule.implicit:
                            res.skip('implicit_rule_accepted:' + rule.rule_name)
                        else:
                            res.violation({'kind': 'violation_accepted', 'rule': rule.rule_name},
                                          {'context': ctx}, replay)
                    elif klass == 'watchdog':
                        res.inconclusive.append('watchdog on injection %s' % rule.rule_name)
                    else:
                        sig = boundary.escape_signature(payload)
                        sig['kind'] = 'violation_crashed'
                        sig['rule'] = rule.rule_name
                        res.violation(sig, {'context': ctx, 'error': repr(payload)[:300]}, replay)
    finally:
        obs.stop()
    for (et, f, fn), c in obs.origins.items():
        if et == 'InvalidSpec':
            res.see('invalid_spec_site', f, fn)


def _msg_class(msg):
    import re
    return re.sub(r"'[^']*'|\"[^\"]*\"|\d+", '_', msg)[:80]


def post(merged, tier, seed):
    refused = sorted(x for x in merged.distinct if x.startswith('refused|'))
    rules = sorted({x.split('|')[1] for x in refused})
    missing = [r.rule_name for r in gv.RULES if r.rule_name not in rules]
    return {'rules_in_catalogue': len(gv.RULES), 'rules_observed_refused': len(rules),
            'rules_never_applicable_in_this_run': missing,
            'rule_context_pairs': len(refused)}


def replay(payload):
    common.use_repo()
    files = [tuple(x) for x in payload['files']]
    klass, p = boundary.compile_outcome(files)
    print(klass, repr(p)[:500])
    return klass
