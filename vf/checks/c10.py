"""C10 - defaults and examples the compiler accepts are valid for the generated runtime."""
import datetime
import re

from .. import common
from ..gen.model import PRIM_FLOATS
from ..ref import wire
from . import rtwork

PROPERTY = 'C10'
LEVEL = 'exploration'
RULE = ('generated specs with defaults on every defaultable type (boundary literals, ints for floats, tag refs '
        'across namespaces and through aliases, strings against length and pattern bounds) and examples on '
        'every type shape and label. For every defaulted field of the imported python_types classes: reading '
        'the never-set field returns exactly the declared default (ready union instance for tags) and the '
        'class accepts that value on assignment. For every example the compiler computed (get_examples(), '
        'except the implicit catch-all one): json_compat_obj_decode(strict=True) succeeds and encoding the '
        'result gives the same document. Near misses: per spec a few defaults / examples that break one '
        'declared constraint are compiled too; those the compiler refuses are only counted, any it accepts '
        'is held to the same oracle (class accepts the default, example decodes strictly). distinct = distinct (literal kind, constraint kind, type shape) cells')
ASSUMPTIONS = ['the main pass writes Bytes examples as canonical base64 and Timestamp examples in the canonical text of '
               'their format; other literal forms are exercised by two probes per spec (recorded findings)']
REQUIRED_COUNTERS = ['defaults_checked', 'examples_checked']


def time_limit(tier):
    return common.default_limit(tier)


def budget(tier):
    return dict(specs=120, near=12) if tier == 'quick' else dict(specs=5000, near=16)


def profile():
    return rtwork.rt_profile(p_examples=1.0, p_default=0.85, p_ts_bytes_default=0.3, p_doc=0.1, p_linebreak_literal=0.15,
                             p_nullable=0.25, n_types=(3, 10))


def constraint_kind(rt):
    if rt.kind != 'prim':
        return 'union_tag'
    ks = [k for k in ('min_value', 'max_value', 'min_length', 'max_length', 'pattern') if k in rt.args]
    return '+'.join(ks) or 'none'


def run_shard(tier, seed, idx, n, res, tmp):
    from stone.backends.python_rsrc import stone_serializers as ss, stone_validators as bv
    b = budget(tier)
    for ci in common.case_range(idx, b['specs'], n, res):
        try:
            case = rtwork.SpecCase(PROPERTY, seed, ci, tmp, profile())
            for ns in case.m.namespaces:
                case.pkg.mod(ns.name)
        except Exception as e:
            res.violation({'kind': 'package_unusable', 'exc': type(e).__name__,
                           'site': '%s:%s' % common.exc_site(e)}, {'error': repr(e)[-300:]}, {'case': ci})
            continue
        m, pkg = case.m, case.pkg
        try:
            for d in m.defs('struct'):
                cls = pkg.cls(d.ns, d.name)
                for f in m.own_fields(d):
                    if f.default is None:
                        continue
                    res.evaluations += 1
                    res.count('defaults_checked')
                    rt, _ = m.resolve_alias(f.type)
                    kind, v = f.default
                    cell = ('default', rt.name if rt.kind == 'prim' else 'union', constraint_kind(rt),
                            'via_alias' if f.type.kind == 'ref' and rt is not f.type and rt.kind == 'prim' else 'direct')
                    replay = {'case': ci, 'field': '%s.%s.%s' % (d.ns, d.name, f.name), 'files': case.files}
                    obj = cls()
                    try:
                        got = getattr(obj, f.name)
                    except Exception as e:
                        res.violation({'kind': 'default_not_readable', 'type': cell[1]},
                                      {'error': repr(e)[:200]}, replay)
                        continue
                    ok = True
                    if kind == 'lit' and rt.name in ('Bytes', 'Timestamp') and isinstance(got, str):
                        res.violation({'kind': 'default_emitted_as_text', 'type': rt.name},
                                      {'declared': repr(v), 'read': repr(got)[:80]}, replay)
                        continue
                    if kind == 'tag':
                        tgt = m.target(f.type)
                        ucls = pkg.cls(tgt.ns, tgt.name)
                        if not (isinstance(got, pkg.cls(*_tag_owner(m, tgt, v))) and
                                getattr(got, 'is_' + v)() and got == getattr(ucls, v)):
                            ok = False
                    else:
                        exp = float(v) if rt.name in PRIM_FLOATS else v
                        if rt.name == 'Bytes':
                            exp = ('bytes-like', v)
                            ok = isinstance(got, (bytes, bytearray))
                        elif rt.name == 'Timestamp':
                            ok = isinstance(got, datetime.datetime) and \
                                got == datetime.datetime.strptime(v, rt.args['format'])
                        else:
                            ok = type(got) is type(exp) and got == exp
                    if not ok:
                        res.violation({'kind': 'default_value_differs', 'type': cell[1]},
                                      {'declared': repr(v), 'read': repr(got)[:120]}, replay)
                    try:
                        setattr(obj, f.name, got)
                        res.see(*cell)
                    except bv.ValidationError as e:
                        res.violation({'kind': 'default_refused_by_class', 'type': cell[1],
                                       'constraint': cell[2]},
                                      {'declared': repr(v), 'error': str(e)[:200]}, replay)
                    except Exception as e:
                        res.violation({'kind': 'default_assignment_raised', 'exc': type(e).__name__},
                                      {'error': repr(e)[:200]}, replay)
            # examples computed by the compiler
            for nsname, ns in pkg.api.namespaces.items():
                for dt in ns.data_types:
                    catch_all = getattr(dt, 'catch_all_field', None)
                    validator = pkg.validator(nsname, dt.name)
                    for label, ex in dt.get_examples().items():
                        embeds_catch_all = _contains_catch_all(ex.value)
                        if embeds_catch_all and _plain(ex.value) == {'.tag': label} and \
                                any(f.catch_all and f.name == label for f in getattr(dt, 'all_fields', ())
                                    if hasattr(f, 'catch_all')):
                            # the implicit example of the catch-all tag itself: exempt by the property
                            res.skip('implicit_catch_all_example')
                            continue
                        res.evaluations += 1
                        res.count('examples_checked')
                        md = m.lookup(nsname, dt.name)
                        replay = {'case': ci, 'type': '%s.%s' % (nsname, dt.name), 'label': label,
                                  'example': ex.value, 'files': case.files}
                        shape = md.kind + ('-root' if getattr(md, 'subtypes', None) else '') + \
                            ('-child' if md.parent else '')
                        try:
                            val = ss.json_compat_obj_decode(validator, _plain(ex.value), strict=True)
                        except bv.ValidationError as e:
                            if embeds_catch_all and 'catch-all' in str(e):
                                # an example naming the catch-all tag (through a reference or a
                                # `= other` default) is accepted by the compiler, refused by the decoder
                                res.violation({'kind': 'example_embeds_catch_all_tag'},
                                              {'error': str(e)[:300], 'example': ex.value, 'shape': shape}, replay)
                                continue
                            res.violation({'kind': 'example_refused', 'shape': shape,
                                           'reason': _reason(str(e))},
                                          {'error': str(e)[:300], 'example': ex.value}, replay)
                            continue
                        except Exception as e:
                            res.violation({'kind': 'example_decode_raised', 'exc': type(e).__name__},
                                          {'error': repr(e)[:200]}, replay)
                            continue
                        try:
                            enc = ss.json_compat_obj_encode(validator, val)
                        except Exception as e:
                            res.violation({'kind': 'example_reencode_raised', 'exc': type(e).__name__},
                                          {'error': repr(e)[:200]}, replay)
                            continue
                        diff = wire.json_eq(_plain(ex.value), enc)
                        if diff:
                            res.violation({'kind': 'example_reencodes_differently', 'shape': shape},
                                          {'diff': diff, 'example': ex.value, 'encoded': enc}, replay)
                        else:
                            res.see('example', shape, _value_shapes(ex.value))
                        if ci < n:
                            res.sample({'type': dt.name, 'label': label, 'example': ex.value}, cap=4)
        finally:
            case.close()
        near_misses(res, m, case, ci, tmp, b)


NEAR_MISS_RULES = ('default', 'example')
PROBE_TYPES = {'probe_bytes_example_text_literal': 'Bytes', 'probe_timestamp_example_unpadded': 'Timestamp'}


def literal_probes(m, rnd):
    """Example literals the compiler is known to take although they are not the wire
    form of the value: arbitrary text for Bytes (route attributes of type Bytes take
    text and UTF-8 encode it), Timestamp text that parses under the format without
    being what the format prints.  At most one probe of each kind per spec."""
    out = []
    done = set()
    for ni, ns in enumerate(m.namespaces):
        for di, d in enumerate(ns.defs):
            if d.kind != 'struct' or d.subtypes:
                continue
            for ei, ex in enumerate(d.examples):
                for f in m.struct_all_fields(d):
                    ev = ex.values.get(f.name)
                    if not ev or ev[0] != 'lit' or f.type is None:
                        continue
                    rt, _ = m.resolve_alias(f.type)
                    if rt.kind != 'prim':
                        continue
                    new = None
                    if rt.name == 'Bytes' and 'b' not in done:
                        new, name = 'plain text, not base64!', 'probe_bytes_example_text_literal'
                        key = 'b'
                    elif rt.name == 'Timestamp' and 't' not in done and '-%m-%d' in rt.args['format']:
                        fmt = rt.args['format']
                        try:
                            dt = datetime.datetime.strptime(ev[1], fmt)
                            cand = dt.strftime(fmt.replace('%m', '%-m').replace('%d', '%-d'))
                            if cand != ev[1] and datetime.datetime.strptime(cand, fmt) == dt:
                                new, name, key = cand, 'probe_timestamp_example_unpadded', 't'
                        except ValueError:
                            pass
                    if new is None:
                        continue
                    done.add(key)

                    def apply(m2, ni=ni, di=di, ei=ei, fname=f.name, new=new):
                        m2.namespaces[ni].defs[di].examples[ei].values[fname] = ('lit', new)
                    out.append((name, ('struct_example', apply)))
    return out


def near_misses(res, m, case, ci, tmp, b):
    """Defaults / examples that break one declared constraint.  The compiler normally
    refuses them (that is C01's business and nothing is judged here); whenever it
    *accepts* one, the accepted default / example is held to this property like any
    other: the generated class must accept it too."""
    import copy
    import random
    from ..gen import violations as gv, render as gr
    from ..mon import pyrt
    from stone.frontend.exception import InvalidSpec
    from stone.backends.python_rsrc import stone_serializers as ss, stone_validators as bv
    from stone.ir import data_types as D
    rnd = random.Random(common.case_seed(PROPERTY, 'near', ci))
    cands = []
    for rule in gv.RULES:
        if not any(k in rule.rule_name for k in NEAR_MISS_RULES):
            continue
        try:
            sites = list(rule(m, rnd))
        except Exception:
            continue
        if sites:
            cands.append((rule.rule_name, rnd.choice(sites)))
    rnd.shuffle(cands)
    cands = cands[:b.get('near', 4)] + literal_probes(m, rnd)
    for rname, (ctx, apply) in cands:
        m2 = copy.deepcopy(m)
        try:
            edit = apply(m2)
            files = gr.render(m2, None)
            if edit is not None:
                files = edit(files, rnd)
                if files is None:
                    continue
        except Exception:
            res.skip('near_miss_not_applicable')
            continue
        res.evaluations += 1
        try:
            pkg = pyrt.Pkg(files, tmp)
        except InvalidSpec:
            res.count('near_miss_refused_by_compiler')
            continue
        except Exception as e:
            res.skip('near_miss_compile_escape')     # C03's business
            continue
        res.count('near_miss_accepted_by_compiler')
        replay = {'case': ci, 'near_miss_rule': rname, 'context': ctx, 'files': files}
        try:
            try:
                for nsname in pkg.api.namespaces:
                    pkg.mod(nsname)
            except Exception as e:
                res.violation({'kind': 'near_miss_package_unusable', 'rule': rname, 'exc': type(e).__name__},
                              {'error': repr(e)[-300:]}, replay)
                continue
            for nsname, ns in pkg.api.namespaces.items():
                for dt in ns.data_types:
                    if isinstance(dt, D.Struct):
                        for f in dt.fields:
                            if not f.has_default:
                                continue
                            udt, _ = D.unwrap_aliases(f.data_type)
                            if isinstance(udt, (D.Bytes, D.Timestamp)):
                                continue        # recorded finding (emitted as text)
                            res.count('near_miss_defaults_checked')
                            obj = pkg.cls(nsname, dt.name)()
                            try:
                                got = getattr(obj, f.name)
                                setattr(obj, f.name, got)
                            except bv.ValidationError as e:
                                res.violation({'kind': 'accepted_default_refused_by_class', 'rule': rname},
                                              {'field': '%s.%s' % (dt.name, f.name), 'default': repr(f.default)[:80],
                                               'error': str(e)[:200]}, replay)
                            except Exception as e:
                                res.violation({'kind': 'accepted_default_unusable', 'rule': rname,
                                               'exc': type(e).__name__},
                                              {'field': '%s.%s' % (dt.name, f.name), 'error': repr(e)[:200]}, replay)
                    validator = pkg.validator(nsname, dt.name)
                    for label, ex in dt.get_examples().items():
                        if _contains_catch_all(ex.value):
                            continue
                        res.count('near_miss_examples_checked')
                        probe = PROBE_TYPES.get(rname)
                        try:
                            val = ss.json_compat_obj_decode(validator, _plain(ex.value), strict=True)
                            if probe:
                                enc = ss.json_compat_obj_encode(validator, val)
                                diff = wire.json_eq(_plain(ex.value), enc)
                                if diff:
                                    res.violation({'kind': 'example_literal_emitted_verbatim', 'type': probe},
                                                  {'type': dt.name, 'label': label, 'diff': diff,
                                                   'example': ex.value}, replay)
                        except bv.ValidationError as e:
                            if probe:
                                res.violation({'kind': 'example_literal_emitted_verbatim', 'type': probe},
                                              {'type': dt.name, 'label': label, 'error': str(e)[:300],
                                               'example': ex.value}, replay)
                            else:
                                res.violation({'kind': 'accepted_example_refused', 'rule': rname,
                                               'reason': _reason(str(e))},
                                              {'type': dt.name, 'label': label, 'error': str(e)[:300],
                                               'example': ex.value}, replay)
                        except Exception as e:
                            res.violation({'kind': 'accepted_example_decode_raised', 'rule': rname,
                                           'exc': type(e).__name__}, {'error': repr(e)[:200]}, replay)
        finally:
            pkg.close()


def _tag_owner(m, u, tag):
    for x in m.chain(u):
        names = [f.name for f in m.own_fields(x)] + (['other'] if m.union_declares_other(x) else [])
        if tag in names:
            return (x.ns, x.name)
    return (u.ns, u.name)


def _contains_catch_all(x):
    if isinstance(x, dict):
        if x.get('.tag') == 'other':
            return True
        return any(_contains_catch_all(v) for v in x.values())
    if isinstance(x, list):
        return any(_contains_catch_all(v) for v in x)
    return False


def _plain(x):
    if isinstance(x, dict):
        return {k: _plain(v) for k, v in x.items()}
    if isinstance(x, list):
        return [_plain(v) for v in x]
    return x


def _reason(msg):
    msg = re.sub(r"'[^']*'", "'_'", msg)
    msg = re.sub(r'^[\w.\[\]]+: ', '', msg)
    return re.sub(r'\d+', 'N', msg)[:70]


def _value_shapes(v):
    kinds = set()

    def walk(x):
        if isinstance(x, dict):
            kinds.add('tagged' if '.tag' in x else 'object')
            for y in x.values():
                walk(y)
        elif isinstance(x, list):
            kinds.add('list')
            for y in x:
                walk(y)
        else:
            kinds.add(type(x).__name__)
    walk(v)
    return '+'.join(sorted(kinds))
