"""C09 - generated Python modules load and expose the whole API as documented."""
import json
import os
import random
import subprocess

from .. import common
from ..gen import model as gm, render as gr
from ..gen.model import PRIM_INTS, PRIM_FLOATS
from ..gen.values import ValueGen, Uninhabited
from ..mon import pyrt
from . import rtwork

PROPERTY = 'C09'
LEVEL = 'exploration'
RULE = ('for every generated spec (imports both ways across the API, cross-namespace parents and defaults, '
        'forward references, enumerated subtypes, aliases to user types, docs with references, unicode and '
        'quoting characters) the python_types output is imported in a fresh interpreter once per namespace as '
        'the first import; a description obtained with dir/getattr/inspect (classes, bases, attribute '
        'descriptors and their validator trees, constructor parameters, is_/get_/creator helpers, ready void '
        'instances, <Name>_validator trees, route objects and ROUTES) is compared with the model; in-process, '
        'every field is set, read and deleted with a valid value. distinct = distinct (exposed item kind, '
        'feature) cells found as declared')
ASSUMPTIONS = ['identifiers are identity-stable under the backend case conversion and not reserved words']
REQUIRED_COUNTERS = ['fresh_imports', 'items_compared', 'attributes_exercised']


def time_limit(tier):
    return common.default_limit(tier)


def budget(tier):
    return dict(specs=64) if tier == 'quick' else dict(specs=1500)


def profile():
    return rtwork.rt_profile(p_doc=0.6, p_doc_ref=0.7, p_odd_text=0.4, p_foreign=0.6, n_ns=(2, 4),
                             p_cfg_union_attr=0.4, p_default=0.5, p_annotations=0.6, max_omitted=2,
                             p_custom_ann=0.5, p_examples=0.3, p_hostile_doc=0.08, p_default_via_foreign_alias=0.08,
                             p_union=0.3, p_sparse_namespace=0.2)


def expect_validator(m, t):
    """Validator tree the generated code must build for type expression t."""
    if t is None or (t.kind == 'prim' and t.name == 'Void'):
        return ['Void']
    if t.nullable:
        return ['Nullable', expect_validator(m, t.copy(nullable=False))]
    if t.kind == 'prim':
        n = t.name
        if n in PRIM_INTS:
            lo, hi = PRIM_INTS[n]
            return [n, t.args.get('min_value', lo), t.args.get('max_value', hi)]
        if n in PRIM_FLOATS:
            lo, hi = PRIM_FLOATS[n]
            mn, mx = t.args.get('min_value'), t.args.get('max_value')
            return [n, float(mn) if mn is not None else lo, float(mx) if mx is not None else hi]
        if n == 'String':
            return [n, t.args.get('min_length'), t.args.get('max_length'), t.args.get('pattern')]
        if n == 'Timestamp':
            return [n, t.args['format']]
        return [n]
    if t.kind == 'list':
        return ['List', expect_validator(m, t.args['item']), t.args.get('min_items'), t.args.get('max_items')]
    if t.kind == 'map':
        return ['Map', expect_validator(m, t.args['key']), expect_validator(m, t.args['value'])]
    d = m.lookup(t.ns, t.name)
    if d.kind == 'alias':
        return expect_validator(m, d.type)
    if d.kind == 'struct':
        return ['StructTree' if d.subtypes else 'Struct', d.ns, d.name]
    return ['Union', d.ns, d.name]


def same(a, b):
    if isinstance(a, list) and isinstance(b, list):
        return len(a) == len(b) and all(same(x, y) for x, y in zip(a, b))
    if isinstance(a, bool) or isinstance(b, bool):
        return a is b
    if isinstance(a, (int, float)) and isinstance(b, (int, float)):
        return a == b
    return a == b


def compare(res, m, desc, replay, first):
    def bad(kind, item, detail):
        res.violation({'kind': kind, 'item': item}, dict(detail, first_import=first), replay)

    for ns in m.namespaces:
        md = desc['modules'].get(ns.name)
        if md is None:
            bad('module_missing', 'module', {'ns': ns.name})
            continue
        for d in ns.defs:
            if d.kind == 'struct':
                res.count('items_compared')
                cd = md['classes'].get(d.name)
                if cd is None or cd['kind'] != 'struct':
                    bad('class_missing', 'struct', {'name': d.name})
                    continue
                exp_base = '%s.%s' % d.parent if d.parent else 'stone_base.Struct'
                if cd['bases'] != [exp_base]:
                    bad('wrong_bases', 'struct', {'name': d.name, 'bases': cd['bases'], 'expected': exp_base})
                if '__init__' in (cd.get('exercise') or {}):
                    bad('constructor_without_arguments_raised', 'struct',
                        {'name': d.name, 'error': cd['exercise']['__init__']})
                exp_init = [f.name for f in m.struct_all_fields(d)]
                if cd['init'] != exp_init:
                    bad('constructor_parameters', 'struct', {'name': d.name, 'got': cd['init'],
                                                             'expected': exp_init})
                for f in m.struct_all_fields(d):
                    a = cd['attrs'].get(f.name)
                    if a is None or a['kind'] != 'attribute':
                        bad('field_attribute_missing', 'struct_field', {'struct': d.name, 'field': f.name})
                        continue
                    ev = expect_validator(m, f.type)
                    if not same(a['validator'], ev):
                        bad('field_validator', 'struct_field', {'struct': d.name, 'field': f.name,
                                                                'got': a['validator'], 'expected': ev})
                    if a['has_default'] != (f.default is not None):
                        bad('field_default_flag', 'struct_field', {'struct': d.name, 'field': f.name})
                    elif f.default is not None:
                        # a defaulted field is readable before it is ever written: the
                        # descriptor must hold a value of the field's kind, a ready
                        # instance of the union for a tag default
                        if f.default[0] == 'tag':
                            tgt = m.target(f.type)
                            # the ready instance of an inherited tag belongs to the
                            # union that declares the tag
                            decl = tgt
                            while not any(t.name == f.default[1] for t in m.own_fields(decl)) \
                                    and decl.parent:
                                decl = m.lookup(*decl.parent)
                            if not any(t.name == f.default[1] for t in m.own_fields(decl)):
                                # implicit catch-all: lives on the first open union of the chain
                                decl = [u for u in m.chain(tgt) if not u.closed][0]
                            exp_d = ['union', decl.name, f.default[1]]
                        else:
                            exp_d = None
                        got_d = a.get('default')
                        if (exp_d is not None and got_d != exp_d) or got_d == ['NoneType']:
                            bad('field_default_value_kind', 'struct_field',
                                {'struct': d.name, 'field': f.name, 'got': got_d, 'expected': exp_d})
                        res.see('struct_field_default', f.default[0])
                    exr = (cd.get('exercise') or {}).get(f.name)
                    if exr is not None:
                        res.count('attributes_exercised')
                        want = 'value' if (f.default is not None or m.is_nullable(f.type)) else 'missing_required'
                        if m.is_nullable(f.type) and not f.type.nullable and f.default is None:
                            # alias of a nullable type: whether the field counts as optional
                            # is C04's recorded finding; here only usability is judged
                            want = exr.get('read') if exr.get('read') in ('value', 'missing_required') else want
                        exp_x = {'read': want, 'delete': 'ok', 'read_after_delete': want}
                        if f.default is not None:
                            exp_x['write_default'] = 'ok'
                        if exr != exp_x:
                            bad('attribute_not_usable', 'struct_field',
                                {'struct': d.name, 'field': f.name, 'got': exr, 'expected': exp_x})
                    res.see('struct_field', 'inherited' if f not in m.own_fields(d) else 'own',
                            'foreign_type' if f.type.kind == 'ref' and f.type.ns != d.ns else 'local')
                res.see('struct', 'child' if d.parent else 'top',
                        'foreign_parent' if d.parent and d.parent[0] != d.ns else '-',
                        'root' if d.subtypes else '-')
            elif d.kind == 'union':
                res.count('items_compared')
                cd = md['classes'].get(d.name)
                if cd is None or cd['kind'] != 'union':
                    bad('class_missing', 'union', {'name': d.name})
                    continue
                exp_base = '%s.%s' % d.parent if d.parent else 'stone_base.Union'
                if cd['bases'] != [exp_base]:
                    bad('wrong_bases', 'union', {'name': d.name, 'bases': cd['bases'], 'expected': exp_base})
                for f in m.union_all_fields(d):
                    if cd['attrs'].get('is_' + f.name, {}).get('kind') != 'method':
                        bad('is_tag_missing', 'union_tag', {'union': d.name, 'tag': f.name})
                    if f.type is None:
                        a = cd['attrs'].get(f.name)
                        if a is None or a['kind'] != 'union_instance' or a['tag'] != f.name:
                            bad('void_tag_instance', 'union_tag', {'union': d.name, 'tag': f.name, 'got': a})
                    else:
                        if cd['attrs'].get(f.name, {}).get('kind') != 'classmethod':
                            bad('tag_creator_missing', 'union_tag', {'union': d.name, 'tag': f.name})
                        if cd['attrs'].get('get_' + f.name, {}).get('kind') != 'method':
                            bad('get_tag_missing', 'union_tag', {'union': d.name, 'tag': f.name})
                    res.see('union_tag', 'void' if f.type is None else 'typed',
                            'inherited' if f not in m.own_fields(d) else 'own')
                exp_catch = 'other' if any(getattr(f, 'implicit', False) for f in m.union_all_fields(d)) else None
                if cd.get('catch_all') != exp_catch:
                    bad('catch_all', 'union', {'union': d.name, 'got': cd.get('catch_all'), 'expected': exp_catch})
            if d.kind == 'alias':
                # an alias of a struct or union (through aliases only) also names the class
                rt, nullable = m.resolve_alias(gm.ref(d.ns, d.name))
                if rt.kind == 'ref' and not nullable:
                    res.count('items_compared')
                    got_b = (md.get('class_bindings') or {}).get(d.name)
                    exp_b = '%s.%s' % (rt.ns, rt.name)
                    if got_b != exp_b:
                        bad('alias_class_binding', 'alias', {'name': d.name, 'got': got_b, 'expected': exp_b})
                    else:
                        res.see('alias_class', 'chain' if d.type.kind == 'ref' and
                                m.lookup(d.type.ns, d.type.name).kind == 'alias' else 'direct',
                                'foreign' if rt.ns != d.ns else 'local')
            if d.kind in ('struct', 'union', 'alias'):
                res.count('items_compared')
                v = md['validators'].get(d.name + '_validator')
                ev = expect_validator(m, gm.ref(d.ns, d.name))
                if v is None:
                    bad('validator_missing', d.kind, {'name': d.name})
                elif not same(v, ev):
                    bad('validator_tree', d.kind, {'name': d.name, 'got': v, 'expected': ev})
                else:
                    res.see('validator', d.kind, ev[0])
            if d.kind == 'route':
                res.count('items_compared')
                key = rtwork.route_key(d)
                r = (md['routes'] or {}).get(key)
                if r is None:
                    bad('route_missing_from_ROUTES', 'route', {'route': key})
                    continue
                exp = {'name': d.name, 'version': d.version, 'deprecated': d.deprecated is not None,
                       'arg': expect_validator(m, d.arg), 'result': expect_validator(m, d.result),
                       'error': expect_validator(m, d.error)}
                for k, ev in exp.items():
                    if not same(r[k], ev):
                        bad('route_' + k, 'route', {'route': key, 'got': r[k], 'expected': ev})
                if not r['is_module_attr']:
                    bad('route_object_not_module_attribute', 'route', {'route': key})
                if set(r['attrs']) != {f.name for f in m.cfg_fields}:
                    bad('route_attrs', 'route', {'route': key, 'got': sorted(r['attrs'])})
                res.see('route', 'v%d' % d.version, 'deprecated' if d.deprecated else '-')
        if md['routes'] is None:
            bad('ROUTES_missing', 'module', {'ns': ns.name})


def run_shard(tier, seed, idx, n, res, tmp):
    from stone.backends.python_rsrc import stone_validators as bv
    b = budget(tier)
    for ci in common.case_range(idx, b['specs'], n, res):
        cs = common.case_seed(PROPERTY, seed, ci)
        rnd = random.Random(cs)
        m = gm.generate(cs, profile())
        files = gr.render(m, None)
        replay = {'case': ci, 'files': files}
        try:
            pkg = pyrt.Pkg(files, tmp)
        except Exception as e:
            tb = getattr(e, 'traceback', '') or repr(e)
            res.violation({'kind': 'backend_raised', 'exc': type(e).__name__,
                           'last': tb.strip().split('\n')[-1][:80]}, {'error': tb[-500:]}, replay)
            continue
        try:
            names = [ns.name for ns in m.namespaces]
            imported_ok = True
            for first in names:
                r = subprocess.run([common.PY, '-m', 'vf.checks.c09_child', pkg.root, pkg.name, first] +
                                   [x for x in names if x != first], env=common.child_env(),
                                   cwd=common.VERIF, capture_output=True, text=True, timeout=300)
                res.evaluations += 1
                res.count('fresh_imports')
                if r.returncode != 0:
                    res.inconclusive.append('c09 child failed: %s' % r.stderr[-300:])
                    imported_ok = False
                    continue
                desc = json.loads(r.stdout.strip().split('\n')[-1])
                if desc['import_error']:
                    ie = desc['import_error']
                    imported_ok = False
                    res.violation({'kind': 'import_failed', 'exc': ie['exc'], 'cause': _cause(ie)},
                                  dict(ie, first_import=first), replay)
                    continue
                res.see('import_order', 'first=%d/%d' % (names.index(first) + 1, len(names)))
                compare(res, m, desc, replay, first)
            if not imported_ok:
                continue
            # attribute get / set / delete with one valid value per field (in-process)
            vg = ValueGen(m, rnd, max_depth=2)
            for d in m.defs('struct'):
                cls = pkg.cls(d.ns, d.name)
                for f in m.struct_all_fields(d):
                    try:
                        av = vg.value(f.type, avoid_null=True)
                    except Uninhabited:
                        continue
                    if av is None:
                        continue
                    res.evaluations += 1
                    try:
                        o = cls()
                        v = pyrt.build(pkg, m, av)
                        setattr(o, f.name, v)
                        got = getattr(o, f.name)
                        delattr(o, f.name)
                        unset_reads = None
                        try:
                            unset_reads = ('value', getattr(o, f.name))
                        except AttributeError:
                            unset_reads = ('attribute_error',)
                        optional = f.type.nullable or f.default is not None
                        if optional != (unset_reads[0] == 'value'):
                            res.violation({'kind': 'deleted_field_reads_wrong', 'optional': optional},
                                          {'struct': d.name, 'field': f.name, 'reads': repr(unset_reads)[:100]},
                                          replay)
                        res.see('attribute_cycle', 'optional' if optional else 'required')
                    except Exception as e:
                        res.violation({'kind': 'attribute_cycle_raised', 'exc': type(e).__name__},
                                      {'struct': d.name, 'field': f.name, 'error': repr(e)[:200]}, replay)
            if ci < n:
                res.sample({'case': ci, 'namespaces': names,
                            'classes_first_ns': [d.name for d in m.namespaces[0].defs
                                                 if d.kind in ('struct', 'union')][:6]}, cap=3)
        finally:
            pkg.close()


def _cause(ie):
    msg = ie['msg']
    tb = ie.get('tb', '')
    if ie['exc'] == 'SyntaxError':
        return 'syntax:' + msg.split('(')[0][:40]
    if ie['exc'] == 'NameError' and "'TagRef'" in msg:
        return 'route_attribute_union_tag_emitted_with_repr'
    if ie['exc'] == 'NameError':
        return 'name_not_defined' + ('_validator' if '_validator' in msg else '')
    if ie['exc'] == 'ImportError':
        return 'circular_or_missing_import'
    import re
    return re.sub(r'vfpkg_\d+_\d+', 'pkg', msg)[:40]
